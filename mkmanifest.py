#!/usr/bin/env python3
"""Regenerates /verif/MANIFEST.json. Edit CLAIMED / texts here, then run it."""
import json, subprocess

HOOK_COMMITS = ["cdcb137"]

LEG = " Each check runs twice: in the default release build of the harness and, as a child process, in a build with overflow checks and debug assertions (profile `checked`); violations of either leg are reported."
SEQ_NOTE = "Bounded: all sequences up to the per-table depth written to the evidence file plus all 0/1-deviation lanes; argument values range over the fill patterns and, one or two arguments at a time, over util::value_set (whole domain up to 8 bits, thorough 16; beyond: small integers, top of range, powers of two +-1, every byte lane x 6 (256) values x 3 backgrounds, alignments), not over all 2^32 / 2^64 values: a rule keyed to one arbitrary wide constant outside that set, or to three arguments at once, is outside the verdict. Oracles are written from the specifications (DESIGN.md 9.1 lists what is asserted and what is pinned to the baseline)."
SEQ_TECH = "stateless exhaustive DFS over all builder-operation sequences to a depth bound + deviation-bounded long lanes, executed on the real crate, every prefix judged"

# property -> (engine, technique, level text, level note, design ref)
P = {
 "C01": ("E2", SEQ_TECH,
         "Every prefix of every operation sequence (depth-bounded, 22 table subjects incl. the empty history and three header variants) and of every lane a^N / (ab)^(N/2) (N=300 quick, 600 + 66000-op single-kind lanes thorough, crossing 256 and 65536 entries/bytes) is executed on the real table and the bytes delivered to the sink must sum to 0 (RSDP: both ranges).",
         SEQ_NOTE, "DESIGN.md section 4 C01"),
 "C02": ("E2", SEQ_TECH,
         "Same exploration as C01; in every visited state the Length field (offset 4; RSDP offset 20; FACS offset 4) must equal the number of bytes the sink received, counted by the sink and never by a crate helper.",
         SEQ_NOTE, "DESIGN.md section 4 C02"),
 "C03": ("E2", SEQ_TECH,
         "Same exploration over the 13 variable-body tables; in every state an independent walker steps through the body by the entries' own length fields (HEST: by the specification's per-type sizes), must land on the image end, must find exactly the entries the history added (type, order, size), and every count/offset/string-length field must agree with what the walk finds.",
         SEQ_NOTE, "DESIGN.md section 4 C03"),
 "C04": ("E4+E2", "bounded-exhaustive enumeration of builder programs (deviation bound 2 over per-field alphabets) + the sequence exploration, byte equality with a spec-derived reference encoder",
         "Entry layer: for every table, entry kind and shape, the base argument tuples, every single-field deviation over the field's alphabet (0, 1, max, max-1, two distinct-byte patterns, every single bit, seed values; enums over all variants; optional parts present/absent) and every pair of fields over the extremes are built on the real crate inside a table and compared byte-for-byte with an independent reference encoder written from the specifications. Table layer: every state of the C01 exploration is compared with the reference image (header, reserved words, entries in order, Length, checksum).",
         SEQ_NOTE + " Constants that could not be settled offline (table revision bytes, FACS version, TCPA spec-revision bytes, RIMT and RQSC field order, RDPAS layout) are pinned to the baseline and act as regression trip-wires.", "DESIGN.md section 4 C04"),
 "C05": ("E2", SEQ_TECH,
         "PPTT, RHCT, RIMT, VIOT: every add operation of every node kind, with reference-taking operations instantiated with every handle selector (first, middle, latest) over earlier handles; in every intermediate image each returned handle (PPTT/RHCT: read through Debug) and each reference field must equal the offset at which the independent body walk finds the node it names.",
         SEQ_NOTE + " RIMT/VIOT handles are opaque (no Debug): their value is observed only where a later operation uses them.", "DESIGN.md section 4 C05"),
 "C06": ("E4", "bounded-exhaustive enumeration of AML term trees built with the real constructors + independent recursive-descent parse",
         "All programs of four families over every exported AML constructor (roots x fillers^slots, every (parent, slot, child) pair, every nesting triple of the 14 length-prefixed kinds, every body size 0..4200 and around 2^20) are built and serialised by the crate and parsed back by a harness-side ACPI 6.5 ch.20 decoder that knows only method arities; the stream must be consumed exactly, every PkgLength object must end where its last child ends, and the parsed tree must equal the tree the specification prescribes for the program.",
         "All trees of the stated families, not all trees. A parent receives stand-ins that replay the sink calls its real children made (byte/word/dword/qword/vec), so it sees what it would see from the real child. The parser accepts a superset grammar (any object where a term is expected).", "DESIGN.md section 4 C06"),
 "C07": ("E3", "whole-domain sweep of all 2^28 lengths in both forms on the real encoder + call-site binding",
         "Every length 0..2^28-1 in the self-inclusive and the exclusive form is encoded by the real encoder (cfg hook) and decoded by the specification's rule (value, lead-byte format, shortest width that can include itself; the 4 unrepresentable inclusive lengths must be refused). The exclusive form is swept again through the public Field API and must agree with the hook byte for byte; each of the 15 length-prefixed object kinds is bound to the encoder with every body size 0..4200 and around 2^20.",
         "Trusts that the one-line cfg hook is a pass-through (bound to the shipped entry points by the Field sweep and the call-site binding).", "DESIGN.md section 4 C07"),
 "C08": ("E3", "whole-domain sweep: all 2^32 values through the integer encoders, structured u64 set",
         "All 2^32 values of u32 (hence all u8 and u16) are emitted through every carrier type they fit (quick: wider carriers on a stated subset) and must equal the narrowest Zero/One/Byte/Word/DWord/QWord encoding; u64/usize over width boundaries +-2, single bits, byte fills, shifted bytes and seed values; buffer-size operands 0..70000 and package elements.",
         "u64/usize beyond 2^32 are covered by a structured set, not exhaustively; 64-bit host.", "DESIGN.md section 4 C08"),
 "C09": ("E3", "exhaustive enumeration of path shapes and per-position character sets on the real encoder",
         "Segment counts 1..255 x rooted/relative, every legal character at every position of the first/middle/last segment of 1-, 2-, 3- and 255-segment paths, malformed segment lengths 0..3 and 5..8 at every position of 1..4-segment paths plus dot/root anomalies (all must be refused), and the 12 named-object constructors, each decoded by a harness-side NameString decoder.",
         "Segment contents are varied one position at a time, not in all combinations.", "DESIGN.md section 4 C09"),
 "C10": ("E4", "bounded-exhaustive enumeration of descriptor programs and templates + independent small/large-item walker",
         "Every descriptor kind over per-field value alphabets (full products for two-field kinds, all min<=max pairs, all flag sets, 13 address spaces x 5 access sizes), every template of <=3 descriptors over 11 kinds and k identical descriptors for every k up to a 4200-byte payload: bytes must equal the ACPI 6.4 reference encoding, length fields must frame the payload, the Buffer size must equal the payload, and a walk by the descriptors' own lengths must tile it and end in 79 00.",
         "Values range over the stated alphabets; min>max and unrepresentable sizes belong to C18.", "DESIGN.md section 4 C10"),
 "C11": ("E1", "stateright explicit-state closure per option-bearing structure, transition function = the real builder",
         "For each of 17 option-bearing structures (SRAT affinities, PPTT processor and cache nodes, CFMWS restrictions, TCPA server flags, GICC x 3 statuses, GIC MSI frame, HMAT locality x 4 types) the reachable set of serialised structures under all option builders is closed (all subsets, orders, repetitions); every transition is executed on the real builder and the whole structure is compared with a spec-derived reference, so a wrong bit, an inverted gate flag or a byte moving outside the governed field is seen. FADT: full closure over all 25 flag values (2^24 states, thorough; three 9-flag windows + all pairs, quick) and a closure over profile/enable/dsdt/firmware_ctrl modes x 6 flags. Constructor booleans (MADT enable states, RIMT/HEST) over all tuples.",
         "Closure is complete for the listed option alphabets (one or two values per valued option). Repeated enum-valued setters are judged with the property's union semantics.", "DESIGN.md section 4 C11"),
 "C12": ("E1", "stateright explicit-state closure over the real SLIT / HMAT locality structure against a last-writer reference map",
         "SLIT with 1..3 localities (4 and 5 thorough) under every ordered pair incl. diagonal x {10,20,255}, and HMAT latency/bandwidth structures of every shape up to 3x3 (4x3, 3x4 thorough; incl. 1xn, nx1, non-square) under every cell x {0,0x1234,0xFFFF}, list setters and options: the reachable state space is closed with no depth bound, every transition is judged (cell -> last value, mirror cell, untouched cells, table checksum, structure inside an HMAT).",
         "Shapes and values beyond those listed are not enumerated; out-of-range indices are not judged.", "DESIGN.md section 4 C12"),
 "C13": ("E1", "stateright depth-bounded search over operation sequences on the real Sdt against a Vec<u8> reference model",
         "All sequences over typed/slice appends, typed/slice writes at every offset 0..len+1 and usize::MAX, and sink pushes to depth 2 (full alphabet, initial lengths 36/37/40), over a reduced offset set to depth 3 (quick) / 4 (thorough), and from lengths 255 and 65534 so that appends carry Length across 256 and 65536; each transition replays the history on a fresh real table and compares as_slice, len and the serialisation with a plain byte-vector model; refused writes must leave the table bit-identical.",
         "Two values per width; depth-bounded. A write into the Length field is modelled as a plain write.", "DESIGN.md section 4 C13"),
 "C14": ("E2+E4", "exhaustive enumeration of explored objects x sink implementations, stream equality",
         "Every table state of the depth<=3 sequence exploration, long-lane states, every add_structure-able type over 56 argument fillings, and the C06/C10 program roots are serialised twice into Vec and once into a byte-only sink, an all-methods sink, the Checksum sink, u8sum, the Sdt sink and the PackageBuilder sink; every stream must equal the Vec stream, as_bytes() must equal the serialised form and the byte-sum helper the arithmetic sum.",
         "AML children are stand-ins replaying the real child's sink calls; Sdt-as-sink skipped above 2048 bytes.", "DESIGN.md section 4 C14"),
 "C15": ("E4", "bounded-exhaustive enumeration of paired construction paths, byte equality",
         "Scope::raw vs Scope::new for 6 path shapes x every body size 0..4200 and around 2^20 and every child list <=3; PackageBuilder vs Package for every element count 0..255, all lists <=3 and nested; &str vs String for every length 0..300; usize vs u64 over the structured integer set.",
         "Equality of the two paths only; correctness of the bytes is C06/C07.", "DESIGN.md section 4 C15"),
 "C16": ("E3", "whole-domain sweep of all 26^3*16^4 EISA ids (thorough) and positional enumeration of UUID strings on the real encoders",
         "EISA: every identifier (thorough) or every position over its full set plus all letter triples x 256 digit patterns (quick) is emitted and decompressed by the specification's rule; UUID: every nibble position x 16 digits x 2 cases x 3 backgrounds, seed-derived strings, all position pairs (thorough), decoded through the ToUUID inverse; malformed strings (every wrong length, digit at a dash, bad character at each nibble) must be refused.",
         "The UUID space is covered structurally, not exhaustively.", "DESIGN.md section 4 C16"),
 "C18": ("E3", "enumeration over every narrowing site x {max-1, max, max+1, far beyond} x {release, overflow-checked} builds of the real crate",
         "23 caller-controlled narrowing sites (name segments, package elements, method arguments, PkgLength, address-space sizes, PPTT/CEDT/HMAT/RIMT/VIOT/SLIT/RHCT/RQSC counts, lengths and offset cursors) are driven at and beyond their field maximum in two builds of the same harness: default release (wrapping arithmetic) and a profile with overflow checks. At or below the maximum the bytes must pass the framing oracles of C03/C06/C10; above it the call must panic in both builds.",
         "Only the sites found by reading the crate are driven; 4 GiB table lengths are not materialised.", "DESIGN.md section 4 C18"),
 "C17": ("E3+E1", "complete enumeration of the accumulator's 256-state transition relation on the real code + stateright closure",
         "All 256 accumulator states x all 256 bytes x {add, sub, sink byte}, all (state, 2-byte slice) pairs for the slice and sink forms, and a stateright closure from the default accumulator that must reach exactly 256 states, each compared with a wide-integer reference. The state is one byte, so single steps from every state cover every history: this is a complete check, not a bound.",
         "Trusts that raw_value() exposes the whole state (the struct has a single u8 field) and that the host is 64-bit little-endian.",
         "DESIGN.md section 4 C17"),
}

# as-built additions (rounds 8-15 of seeded changes; DESIGN.md section 8)
ADD = {
 "C01": " Plus, per table: explicit sweep programs (every size of every variable-size entry over a contiguous range, continuation / identical / overlapping / descending argument chains, strings with blank / NUL heads and tails, foreign handles, setters overwritten with other values), a byte-sum sweep (one argument per entry kind through all 256 low-byte values), every argument all-zero / all-ones beside ordinary neighbours, the value sweep (every numeric or byte-array argument of every entry kind, shape and constructor through util::value_set x the enumerated arguments; argument pairs equal / adjacent / doubled and over a 12-value special set; argument = entry position / table length / entry size / previous argument +-1; one special value in three entries), and a second DFS over one operation per kind to depth 4..16. The generic Sdt's alphabet includes the caller writing Length = current length + d (d in 0,1,2,3,8) ahead of an append.",
 "C02": " The sweep programs (incl. RQSC vendor identifier blobs of every length 0..40, also shorter than the 12 bytes of the fixed identifier fields) and single HMAT structures of 65 532 .. 180 000 bytes, byte-sum sweep, value sweep and kind-level DFS of C01 are judged here too.",
 "C03": " The sweep programs, byte-sum sweep, value sweep and kind-level DFS of C01 are judged here too.",
 "C04": " The entry layer also uses all-arguments-equal, lower-case-letter and blank fills; the stand-alone structures (PCI-config GAS, typed GenericAddress, HEST error status block and data entry) are compared with their specification layouts; the sweep programs and the value sweep of C01 are judged here too.",
 "C05": " The sweep programs of C01 (sizes, strings, overwritten next_level, foreign parent), its value sweep, and programs that grow the table past 64 KiB and then add a node and references to that very node (RIMT, RHCT, PPTT) are judged here too.",
 "C06": " Plus every sequence of <=3 (thorough 4) field entries over named/reserved x 8 widths, long runs of one width up to 2^28-1 bits x 1..40 / 255..257 / 4095..4097 entries, and resource templates whose last / first / only descriptor ends in every byte pair. Every node is serialised twice (the passes must agree) and every program containing a PackageBuilder is re-run with builders obtained through Default and core::mem::take.",
 "C07": " Plus every call site with every name form (1, 2, 3, 10 segments, rooted or not) and a directly-written 64-bit child, every container with 0..=300 and up to 65 537 small children, every container with a child whose last two / first two bytes run over all 65 536 pairs, and the field-entry sequences and long runs of C06.",
 "C08": " Plus every combination of {00,01,80,ff} over the 8 bytes, every (high, low) dword pair over 22 values, ResourceTemplate children of every total size 0..70000, and an integer of every width at every offset (0..250 one-byte children, or one child of 0..300 / ~4096 / ~65536 bytes in front) inside every container. And 118 class-boundary values x 5 carriers through each of 33 single-operand slots (BufferTerm, VarPackageTerm, Name, OpRegion, If/While predicates, Store, Notify, operators, CreateField, Mid, MethodCall), judged differentially and by length/containment against the object with an empty operand.",
 "C09": " Plus every string over {name character, dot} up to 14 and over {name character, dot, backslash} up to 10 characters, well-formed paths with blank / tab / newline / NUL at their edges, and every one of the 1 367 631 four-character segments as single name (relative and rooted) and as first / last / middle segment, and a dictionary of 1 390 predefined ACPI names under every predefined scope and paired with each other.",
 "C10": " Plus value sweeps: Register over 13 spaces x every width x offsets x every access size, IO over every alignment x length, value-set minima x 5-6 maxima for every address-space kind with and without translation. Every descriptor and template is serialised twice and the passes must agree.",
 "C11": " Plus the value sweep of C01 over every option-bearing entry (every shape, every numeric argument through util::value_set x the enumerated arguments; argument pairs x the enumerated arguments), the CFMWS closure for every interleave-ways value x arithmetic and the TCPA closure for four address spaces of its address arguments.",
 "C12": " Plus every HMAT shape of a 34x34 (thorough 64x64) grid and every SLIT size 1..40 (100) and 128..400 with every cell assigned in three orders, and every locality type x data type x transfer size with untouched cells, all 65 536 cell values in six program forms on three shapes, all 256 x 256 SLIT distance pairs, the large shapes with one and the same value in every cell, and every closure transition also run with the structure serialised after every operation. In that observed run the structure is added as the second locality of an HMAT that already holds one, and the table's byte sum, Length and the structure's position are judged.",
 "C13": " Plus state-relative writes (Length := current length + k, a copied header), update_checksum, generic write/append of GenericAddress, and lockstep programs on large tables (slices of every size to 1100 and around 4 KiB / 64 KiB, every initial length 36..1100, byte-by-byte growth to 5000 bytes), every typed append / sink / write with its value over util::value_set, and all 80 ACPI table signatures as constructor signature and written in place.",
 "C14": " Plus the stand-alone structures and fills of lower-case letters / blanks in the raw-form comparison, every public field of Rsdp / FACS / GAS set after construction, and the PackageBuilder sink in three origins (new, Default, left by mem::take).",
 "C15": " Plus strings with NUL / blank / quote / non-ASCII characters at either end, and PackageBuilder values obtained through Default and reused after core::mem::take; every character U+0000..U+07FF at the head, tail, inside of a string and every ASCII head pair, owned against borrowed; Scope::raw for every body size 0..70000 x spare capacity {0,1,7,64,4096}.",
 "C16": " Plus every placement of four dashes among 36 positions, every pair of positions over 6 characters, identifier + suffix / prefix, and lower-case EISA digits (accepted only if they encode the same identifier), and every character U+0000..U+07FF at every position of three UUIDs and every digit position of three EISA ids, and all 65 536 values shared by two or three UUID groups.",
 "C17": " Plus slices of 6..300000 bytes in 6 patterns, sub-slices at start offsets 0..16 for every length 0..1100, runs of 0..300 equal bytes inside slices, every word, and dwords / qwords over util::value_set from every state (thorough: all 2^32 dwords).",
 "C18": " Plus limits reached by the sum of two parts (RIMT platform name x mappings, RQSC vendor resource x cache resources) for every residue of the first part, and every unrepresentable address range combined with translations related to its ends, and every Method argument count 0..255 with both values of serialized. Every count-limited element (HMAT side cache, CEDT CXIMS, PPTT processor node, RIMT IOMMU / root complex / platform, RHCT ISA string) is also serialised on its own, framed into the image add_* would produce and judged by the table walker.",
}

NOT_YET = "check not built yet in this revision of /verif (model-checking design in DESIGN.md section 4); listed here so that no unbuilt check is claimed"

def main():
    ids = ["C%02d" % i for i in range(1, 19)]
    checks = []
    na = []
    for i in ids:
        if i in P:
            eng, tech, text, note, ref = P[i]
            text = text + ADD.get(i, "")
            note = note + LEG if i != "C18" else note
            checks.append({
                "property_id": i,
                "quick_cmd": "./check %s quick" % i,
                "thorough_cmd": "./check %s thorough" % i,
                "evidence_file": "/verif/evidence/%s.json" % i,
                "replay_cmd_template": "./check replay {path}",
                "engine": eng,
                "level_claimed": {"category": "model_checking", "text": text, "design_ref": ref},
                "level_note": note,
                "technique": tech,
            })
        else:
            na.append({"property_id": i, "reason": NOT_YET})
    m = {
        "version": 1,
        "setup_cmd": "./setup.sh",
        "hooks": {
            "guard": "rust_vmm_acpi_tables_verif",
            "enable": "RUSTFLAGS=--cfg rust_vmm_acpi_tables_verif (set in /verif/vcheck/.cargo/config.toml; the harness depends on /repo by path, so every check rebuilds the crate from the working tree with the cfg on)",
            "baseline_off_cmd": "cd /repo && cargo test --workspace --no-fail-fast --offline",
            "source_commits": HOOK_COMMITS,
            "add_only": True,
        },
        "engines": [
            {"name": "E1", "path": "/verif/vcheck/src/sr.rs", "serves_properties": ["C05","C11","C12","C13","C17"], "kind_free_text": "stateright explicit-state search (closure or depth-bounded) whose transition function executes the real crate"},
            {"name": "E2", "path": "/verif/vcheck/src/seq.rs", "serves_properties": ["C01","C02","C03","C04","C05","C14"], "kind_free_text": "stateless depth-bounded DFS over all operation sequences plus deviation-bounded long lanes, every prefix observed"},
            {"name": "E3", "path": "/verif/vcheck/src/props", "serves_properties": ["C01","C02","C03","C04","C05","C07","C08","C09","C12","C13","C16","C17","C18"], "kind_free_text": "whole-domain sweeps and explicit sweep programs (contiguous sizes, related arguments), rayon on 16 cores"},
            {"name": "E4", "path": "/verif/vcheck/src/aml/gen.rs", "serves_properties": ["C06","C10","C15","C04"], "kind_free_text": "bounded-exhaustive term-tree / builder-program generation + independent parse"},
        ],
        "checks": checks,
        "not_applicable": na,
        "notes": "All checks run ./check, which rebuilds /verif/vcheck in two profiles (path dependency on /repo, cfg hook on) and executes it. Exit 0 held, 1 VIOLATION, 2 machinery failure. Known findings: /verif/known_findings.json.",
    }
    if not na:
        del m["not_applicable"]
    json.dump(m, open("/verif/MANIFEST.json", "w"), indent=1)
    print("claimed:", [c["property_id"] for c in checks])

main()
