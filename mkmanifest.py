#!/usr/bin/env python3
"""Regenerates /verif/MANIFEST.json. Edit CLAIMED / texts here, then run it."""
import json, subprocess

HOOK_COMMITS = ["cdcb137"]

# property -> (engine, technique, level text, level note, design ref)
P = {
 "C17": ("E3+E1", "complete enumeration of the accumulator's 256-state transition relation on the real code + stateright closure",
         "All 256 accumulator states x all 256 bytes x {add, sub, sink byte}, all (state, 2-byte slice) pairs for the slice and sink forms, and a stateright closure from the default accumulator that must reach exactly 256 states, each compared with a wide-integer reference. The state is one byte, so single steps from every state cover every history: this is a complete check, not a bound.",
         "Trusts that raw_value() exposes the whole state (the struct has a single u8 field) and that the host is 64-bit little-endian.",
         "DESIGN.md section 4 C17"),
}

NOT_YET = "check not built yet in this revision of /verif (model-checking design in DESIGN.md section 4); listed here so that no unbuilt check is claimed"

def main():
    ids = ["C%02d" % i for i in range(1, 19)]
    checks = []
    na = []
    for i in ids:
        if i in P:
            eng, tech, text, note, ref = P[i]
            checks.append({
                "property_id": i,
                "quick_cmd": "./check %s quick" % i,
                "thorough_cmd": "./check %s thorough" % i,
                "evidence_file": "/verif/evidence/%s.json" % i,
                "replay_cmd_template": "./check replay {path}",
                "engine": eng,
                "level_claimed": {"category": "model_checking", "text": text, "design_ref": ref},
                "level_note": note,
                "technique": tech,
            })
        else:
            na.append({"property_id": i, "reason": NOT_YET})
    m = {
        "version": 1,
        "setup_cmd": "./setup.sh",
        "hooks": {
            "guard": "rust_vmm_acpi_tables_verif",
            "enable": "RUSTFLAGS=--cfg rust_vmm_acpi_tables_verif (set in /verif/vcheck/.cargo/config.toml; the harness depends on /repo by path, so every check rebuilds the crate from the working tree with the cfg on)",
            "baseline_off_cmd": "cd /repo && cargo test --workspace --no-fail-fast --offline",
            "source_commits": HOOK_COMMITS,
            "add_only": True,
        },
        "engines": [
            {"name": "E1", "path": "/verif/vcheck/src/sr.rs", "serves_properties": ["C05","C11","C12","C13","C17"], "kind_free_text": "stateright explicit-state search (closure or depth-bounded) whose transition function executes the real crate"},
            {"name": "E2", "path": "/verif/vcheck/src/seq.rs", "serves_properties": ["C01","C02","C03","C04","C05","C14"], "kind_free_text": "stateless depth-bounded DFS over all operation sequences plus deviation-bounded long lanes, every prefix observed"},
            {"name": "E3", "path": "/verif/vcheck/src/props", "serves_properties": ["C07","C08","C09","C16","C17"], "kind_free_text": "whole-domain sweeps (rayon, 16 cores)"},
            {"name": "E4", "path": "/verif/vcheck/src/amlgen.rs", "serves_properties": ["C06","C10","C15","C04"], "kind_free_text": "bounded-exhaustive term-tree / builder-program generation + independent parse"},
        ],
        "checks": checks,
        "not_applicable": na,
        "notes": "All checks run ./check, which rebuilds /verif/vcheck (path dependency on /repo, cfg hook on) and executes it. Exit 0 held, 1 VIOLATION, 2 machinery failure. Known findings: /verif/known_findings.json.",
    }
    if not na:
        del m["not_applicable"]
    json.dump(m, open("/verif/MANIFEST.json", "w"), indent=1)
    print("claimed:", [c["property_id"] for c in checks])

main()
