#!/usr/bin/env python3
"""Apply a seeded change to /repo, run checks, undo it.  usage: seedtest.py <patch.diff> [tier] [Cnn ...]
Prints, per check, whether it raised a VIOLATION (exit 1), held (0) or broke (2)."""
import subprocess, sys, json, time
import os
patch = os.path.abspath(sys.argv[1])
tier = sys.argv[2] if len(sys.argv) > 2 and sys.argv[2] in ("quick", "thorough") else "quick"
props = [a for a in sys.argv[2:] if a.startswith("C")] or ["C%02d" % i for i in range(1, 19)]
st = subprocess.run(["git", "-C", "/repo", "status", "--porcelain", "--untracked-files=no"], capture_output=True, text=True).stdout.strip()
if st:
    print("refusing: /repo has local modifications:\n" + st); sys.exit(2)
subprocess.check_call(["git", "-C", "/repo", "apply", patch])
res = {}
try:
    for p in props:
        t = time.time()
        r = subprocess.run(["/verif/check", p, tier], capture_output=True, text=True, cwd="/verif")
        keys = [l.strip() for l in r.stdout.splitlines() if l.strip().startswith("violation key=")]
        res[p] = {"exit": r.returncode, "wall_s": round(time.time() - t, 1), "violations": [k[:220] for k in keys[:4]], "n_violations": len(keys)}
        if r.returncode == 2:
            res[p]["stderr"] = r.stderr[-400:]
        print(p, "exit", r.returncode, "%.1fs" % (time.time() - t), (keys[0][:200] if keys else ""), flush=True)
finally:
    subprocess.check_call(["git", "-C", "/repo", "checkout", "--", "."])
    subprocess.run("rm -f /verif/replays/*", shell=True)
print(json.dumps({"patch": patch, "tier": tier, "detected_by": [p for p in res if res[p]["exit"] == 1], "results": res}))
