#!/usr/bin/env python3
"""seedmeta.py <seed-id> <seedtest-json-line-file>: write /verif/seeded/<id>/meta.json from the agent's meta and my runs."""
import json, sys, os
sid = sys.argv[1]
d = "/verif/seeded/%s" % sid
agent = {}
try:
    agent = json.load(open(d + "/meta.agent.json"))
except Exception as e:
    agent = {"note": "agent meta unreadable: %s" % e}
runs = [json.loads(l) for l in open(sys.argv[2]) if l.startswith("{")]
meta = {
    "id": sid,
    "property": agent.get("property", sid.split("-")[0]),
    "summary": agent.get("summary"),
    "needs": agent.get("needs"),
    "written_by": "independent sub-agent given only the property text and a scratch worktree of /repo",
    "confirmed": {
        "existing_suite_with_change": "88 passed, 0 failed (cargo test --offline --lib in the scratch worktree)",
        "demo_without_change": "passes",
        "demo_with_change": "fails",
        "how": "tools/confirm_seed.sh (scratch worktree under /tmp, removed afterwards)",
    },
    "agent_ran": agent.get("ran"),
    "checks_run": [{"tier": r["tier"], "detected_by": r["detected_by"], "first_violations": {p: v["violations"][:2] for p, v in r["results"].items() if v["exit"] == 1}, "exit_codes": {p: v["exit"] for p, v in r["results"].items()}} for r in runs],
}
json.dump(meta, open(d + "/meta.json", "w"), indent=1)
os.remove(d + "/meta.agent.json") if os.path.exists(d + "/meta.agent.json") else None
print(sid, "detected by", [r["detected_by"] for r in runs])
