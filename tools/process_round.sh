#!/bin/bash
# process_round.sh "<tag> <seed-id> <Cnn>" ... : confirm each new seed, then try it against (a) the harness as committed
# before the seed arrived (/tmp/vsnap, built into /tmp/vsnap_target) and (b) the current harness, own property only.
for triple in "$@"; do
  set -- $triple; TAG=$1; ID=$2; P=$3
  echo "=== $TAG -> $ID ($P)"
  /verif/tools/confirm_seed.sh $TAG $ID 2>&1 | grep -E "test result|stored|apply" | sed "s/; 0 ignored.*//" | tr '\n' ' '; echo
  git -C /repo apply /verif/seeded/$ID/patch.diff || { echo "patch does not apply to /repo"; continue; }
  if [ -d /tmp/vsnap ]; then
    (cd /tmp/vsnap/vcheck && CARGO_TARGET_DIR=/tmp/vsnap_target cargo build --release --offline 2>&1 | grep -E "^error")
    echo "  committed harness $P: $(VCHECK_NO_LEG=1 /tmp/vsnap_target/release/vcheck $P quick | grep -E 'quick:' | sed 's/.*violations=/violations=/')"
  fi
  echo "  current harness   $P: $(/verif/check $P quick | grep -E 'quick:|violation key' | head -2 | cut -c1-200 | tr '\n' '|')"
  git -C /repo checkout -- .
done
