#!/usr/bin/env python3
"""Regenerate the seeded-change table of DESIGN.md section 8 from /verif/seeded/*/meta.json."""
import json, glob, os, re
rows = []
for d in sorted(glob.glob("/verif/seeded/*/")):
    m = d + "meta.json"
    if not os.path.exists(m):
        continue
    j = json.load(open(m))
    det = j["checks_run"][-1]["detected_by"] if j.get("checks_run") else []
    own = j["property"]
    note = j.get("harness_change", "")
    summ = (j.get("summary") or "").replace("|", "/").replace("\n", " ")
    needs = (j.get("needs") or "").replace("|", "/").replace("\n", " ")
    if len(summ) > 260: summ = summ[:257] + "..."
    if len(needs) > 260: needs = needs[:257] + "..."
    rows.append("| `%s` | %s | %s | %s | %s%s |" % (j["id"], own, summ, needs, ", ".join(det) if det else "**none**", (" — " + note) if note else ""))
table = "| seed | written for | change | needs | quick checks that report it |\n|---|---|---|---|---|\n" + "\n".join(rows)
s = open("/verif/DESIGN.md").read()
a, b = "<!-- SEEDTABLE:BEGIN -->", "<!-- SEEDTABLE:END -->"
if a in s:
    s = s[:s.index(a) + len(a)] + "\n" + table + "\n" + s[s.index(b):]
    open("/verif/DESIGN.md", "w").write(s)
    print("table updated:", len(rows), "rows")
else:
    print("markers not found")
