#!/bin/bash
# confirm_seed.sh <Cnn> <seed-id>: confirm an independently written change in its scratch worktree, then store it under /verif/seeded/<seed-id>
set -u
P=$1; ID=$2; WT=/tmp/wt_$P; OUT=/tmp/mutout_$P
export CARGO_TARGET_DIR=$WT/target CARGO_NET_OFFLINE=true
cd $WT || exit 2
[ -f $OUT/patch.diff ] || { echo "no patch"; exit 2; }
# normalise: start from a clean tree + demo test
git checkout -q -- . ; mkdir -p tests; cp $OUT/mutation_demo.rs tests/mutation_demo.rs
echo "== unmodified tree: demo must pass"
cargo test --offline --test mutation_demo 2>&1 | grep -E "test result|error" | head -3
git apply $OUT/patch.diff || { echo "patch does not apply"; exit 2; }
echo "== with change: existing suite must pass (88), demo must fail"
cargo test --offline --lib 2>&1 | grep -E "test result|error" | head -3
cargo test --offline --test mutation_demo 2>&1 | grep -E "test result|panicked|error" | head -4
git checkout -q -- .
mkdir -p /verif/seeded/$ID && cp $OUT/patch.diff $OUT/mutation_demo.rs /verif/seeded/$ID/ && cp $OUT/meta.json /verif/seeded/$ID/meta.agent.json
echo "== stored in /verif/seeded/$ID"
