#!/bin/bash
# one-off offline build of the harness (both profiles) from files on disk only
set -e
cd /verif/vcheck
export CARGO_NET_OFFLINE=true
cargo build --release --offline
cargo build --profile checked --offline
