//! Replayers for the non-table violation families: each re-executes the recorded input on the
//! real code, twice, with no explorer, and prints what it observes next to the oracle's view.
use crate::aml::parse::parse_all;
use crate::aml::res::R;
use crate::aml::tree::{arities, expect, real, T};
use crate::codecs::{int_decode, name_decode, pkg_decode};
use crate::util::{catch, hex, ser};
use acpi_tables::aml;
use serde_json::Value;

fn twice<Tv: PartialEq + std::fmt::Debug>(f: impl Fn() -> Tv) -> Option<Tv> {
    let (a, b) = (f(), f());
    if a != b {
        println!("MACHINERY: two replays of the same input disagree: {:?} vs {:?}", a, b);
        return None;
    }
    Some(a)
}

pub fn replay(v: &Value) -> i32 {
    let r = if v["replay"]["build"] == "checked" { &v["replay"]["replay"] } else { &v["replay"] };
    if v["replay"]["build"] == "checked" {
        println!("note: recorded by the overflow-checked build of the harness; run /verif/target/checked/vcheck replay <file> to reproduce in that regime");
    }
    let fam = r["family"].as_str().unwrap_or("");
    match fam {
        "pkglen" => {
            let n = r["n"].as_u64().unwrap_or(0) as usize;
            let incl = r["form"] == "inclusive";
            match twice(|| catch(|| aml::verif_create_pkg_length(n, incl))) {
                Some(Ok(b)) => println!("create_pkg_length({}, include_self={}) = {} ; decodes to {:?} (value, width, format ok)", n, incl, hex(&b), pkg_decode(&b)),
                Some(Err(m)) => println!("create_pkg_length({}, include_self={}) refused: {}", n, incl, m),
                None => return 2,
            }
            0
        }
        "pkglen-site" => {
            let kind = r["kind"].as_str().unwrap_or("");
            let pad = r["pad"].as_u64().unwrap_or(0) as usize;
            let k = crate::amlobj::SIZED_KINDS.iter().position(|x| *x == kind).unwrap_or(0);
            let nv = r["name_variant"].as_u64().unwrap_or(0) as usize;
            let direct = r["direct_child"].as_bool().unwrap_or(false);
            if let Some(h) = r["child_bytes"].as_str() {
                let bytes: Vec<u8> = (0..h.len() / 2).filter_map(|i| u8::from_str_radix(&h[2 * i..2 * i + 2], 16).ok()).collect();
                let child = crate::amlobj::Bytes(bytes);
                match twice(|| catch(|| crate::amlobj::with_children(k, vec![&child as &dyn acpi_tables::Aml]))) {
                    Some(Ok(b)) => {
                        let ol = crate::amlobj::opcode_len(k);
                        println!("{} with a child of bytes {}: {} bytes; {} follow the opcode; PkgLength {} decodes to {:?}", kind, h, b.len(), b.len() - ol, hex(&b[ol..(ol + 4).min(b.len())]), pkg_decode(&b[ol..]));
                    }
                    Some(Err(m)) => println!("{} with a child of bytes {} panicked: {}", kind, h, m),
                    None => return 2,
                }
                return 0;
            }
            if let Some(n) = r["children"].as_u64() {
                let w = r["child_width"].as_u64().unwrap_or(1) as usize;
                match twice(|| catch(|| crate::amlobj::sized_many(k, n as usize, w))) {
                    Some(Ok(b)) => {
                        let ol = crate::amlobj::opcode_len(k);
                        println!("{} with {} children of {} bytes: {} bytes; {} follow the opcode; PkgLength {} decodes to {:?}", kind, n, w, b.len(), b.len() - ol, hex(&b[ol..(ol + 4).min(b.len())]), pkg_decode(&b[ol..]));
                    }
                    Some(Err(m)) => println!("{} with {} children panicked: {}", kind, n, m),
                    None => return 2,
                }
                return 0;
            }
            match twice(|| catch(|| crate::amlobj::sized_v(k, pad, nv, direct))) {
                Some(Ok(b)) => {
                    let ol = crate::amlobj::opcode_len(k);
                    println!("{} with pad {}: {} bytes; {} follow the opcode; PkgLength {} decodes to {:?}", kind, pad, b.len(), b.len() - ol, hex(&b[ol..(ol + 4).min(b.len())]), pkg_decode(&b[ol..]));
                }
                Some(Err(m)) => println!("{} with pad {} panicked: {}", kind, pad, m),
                None => return 2,
            }
            0
        }
        "int" => {
            let val = r["value"].as_u64().unwrap_or(0);
            let carrier = r["carrier"].as_str().unwrap_or("u64");
            let f = || match carrier {
                "u8" => ser(&(val as u8)),
                "u16" => ser(&(val as u16)),
                "u32" => ser(&(val as u32)),
                "usize" => ser(&(val as usize)),
                _ => ser(&val),
            };
            if let Some(b) = twice(f) {
                let mut want = vec![];
                crate::codecs::int_encode(val, &mut want);
                println!("{} as {} emits {} (decodes to {:?}); narrowest encoding is {}", val, carrier, hex(&b), int_decode(&b), hex(&want));
            }
            0
        }
        "name" | "name-malformed" => {
            let p = r["path"].as_str().unwrap_or("");
            match twice(|| catch(|| ser(&aml::Path::new(p)))) {
                Some(Ok(b)) => println!("Path::new({:?}) emits {} ; decodes to {:?}", p, hex(&b), name_decode(&b)),
                Some(Err(m)) => println!("Path::new({:?}) refused: {}", p, m),
                None => return 2,
            }
            0
        }
        "eisa" | "eisa-malformed" => {
            let id = r["id"].as_str().unwrap_or("");
            match twice(|| catch(|| ser(&aml::EISAName::new(id)))) {
                Some(Ok(b)) => println!("EISAName::new({:?}) emits {} ; decompresses to {:?}", id, hex(&b), int_decode(&b).map(|x| String::from_utf8_lossy(&crate::codecs::eisa_decompress(x.0 as u32)).to_string())),
                Some(Err(m)) => println!("EISAName::new({:?}) refused: {}", id, m),
                None => return 2,
            }
            0
        }
        "uuid" | "uuid-malformed" => {
            let u = r["uuid"].as_str().unwrap_or("");
            match twice(|| catch(|| ser(&aml::Uuid::new(u)))) {
                Some(Ok(b)) => println!("Uuid::new({:?}) emits {}", u, hex(&b)),
                Some(Err(m)) => println!("Uuid::new({:?}) refused: {}", u, m),
                None => return 2,
            }
            0
        }
        "aml" | "aml-sink" | "alt-paths" => {
            let t: T = match serde_json::from_value(r["t"].clone()) {
                Ok(t) => t,
                Err(_) => {
                    println!("program (not machine-readable): {}", r["program"]);
                    return 0;
                }
            };
            println!("program: {:?}", t);
            match twice(|| catch(|| real(&t))) {
                Some(Ok(b)) => {
                    let mut ar = vec![];
                    arities(&t, &mut ar);
                    println!("emitted {} bytes: {}", b.len(), hex(&b));
                    println!("parsed  : {:?}", parse_all(&b, &ar));
                    println!("expected: {:?}", expect(&t));
                    if let Ok(t2) = serde_json::from_value::<T>(r["t2"].clone()) {
                        let b2 = catch(|| real(&t2));
                        println!("other construction path: {:?}", b2.map(|x| hex(&x)));
                    }
                }
                Some(Err(m)) => println!("building/serialising panicked: {}", m),
                None => return 2,
            }
            0
        }
        "standalone" | "raw-form-standalone" => {
            match serde_json::from_value::<crate::props::standalone::S>(r["s"].clone()) {
                Ok(st) => crate::props::standalone::replay(&st),
                Err(e) => println!("unreadable stand-alone structure description: {}", e),
            }
            0
        }
        "res" => {
            let d: R = match serde_json::from_value(r["r"].clone()) {
                Ok(d) => d,
                Err(_) => {
                    println!("descriptor: {}", r["desc"]);
                    return 0;
                }
            };
            match twice(|| catch(|| d.real())) {
                Some(Ok(b)) => println!("{:?} emits {} ; specification encoding {}", d, hex(&b), hex(&d.reference())),
                Some(Err(m)) => println!("{:?} panicked: {}", d, m),
                None => return 2,
            }
            0
        }
        _ => {
            println!("replay description: {}", serde_json::to_string_pretty(r).unwrap_or_default());
            0
        }
    }
}
