//! C07 — PkgLength for every representable length: whole-domain sweep of the encoder (hook),
//! the exclusive form again through the public Field API, and binding of every call site.
use crate::amlobj::{opcode_len, sized, SIZED_KINDS};
use crate::codecs::{pkg_cap, pkg_decode, pkg_width_inclusive};
use crate::ev::Ctx;
use crate::util::{catch, hex};
use acpi_tables::aml::{self, Field, FieldAccessType, FieldEntry, FieldLockRule, FieldUpdateRule};
use acpi_tables::Aml;
use rayon::prelude::*;
use serde_json::json;
use std::sync::atomic::{AtomicU64, Ordering};

const MAXLEN: usize = 1 << 28;

fn region(n: usize) -> &'static str {
    if n < 64 {
        "w1"
    } else if n < 4096 {
        "w2"
    } else if n < (1 << 20) {
        "w3"
    } else {
        "w4"
    }
}

fn check_exclusive(ctx: &Ctx, n: usize, b: &[u8], via: &str) {
    match pkg_decode(b) {
        Some((v, w, fmt)) if w == b.len() && v == n && fmt => {}
        other => {
            ctx.violation_sized(
                &format!("pkglen:exclusive:{}:{}", via, region(n)),
                n as u64,
                || format!("exclusive PkgLength of {} via {} is {} which decodes to {:?}", n, via, hex(b), other),
                || json!({"family": "pkglen", "form": "exclusive", "via": via, "n": n}),
            );
        }
    }
}

fn check_inclusive(ctx: &Ctx, n: usize, r: Result<Vec<u8>, String>) {
    let want_w = pkg_width_inclusive(n);
    match (r, want_w) {
        (Err(_), None) => {} // not representable: refused
        (Err(m), Some(_)) => {
            ctx.violation_sized(
                &format!("pkglen:inclusive:panic:{}", region(n)),
                n as u64,
                || format!("inclusive PkgLength for content {} refused: {}", n, m),
                || json!({"family": "pkglen", "form": "inclusive", "n": n}),
            );
        }
        (Ok(b), None) => {
            ctx.violation_sized(
                "pkglen:inclusive:unrepresentable",
                n as u64,
                || format!("content {} plus its prefix exceeds 2^28-1 yet bytes {} were returned (decode {:?})", n, hex(&b), pkg_decode(&b)),
                || json!({"family": "pkglen", "form": "inclusive", "n": n}),
            );
        }
        (Ok(b), Some(w)) => match pkg_decode(&b) {
            Some((v, used, fmt)) if used == b.len() && fmt && v == n + used && used == w => {}
            other => {
                ctx.violation_sized(
                    &format!("pkglen:inclusive:{}", region(n)),
                    n as u64,
                    || format!("inclusive PkgLength for content {} is {} (decode {:?}); want width {} and value {}", n, hex(&b), other, w, n + w),
                    || json!({"family": "pkglen", "form": "inclusive", "n": n}),
                );
            }
        },
    }
}

fn field_reserved(n: usize, named: bool) -> Vec<u8> {
    let e = if named { FieldEntry::Named(*b"FLDN", n) } else { FieldEntry::Reserved(n) };
    let f = Field::new("FLD0".into(), FieldAccessType::Any, FieldLockRule::NoLock, FieldUpdateRule::Preserve, vec![e]);
    let mut v = Vec::with_capacity(16);
    f.to_aml_bytes(&mut v);
    v
}

/// PkgLength bytes of the single field entry inside the Field object
fn field_entry_pkg(b: &[u8], named: bool) -> &[u8] {
    // 5B 81 PkgLength "FLD0" flags [00 | name(4)] PkgLength
    let (_, w, _) = pkg_decode(&b[2..]).unwrap_or((0, 1, false));
    let start = 2 + w + 4 + 1 + if named { 4 } else { 1 };
    &b[start.min(b.len())..]
}

pub fn run(ctx: &'static Ctx) {
    // ---- E3a: the encoder itself, all 2^28 lengths x 2 forms (hook)
    let chunks = 1usize << 12;
    let per = MAXLEN / chunks;
    let n_calls = AtomicU64::new(0);
    (0..chunks).into_par_iter().for_each(|ci| {
        let lo = ci * per;
        for n in lo..lo + per {
            let ex = aml::verif_create_pkg_length(n, false);
            check_exclusive(ctx, n, &ex, "hook");
            if n + 4 <= pkg_cap(4) {
                let inc = aml::verif_create_pkg_length(n, true);
                check_inclusive(ctx, n, Ok(inc));
            } else {
                check_inclusive(ctx, n, catch(|| aml::verif_create_pkg_length(n, true)));
            }
        }
        n_calls.fetch_add(2 * per as u64, Ordering::Relaxed);
    });
    ctx.tr(n_calls.load(Ordering::Relaxed));
    ctx.st(MAXLEN as u64 * 2);
    ctx.engine("E3.encoder-sweep", json!({"lengths": MAXLEN, "forms": 2, "via": "aml::verif_create_pkg_length (cfg hook)", "complete": true}));
    ctx.force_sample(json!({"n": 4093, "form": "inclusive", "expected": "width 2, value 4095"}));
    ctx.force_sample(json!({"n": 4094, "form": "inclusive", "expected": "width 3, value 4097"}));
    for n in [0usize, 62, 63, 64, 4093, 4094, 4095, 4096, (1 << 20) - 4, (1 << 20) - 3, 1 << 20, MAXLEN - 5, MAXLEN - 1] {
        ctx.distinct(n as u64);
    }
    // distinct non-trivial: one per (width class, form) pair actually produced is too coarse; count lengths at and next to every threshold
    for t in [63usize, 64, 4095, 4096, 1 << 20, MAXLEN] {
        for d in 0..8 {
            ctx.distinct((t - d.min(t)) as u64);
            ctx.distinct((t + d) as u64 | 1 << 40);
        }
    }

    // ---- E3b: the exclusive form through the shipped entry point (Field entries), tying the hook to the public API
    let mut pts: Vec<usize> = vec![];
    for t in [0usize, 63, 64, 4095, 4096, 1 << 20, MAXLEN - 1] {
        for d in 0..=64usize {
            if t >= d {
                pts.push(t - d);
            }
            if t + d < MAXLEN {
                pts.push(t + d);
            }
        }
    }
    for j in 0..28 {
        for k in 1..16usize {
            let v = k << j;
            if v < MAXLEN {
                pts.push(v);
                pts.push(v - 1);
            }
        }
    }
    pts.sort();
    pts.dedup();
    let full = !ctx.quick();
    let cnt = AtomicU64::new(0);
    let diverged = AtomicU64::new(0);
    let first_div = AtomicU64::new(u64::MAX);
    let do_n = |n: usize| {
        for named in [false, true] {
            let b = field_reserved(n, named);
            let e = field_entry_pkg(&b, named);
            check_exclusive(ctx, n, e, if named { "Field/Named" } else { "Field/Reserved" });
            // does the hook still speak for the public entry point? The property asks a field width only to decode to the width
            // given (judged above), not to be these very bytes: a divergence is no violation, but the hook's sweep then says
            // nothing about Field entries and the public entry point is swept over all 2^28 widths instead (below)
            if e != aml::verif_create_pkg_length(n, false).as_slice() {
                diverged.fetch_add(1, Ordering::Relaxed);
                first_div.fetch_min(n as u64, Ordering::Relaxed);
            }
        }
    };
    if full {
        (0..chunks).into_par_iter().for_each(|ci| {
            let lo = ci * per;
            for n in lo..lo + per {
                do_n(n);
            }
            cnt.fetch_add(2 * per as u64, Ordering::Relaxed);
        });
    } else {
        pts.par_iter().for_each(|n| {
            do_n(*n);
            cnt.fetch_add(2, Ordering::Relaxed);
        });
    }
    let mut swept_all = full;
    if !full && diverged.load(Ordering::Relaxed) > 0 {
        // binding lost in the quick tier: sweep the public entry point itself over every width
        swept_all = true;
        (0..chunks).into_par_iter().for_each(|ci| {
            let lo = ci * per;
            for n in lo..lo + per {
                do_n(n);
            }
            cnt.fetch_add(2 * per as u64, Ordering::Relaxed);
        });
    }
    ctx.tr(cnt.load(Ordering::Relaxed));
    ctx.engine("E3.field-entry-sweep", json!({"entries_checked": cnt.load(Ordering::Relaxed), "all_2^28": swept_all, "forms": ["Reserved", "Named"],
        "hook_binding": if diverged.load(Ordering::Relaxed) == 0 { json!("the hook returns byte for byte what Field entries emit") } else { json!({"diverged_entries": diverged.load(Ordering::Relaxed), "first_width": first_div.load(Ordering::Relaxed), "consequence": "the hook sweep does not speak for Field entries; the public entry point was swept over all 2^28 widths instead"}) }}));

    // ---- call-site binding: every length-prefixed object kind, every body size 0..=4200 and 2^20 +- 8
    let mut pads: Vec<usize> = (0..=4200).collect();
    for d in 0..=16usize {
        pads.push((1 << 20) - 16 + d);
    }
    let bound = AtomicU64::new(0);
    let work: Vec<(usize, usize)> = (0..SIZED_KINDS.len()).flat_map(|k| pads.iter().map(move |p| (k, *p))).collect();
    work.par_iter().for_each(|(k, pad)| {
        if SIZED_KINDS[*k] == "Field" && *pad > 5000 {
            return; // Field is padded with entries, large counts are covered by the other kinds
        }
        let b = match catch(|| sized(*k, *pad)) {
            Ok(b) => b,
            Err(m) => {
                ctx.violation_sized(&format!("pkglen:site:{}:panic", SIZED_KINDS[*k]), *pad as u64, || format!("{} with pad {} panicked: {}", SIZED_KINDS[*k], pad, m), || json!({"family":"pkglen-site","kind":SIZED_KINDS[*k],"pad":pad}));
                return;
            }
        };
        let ol = opcode_len(*k);
        let rest = b.len() - ol;
        bound.fetch_add(1, Ordering::Relaxed);
        match pkg_decode(&b[ol..]) {
            Some((v, w, fmt)) if fmt && v == rest && Some(w) == pkg_width_inclusive(rest - w) => {
                // and the encoder agrees with the hook for that content size
                if b[ol..ol + w] != aml::verif_create_pkg_length(rest - w, true)[..] {
                    ctx.violation_sized(&format!("pkglen:site:{}:hook", SIZED_KINDS[*k]), *pad as u64, || format!("{} body {}: prefix differs from the hook's", SIZED_KINDS[*k], rest - w), || json!({"family":"pkglen-site","kind":SIZED_KINDS[*k],"pad":pad}));
                }
            }
            other => {
                ctx.violation_sized(
                    &format!("pkglen:site:{}", SIZED_KINDS[*k]),
                    *pad as u64,
                    || format!("{} with pad {}: {} bytes follow the opcode but its PkgLength {} decodes to {:?}", SIZED_KINDS[*k], pad, rest, hex(&b[ol..(ol + 4).min(b.len())]), other),
                    || json!({"family":"pkglen-site","kind":SIZED_KINDS[*k],"pad":pad}),
                );
            }
        }
    });
    // field entries in sequence (an entry's PkgLength must not depend on the entries before it): judged by the term
    // parser of C06, which decodes every entry's width
    let nfs = crate::props::c06::field_sequences(ctx);
    ctx.st(nfs);
    ctx.tr(nfs);
    ctx.engine("E4.field-entry-sequences", json!({"sequences": nfs}));
    // the same sites with every name form (1, 2, 3, 10 segments, relative and rooted) and with a child that writes a
    // 64-bit constant straight to the sink; body sizes around every width threshold and every size up to 300
    let vpads: Vec<usize> = (0..=300usize).chain(4060..=4110).chain((1 << 20) - 40..=(1 << 20)).collect();
    let vwork: Vec<(usize, usize, usize, bool)> = (0..SIZED_KINDS.len())
        .flat_map(|k| (0..8usize).flat_map(move |nv| [false, true].into_iter().map(move |d| (k, nv, d))))
        .filter(|(k, nv, d)| (*nv != 0 || *d) && (*nv == 0 || crate::amlobj::is_named(*k)) && !matches!(SIZED_KINDS[*k], "VarPackageTerm" | "BufferTerm" | "BufferData"))
        .flat_map(|(k, nv, d)| vpads.iter().map(move |p| (k, *p, nv, d)))
        .collect();
    let vbound = AtomicU64::new(0);
    vwork.par_iter().for_each(|(k, pad, nv, d)| {
        if SIZED_KINDS[*k] == "Field" && (*pad > 5000 || *d) {
            return;
        }
        let rep = || json!({"family":"pkglen-site","kind":SIZED_KINDS[*k],"pad":pad,"name_variant":nv,"direct_child":d});
        let b = match catch(|| crate::amlobj::sized_v(*k, *pad, *nv, *d)) {
            Ok(b) => b,
            Err(m) => {
                ctx.violation_sized(&format!("pkglen:site:{}:panic", SIZED_KINDS[*k]), *pad as u64, || format!("{} (name form {}, direct child {}) with pad {} panicked: {}", SIZED_KINDS[*k], nv, d, pad, m), rep);
                return;
            }
        };
        let ol = opcode_len(*k);
        let rest = b.len() - ol;
        vbound.fetch_add(1, Ordering::Relaxed);
        match pkg_decode(&b[ol..]) {
            Some((v, w, fmt)) if fmt && v == rest && Some(w) == pkg_width_inclusive(rest - w) => {}
            other => {
                ctx.violation_sized(
                    &format!("pkglen:site:{}", SIZED_KINDS[*k]),
                    *pad as u64,
                    || format!("{} (name form {:?}, direct 64-bit child {}) with pad {}: {} bytes follow the opcode but its PkgLength {} decodes to {:?}", SIZED_KINDS[*k], crate::amlobj::NAME_VARIANTS[*nv], d, pad, rest, hex(&b[ol..(ol + 4).min(b.len())]), other),
                    rep,
                );
            }
        }
    });
    // the same sites with many small children instead of one large one (a count-dependent step taken before or after the
    // length is computed shows only here); the Package kinds may refuse more than 255 elements, nothing else may refuse
    let counts: Vec<usize> = (0..=300usize).chain([1000, 4096, 65_535, 65_536, 65_537]).collect();
    let mwork: Vec<(usize, usize, usize)> = (0..SIZED_KINDS.len())
        .filter(|k| crate::amlobj::takes_children(*k))
        .flat_map(|k| counts.iter().flat_map(move |n| [1usize, 2, 9].into_iter().map(move |w| (k, *n, w))))
        .collect();
    let mbound = AtomicU64::new(0);
    let mrefused = AtomicU64::new(0);
    mwork.par_iter().for_each(|(k, n, w)| {
        let rep = || json!({"family":"pkglen-site","kind":SIZED_KINDS[*k],"children":n,"child_width":w});
        let may_refuse = matches!(SIZED_KINDS[*k], "Package" | "PackageBuilder") && *n > 255;
        let b = match catch(|| crate::amlobj::sized_many(*k, *n, *w)) {
            Ok(b) => b,
            Err(_) if may_refuse => {
                mrefused.fetch_add(1, Ordering::Relaxed);
                return;
            }
            Err(m) => {
                ctx.violation_sized(&format!("pkglen:site:{}:panic", SIZED_KINDS[*k]), *n as u64, || format!("{} with {} children of {} bytes panicked: {}", SIZED_KINDS[*k], n, w, m), rep);
                return;
            }
        };
        let ol = opcode_len(*k);
        let rest = b.len() - ol;
        mbound.fetch_add(1, Ordering::Relaxed);
        match pkg_decode(&b[ol..]) {
            Some((v, pw, fmt)) if fmt && v == rest && Some(pw) == pkg_width_inclusive(rest - pw) => {}
            other => {
                ctx.violation_sized(
                    &format!("pkglen:site:{}", SIZED_KINDS[*k]),
                    *n as u64,
                    || format!("{} with {} children of {} bytes: {} bytes follow the opcode but its PkgLength {} decodes to {:?}", SIZED_KINDS[*k], n, w, rest, hex(&b[ol..(ol + 4).min(b.len())]), other),
                    rep,
                );
            }
        }
    });
    ctx.tr(mbound.load(Ordering::Relaxed));
    ctx.st(mbound.load(Ordering::Relaxed));
    ctx.engine("E4.call-site-many-children", json!({"counts": "0..=300, 1000, 4096, 65535, 65536, 65537", "child_widths": [1, 2, 9], "objects": mbound.load(Ordering::Relaxed), "refused_packages_over_255": mrefused.load(Ordering::Relaxed)}));
    // children whose own bytes look like framing (the look-alike principle applied to the value of the body): one child of
    // six bytes whose last two - and, separately, first two - bytes run over all 65 536 pairs (79 00 is the end tag a
    // ResourceTemplate appends, 00 a terminator, ff / 5b / 10 / 14 opcodes ...): the length must not depend on them
    let lwork: Vec<(usize, u32)> = (0..SIZED_KINDS.len()).filter(|k| crate::amlobj::takes_children(*k)).flat_map(|k| (0..0x10000u32).map(move |p| (k, p))).collect();
    let lbound = AtomicU64::new(0);
    lwork.par_iter().for_each(|(k, pair)| {
        let (a, b) = ((*pair >> 8) as u8, *pair as u8);
        for (pos, bytes) in [("tail", vec![0x0a, 0x11, 0x0a, 0x22, a, b]), ("head", vec![a, b, 0x0a, 0x11, 0x0a, 0x22])] {
            let rep = || json!({"family":"pkglen-site","kind":SIZED_KINDS[*k],"child_bytes":hex(&bytes)});
            let child = crate::amlobj::Bytes(bytes.clone());
            let b2 = match catch(|| crate::amlobj::with_children(*k, vec![&child as &dyn acpi_tables::Aml])) {
                Ok(x) => x,
                Err(m) => {
                    ctx.violation_sized(&format!("pkglen:site:{}:panic", SIZED_KINDS[*k]), *pair as u64, || format!("{} with a child of bytes {} panicked: {}", SIZED_KINDS[*k], hex(&bytes), m), rep);
                    continue;
                }
            };
            let ol = opcode_len(*k);
            let rest = b2.len() - ol;
            lbound.fetch_add(1, Ordering::Relaxed);
            match pkg_decode(&b2[ol..]) {
                Some((v, pw, fmt)) if fmt && v == rest && Some(pw) == pkg_width_inclusive(rest - pw) && rest >= pw + 6 => {}
                other => {
                    ctx.violation_sized(
                        &format!("pkglen:site:{}", SIZED_KINDS[*k]),
                        *pair as u64,
                        || format!("{} with a child whose {} bytes are {:02x} {:02x}: {} bytes follow the opcode but its PkgLength {} decodes to {:?}", SIZED_KINDS[*k], pos, a, b, rest, hex(&b2[ol..(ol + 4).min(b2.len())]), other),
                        rep,
                    );
                }
            }
        }
    });
    ctx.tr(lbound.load(Ordering::Relaxed));
    ctx.st(lbound.load(Ordering::Relaxed));
    ctx.engine("E4.call-site-lookalike-children", json!({"objects": lbound.load(Ordering::Relaxed), "child": "six bytes, last two / first two over all 65536 pairs", "kinds": 10}));
    ctx.tr(vbound.load(Ordering::Relaxed));
    ctx.st(vbound.load(Ordering::Relaxed));
    ctx.engine("E4.call-site-variants", json!({"name_forms": crate::amlobj::NAME_VARIANTS, "direct_64bit_child": [false, true], "body_pads": "0..=300, 4060..=4110, 2^20-40..=2^20", "objects": vbound.load(Ordering::Relaxed)}));
    ctx.tr(bound.load(Ordering::Relaxed));
    ctx.st(bound.load(Ordering::Relaxed));
    ctx.engine("E4.call-site-binding", json!({"kinds": SIZED_KINDS, "body_pads": "0..=4200 and 2^20-16..=2^20", "objects": bound.load(Ordering::Relaxed)}));
    ctx.force_sample(json!({"kind": "Method", "pad": 55, "note": "body 62 -> 1-byte prefix 0x3F"}));
}

pub const RULE: &str = "every length 0..2^28 in both forms through the encoder hook; exclusive form through Field entries (quick: within 64 of every threshold and all k<<j; thorough: all 2^28); 15 object kinds x 4218 body sizes. distinct counted conservatively = lengths within 8 of a width threshold";
pub const ASSUME: &[&str] = &["the cfg hook is a pass-through to the private encoder (one line, see repo commit); bound to the public API by the Field sweep and the call-site binding"];
