//! C08 — integer constants: round trip, narrowest prefix, same bytes whichever carrier type.
use crate::codecs::{int_decode, int_encode, pkg_decode, Small};
use crate::ev::Ctx;
use crate::util::{hex, ser, splitmix};
use acpi_tables::aml::{BufferData, Package};
use acpi_tables::Aml;
use rayon::prelude::*;
use serde_json::json;
use std::sync::atomic::{AtomicU64, Ordering};

fn emit(a: &dyn Aml) -> Small {
    let mut s = Small::new();
    a.to_aml_bytes(&mut s);
    s
}

#[inline]
fn int_encode_arr(v: u64, out: &mut [u8; 9]) -> usize {
    let le = v.to_le_bytes();
    match v {
        0 => {
            out[0] = 0;
            1
        }
        1 => {
            out[0] = 1;
            1
        }
        2..=0xff => {
            out[0] = 0x0a;
            out[1] = le[0];
            2
        }
        0x100..=0xffff => {
            out[0] = 0x0b;
            out[1..3].copy_from_slice(&le[..2]);
            3
        }
        0x1_0000..=0xffff_ffff => {
            out[0] = 0x0c;
            out[1..5].copy_from_slice(&le[..4]);
            5
        }
        _ => {
            out[0] = 0x0e;
            out[1..9].copy_from_slice(&le);
            9
        }
    }
}

fn class(v: u64) -> &'static str {
    match v {
        0 | 1 => "const",
        2..=0xff => "byte",
        0x100..=0xffff => "word",
        0x1_0000..=0xffff_ffff => "dword",
        _ => "qword",
    }
}

#[inline]
fn check(ctx: &Ctx, v: u64, carrier: &'static str, got: &Small, want: &[u8]) {
    if got.n != want.len() || got.bytes() != want {
        ctx.violation_sized(
            &format!("int:{}:{}", carrier, class(v)),
            v,
            || format!("{} as {} is emitted as {} ({} bytes); narrowest encoding is {}; decodes to {:?}", v, carrier, hex(got.bytes()), got.n, hex(want), int_decode(got.bytes())),
            || json!({"family": "int", "value": v, "carrier": carrier}),
        );
    }
}

/// quick tier: the u32 carrier sees every value; the wider carriers (which only delegate) see all v < 2^24,
/// every 251st value and everything within 2 of a multiple of 2^16
#[inline]
fn quick_carriers(ctx: &Ctx, v: u64) -> u64 {
    let low = v & 0xffff;
    if v < (1 << 24) || v % 251 == 0 || low <= 2 || low >= 0xfffd {
        return all_carriers(ctx, v);
    }
    let mut wbuf = [0u8; 9];
    let wl = int_encode_arr(v, &mut wbuf);
    check(ctx, v, "u32", &emit(&(v as u32)), &wbuf[..wl]);
    1
}

fn all_carriers(ctx: &Ctx, v: u64) -> u64 {
    let mut wbuf = [0u8; 9];
    let wl = int_encode_arr(v, &mut wbuf);
    let want = &wbuf[..wl];
    let mut n = 0;
    if v <= u8::MAX as u64 {
        check(ctx, v, "u8", &emit(&(v as u8)), want);
        n += 1;
    }
    if v <= u16::MAX as u64 {
        check(ctx, v, "u16", &emit(&(v as u16)), want);
        n += 1;
    }
    if v <= u32::MAX as u64 {
        check(ctx, v, "u32", &emit(&(v as u32)), want);
        n += 1;
    }
    check(ctx, v, "u64", &emit(&v), want);
    check(ctx, v, "usize", &emit(&(v as usize)), want);
    n + 2
}

pub fn run(ctx: &'static Ctx) {
    // ---- all of u32 (includes all of u8 and u16), each through every carrier it fits
    let chunks = 1u64 << 12;
    let per = (1u64 << 32) / chunks;
    let quick = ctx.quick();
    let calls = AtomicU64::new(0);
    (0..chunks).into_par_iter().for_each(|c| {
        let mut n = 0;
        if quick {
            for v in c * per..(c + 1) * per {
                n += quick_carriers(ctx, v);
            }
        } else {
            for v in c * per..(c + 1) * per {
                n += all_carriers(ctx, v);
            }
        }
        calls.fetch_add(n, Ordering::Relaxed);
    });
    ctx.st(1 << 32);
    ctx.engine("E3.u32-domain", json!({"values": 1u64 << 32, "carriers": ["u8", "u16", "u32", "u64", "usize"], "complete": true,
        "wider_carriers": if quick { "u64/usize: all v < 2^24, every 251st, within 2 of each multiple of 2^16" } else { "u64/usize: all 2^32 values" }}));

    // ---- u64 / usize structured set
    let mut vals: Vec<u64> = vec![];
    for b in [1u64 << 8, 1 << 16, 1 << 32] {
        for d in 0..=2 {
            vals.push(b - d);
            vals.push(b + d);
        }
    }
    for d in 0..=2 {
        vals.push(u64::MAX - d);
    }
    for i in 0..64 {
        vals.push(1u64 << i);
        vals.push((1u64 << i).wrapping_sub(1));
        vals.push(!(1u64 << i));
    }
    for f in 0..=255u64 {
        vals.push(f * 0x0101_0101_0101_0101);
        for k in 0..8 {
            vals.push(f << (8 * k));
        }
    }
    vals.push(0x0102_0304_0506_0708);
    vals.push(0x8070_6050_4030_2010);
    for i in 0..64 {
        vals.push(splitmix(ctx.seed.wrapping_mul(1000).wrapping_add(i)));
    }
    // lane products: every combination of {00, 01, 80, ff} over the eight bytes (65 536 values), and every pair
    // (high dword, low dword) over a set holding the boundaries and an interior point of every encoding class
    for m in 0..(1u32 << 16) {
        let mut v = 0u64;
        for k in 0..8 {
            v |= ([0x00u64, 0x01, 0x80, 0xff][((m >> (2 * k)) & 3) as usize]) << (8 * k);
        }
        vals.push(v);
    }
    {
        let half: [u64; 22] = [0, 1, 2, 0x7f, 0x80, 0xfe, 0xff, 0x100, 0x101, 0x1000, 0x7fff, 0x8000, 0xfffe, 0xffff, 0x1_0000, 0x1_0001, 0x12_3456, 0x7fff_ffff, 0x8000_0000, 0xffff_0000, 0xffff_fffe, 0xffff_ffff];
        for hi in half {
            for lo in half {
                vals.push(hi << 32 | lo);
            }
        }
    }
    if !ctx.quick() {
        let mut edge: Vec<u64> = vec![];
        for b in [0u64, 1, 2, 0xff, 0x100, 0x101, 0xfffe, 0xffff, 0x7fff, 0x8000] {
            edge.push(b);
        }
        for x in &edge {
            for y in 0..=0xffffu64 {
                vals.push(x << 32 | y);
                vals.push(x << 48 | y << 16 | 0xabcd);
            }
        }
    }
    vals.sort();
    vals.dedup();
    let n64: u64 = vals.par_iter().map(|v| all_carriers(ctx, *v)).sum();
    // the same values handed to every sink the crate itself provides (a sink may override word/dword/qword): the bytes
    // that arrive must be the same narrowest encoding
    let nsink: u64 = vals
        .par_iter()
        .map(|v| {
            let mut wbuf = [0u8; 9];
            let wl = int_encode_arr(*v, &mut wbuf);
            let want = &wbuf[..wl];
            let mut n = 0;
            for (carrier, obj) in [("u64", v as &dyn Aml), ("usize", &(*v as usize) as &dyn Aml)] {
                let mut vecsink: Vec<u8> = Vec::new();
                obj.to_aml_bytes(&mut vecsink);
                let mut pb = acpi_tables::aml::PackageBuilder::new();
                obj.to_aml_bytes(&mut pb);
                let p = ser(&pb);
                let w = pkg_decode(&p[1..]).map(|x| x.1).unwrap_or(1);
                let mut pb2 = acpi_tables::aml::PackageBuilder::new();
                pb2.add_element(obj);
                let p2 = ser(&pb2);
                let w2 = pkg_decode(&p2[1..]).map(|x| x.1).unwrap_or(1);
                let mut sd = acpi_tables::sdt::Sdt::new(*b"INTS", 36, 1, *b"VERIF1", *b"VERIFTBL", 1);
                obj.to_aml_bytes(&mut sd);
                for (sink, got) in [("Vec", &vecsink[..]), ("PackageBuilder (as sink)", &p[(2 + w).min(p.len())..]), ("PackageBuilder::add_element", &p2[(2 + w2).min(p2.len())..]), ("Sdt", &sd.as_slice()[36..])] {
                    n += 1;
                    if got != want {
                        ctx.violation_sized(
                            &format!("int:sink:{}", sink),
                            *v,
                            || format!("{} as {} delivered to {} arrives as {} ; narrowest encoding is {}", v, carrier, sink, hex(got), hex(want)),
                            || json!({"family": "int", "value": v, "carrier": carrier, "sink": sink}),
                        );
                    }
                }
            }
            n
        })
        .sum();
    calls.fetch_add(nsink, Ordering::Relaxed);
    ctx.engine("E3.u64-structured-sinks", json!({"values": vals.len(), "sinks": ["Vec", "PackageBuilder as sink", "PackageBuilder::add_element", "Sdt"], "deliveries": nsink}));
    calls.fetch_add(n64, Ordering::Relaxed);
    ctx.st(vals.len() as u64);
    for v in &vals {
        ctx.distinct(*v);
    }
    ctx.engine("E3.u64-structured", json!({"values": vals.len(), "set": "width boundaries +-2, single bits and their complements, byte fills, every b<<8k, seed-derived, every combination of {00,01,80,ff} over the 8 bytes, every (high dword, low dword) pair over a 22-value set; thorough adds x<<32|y over 16-bit boundary set"}));

    // ---- embedded operands: buffer sizes and package elements
    let max = if ctx.quick() { 70_000usize } else { 70_000 };
    let emb = AtomicU64::new(0);
    (0..=max).into_par_iter().for_each(|n| {
        let b = ser(&BufferData::new(vec![0xa5; n]));
        // 0x11 PkgLength BufferSize bytes
        let ok = (|| {
            if b[0] != 0x11 {
                return None;
            }
            let (pl, w, _) = pkg_decode(&b[1..])?;
            if pl != b.len() - 1 {
                return None;
            }
            let (v, used) = int_decode(&b[1 + w..])?;
            let mut want = vec![];
            int_encode(n as u64, &mut want);
            if v != n as u64 || used != want.len() || b.len() != 1 + w + used + n {
                return None;
            }
            Some(())
        })();
        if ok.is_none() {
            ctx.violation_sized("int:embedded:buffer-size", n as u64, || format!("BufferData of {} bytes: size operand not the narrowest encoding of {}: {}", n, n, hex(&b[..12.min(b.len())])), || json!({"family":"int-embedded","buffer_len":n}));
        }
        emb.fetch_add(1, Ordering::Relaxed);
    });
    // ResourceTemplate: its buffer-size operand covers the children plus the 2-byte end tag; children of every total
    // size 0..=70000 (one opaque child of that many bytes, and the same total split over three children)
    struct Blob(usize);
    impl Aml for Blob {
        fn to_aml_bytes(&self, sink: &mut dyn acpi_tables::AmlSink) {
            for i in 0..self.0 {
                sink.byte(0x22 + (i % 5) as u8);
            }
        }
    }
    (0..=max).into_par_iter().for_each(|n| {
        for split in [false, true] {
            if split && (n < 3 || (n > 5000 && n % 257 != 0)) {
                continue;
            }
            let (a, b2, c) = if split { (Blob(n / 3), Blob(n / 3), Blob(n - 2 * (n / 3))) } else { (Blob(n), Blob(0), Blob(0)) };
            let kids: Vec<&dyn Aml> = if split { vec![&a, &b2, &c] } else { vec![&a] };
            let b = ser(&acpi_tables::aml::ResourceTemplate::new(kids));
            let ok = (|| {
                if b[0] != 0x11 {
                    return None;
                }
                let (pl, w, _) = pkg_decode(&b[1..])?;
                if pl != b.len() - 1 {
                    return None;
                }
                let (v, used) = int_decode(&b[1 + w..])?;
                let mut want = vec![];
                int_encode(n as u64 + 2, &mut want);
                if v != n as u64 + 2 || used != want.len() || b.len() != 1 + w + used + n + 2 {
                    return None;
                }
                Some(())
            })();
            if ok.is_none() {
                ctx.violation_sized("int:embedded:template-size", n as u64, || format!("ResourceTemplate with {} child bytes{}: size operand is not the narrowest encoding of {}: {}", n, if split { " (three children)" } else { "" }, n + 2, hex(&b[..12.min(b.len())])), || json!({"family":"int-embedded","template_child_bytes":n,"split":split}));
            }
            emb.fetch_add(1, Ordering::Relaxed);
        }
    });
    for v in vals.iter().take(4000) {
        let b = ser(&Package::new(vec![v as &dyn Aml]));
        let mut want = vec![0x12u8];
        let mut body = vec![1u8];
        int_encode(*v, &mut body);
        want.push(body.len() as u8 + 1);
        want.extend_from_slice(&body);
        if b != want {
            ctx.violation_sized("int:embedded:package-element", *v, || format!("Package(1 element {}) = {} want {}", v, hex(&b), hex(&want)), || json!({"family":"int-embedded","package_element":v}));
        }
        emb.fetch_add(1, Ordering::Relaxed);
    }
    // an integer at every byte offset inside every container (two things at once: what the parent has already collected and
    // the width of the integer that arrives): pads of k one-byte children (k 0..=250) or one k-byte child (k 0..=300, around
    // 4096 and 65536) in front, one child behind; the object must equal the one whose integer child is replaced by the
    // reference encoding handed over as plain bytes
    {
        use crate::amlobj::{takes_children, with_children, Bytes, SIZED_KINDS};
        use acpi_tables::aml::ONE;
        let kinds: Vec<usize> = (0..SIZED_KINDS.len()).filter(|k| takes_children(*k)).collect();
        let ks: Vec<(usize, bool)> = (0..=250usize).map(|k| (k, true)).chain((0..=300usize).chain(4085..=4100).chain(65_525..=65_540).map(|k| (k, false))).collect();
        let offs = AtomicU64::new(0);
        kinds.par_iter().for_each(|kind| {
            for (k, ones) in &ks {
                let pad_bytes = Bytes(vec![0x01; *k]);
                for (carrier, v) in [("u8", 0x55u64), ("u16", 0x1234), ("u32", 0x1234_5678), ("u64", 0x1122_3344_5566_7788), ("usize", 0x0102_0304), ("u64", 0x80), ("u32", 0x100)] {
                    let (a8, a16, a32, a64, au) = (v as u8, v as u16, v as u32, v, v as usize);
                    let int: &dyn Aml = match carrier {
                        "u8" => &a8,
                        "u16" => &a16,
                        "u32" => &a32,
                        "usize" => &au,
                        _ => &a64,
                    };
                    let mut enc = vec![];
                    int_encode(v, &mut enc);
                    let refc = Bytes(enc);
                    let build = |mid: &dyn Aml| -> Result<Vec<u8>, String> {
                        let mut kids: Vec<&dyn Aml> = if *ones { vec![&ONE as &dyn Aml; *k] } else { vec![&pad_bytes as &dyn Aml] };
                        kids.push(mid);
                        kids.push(&ONE);
                        crate::util::catch(|| with_children(*kind, kids))
                    };
                    offs.fetch_add(1, Ordering::Relaxed);
                    let (got, want) = (build(int), build(&refc));
                    // the two sides share the container's own buffering, so one independent fact as well: the reference
                    // encoding followed by the One that was added after it appears in the object
                    let mut tail = refc.0.clone();
                    tail.push(0x01);
                    let independent = matches!(&got, Ok(g) if g.windows(tail.len()).any(|w| w == &tail[..]));
                    if got != want || got.is_err() || !independent {
                        ctx.violation_sized(
                            "int:embedded:offset",
                            *k as u64,
                            || format!("{} holding {} then {:#x} as {} then One: differs from the same object with the integer's narrowest encoding handed over as bytes: {:?} | {:?}", SIZED_KINDS[*kind], if *ones { format!("{} x One", k) } else { format!("one child of {} bytes", k) }, v, carrier, got.as_ref().map(|b| hex(&b[b.len().saturating_sub(14)..])), want.as_ref().map(|b| hex(&b[b.len().saturating_sub(14)..]))),
                            || json!({"family":"int-embedded","container":SIZED_KINDS[*kind],"pad":k,"pad_is_ones":ones,"value":v,"carrier":carrier}),
                        );
                    }
                }
            }
        });
        emb.fetch_add(offs.load(Ordering::Relaxed), Ordering::Relaxed);
        ctx.engine("E3.embedded-offsets", json!({"objects": offs.load(Ordering::Relaxed), "containers": kinds.len(), "pads": ks.len(), "integers": 7}));
    }
    // every operand slot of every constructor that takes a single `&dyn Aml` (the pair principle: each integer class through
    // each receiving site, because a site may collect its operand in a private buffer of its own): the object must equal the
    // one whose integer operand is replaced by the reference encoding handed over as plain bytes
    {
        use crate::amlobj::Bytes;
        use acpi_tables::aml::*;
        type Site = (&'static str, Box<dyn Fn(&dyn Aml) -> Vec<u8> + Send + Sync>);
        let mut sites: Vec<Site> = vec![];
        static L: Local = Local(1);
        macro_rules! site {
            ($name:expr, |$x:ident| $e:expr) => {
                sites.push(($name, Box::new(|$x: &dyn Aml| ser(&$e))));
            };
        }
        site!("BufferTerm::new(x)", |x| BufferTerm::new(x));
        site!("VarPackageTerm::new(x)", |x| VarPackageTerm::new(x));
        site!("Name::new(_, x)", |x| Name::new("NAM0".into(), x));
        site!("OpRegion::new(.., x, _)", |x| OpRegion::new("REG0".into(), OpRegionSpace::SystemMemory, x, &ONE));
        site!("OpRegion::new(.., _, x)", |x| OpRegion::new("REG0".into(), OpRegionSpace::SystemMemory, &ONE, x));
        site!("If::new(x, ..)", |x| If::new(x, vec![&ONE]));
        site!("While::new(x, ..)", |x| While::new(x, vec![&ONE]));
        site!("Store::new(_, x)", |x| Store::new(&L, x));
        site!("Store::new(x, _)", |x| Store::new(x, &L));
        site!("Notify::new(_, x)", |x| Notify::new(&L, x));
        site!("Return::new(x)", |x| Return::new(x));
        site!("SizeOf::new(x)", |x| SizeOf::new(x));
        site!("ObjectType::new(x)", |x| ObjectType::new(x));
        site!("DeRefOf::new(x)", |x| DeRefOf::new(x));
        site!("Equal::new(x, _)", |x| Equal::new(x, &ONE));
        site!("Equal::new(_, x)", |x| Equal::new(&ONE, x));
        site!("NotEqual::new(_, x)", |x| NotEqual::new(&ONE, x));
        site!("LessThan::new(x, _)", |x| LessThan::new(x, &ONE));
        site!("GreaterEqual::new(_, x)", |x| GreaterEqual::new(&ONE, x));
        site!("Add::new(_, x, _)", |x| Add::new(&L, x, &ONE));
        site!("Add::new(_, _, x)", |x| Add::new(&L, &ONE, x));
        site!("And::new(_, x, _)", |x| And::new(&L, x, &ONE));
        site!("ShiftLeft::new(_, _, x)", |x| ShiftLeft::new(&L, &ONE, x));
        site!("Index::new(_, _, x)", |x| Index::new(&L, &L, x));
        site!("CreateDWordField::new(_, _, x)", |x| CreateDWordField::new(&L, &L, x));
        site!("ToInteger::new(_, x)", |x| ToInteger::new(&L, x));
        site!("ToBuffer::new(_, x)", |x| ToBuffer::new(&L, x));
        site!("CreateField::new(_, _, x, _)", |x| CreateField::new(&L, &L, x, &ONE));
        site!("CreateField::new(_, _, _, x)", |x| CreateField::new(&L, &L, &ONE, x));
        site!("Mid::new(_, x, _, _)", |x| Mid::new(&L, x, &ONE, &L));
        site!("Mid::new(_, _, x, _)", |x| Mid::new(&L, &ONE, x, &L));
        site!("MethodCall::new(_, [x])", |x| MethodCall::new("MTH0".into(), vec![x]));
        site!("MethodCall::new(_, [_, x])", |x| MethodCall::new("MTH0".into(), vec![&ONE, x]));
        let mut ops: Vec<u64> = vec![];
        for b in [0u64, 1, 2, 0x55, 0x80, 0xff, 0x100, 0x1234, 0xffff, 0x1_0000, 0x1234_5678, 0xffff_ffff, 0x1_0000_0000, 0x1122_3344_5566_7788, 1 << 63, u64::MAX] {
            for d in [0u64, 1, u64::MAX] {
                ops.push(b.wrapping_add(d));
            }
        }
        for sh in 0..64 {
            ops.push(1u64 << sh);
        }
        ops.sort_unstable();
        ops.dedup();
        let n_ops = AtomicU64::new(0);
        sites.par_iter().for_each(|(name, f)| {
            for v in &ops {
                let v = *v;
                for carrier in ["u8", "u16", "u32", "u64", "usize"] {
                    let fits = match carrier {
                        "u8" => v <= 0xff,
                        "u16" => v <= 0xffff,
                        "u32" => v <= 0xffff_ffff,
                        _ => true,
                    };
                    if !fits {
                        continue;
                    }
                    let (a8, a16, a32, a64, au) = (v as u8, v as u16, v as u32, v, v as usize);
                    let int: &dyn Aml = match carrier {
                        "u8" => &a8,
                        "u16" => &a16,
                        "u32" => &a32,
                        "usize" => &au,
                        _ => &a64,
                    };
                    let mut enc = vec![];
                    int_encode(v, &mut enc);
                    let refc = Bytes(enc);
                    n_ops.fetch_add(1, Ordering::Relaxed);
                    let (got, want) = (crate::util::catch(|| f(int)), crate::util::catch(|| f(&refc)));
                    // differential oracles share the site's own buffering, so two independent facts as well: the object
                    // is exactly as much longer than the one with an empty operand as the reference encoding is long
                    // (all bodies here stay below 63 bytes, so the PkgLength, where there is one, keeps one byte), and
                    // the reference encoding appears in it
                    let empty = crate::util::catch(|| f(&Bytes(vec![])));
                    let independent = match (&got, &empty) {
                        (Ok(g), Ok(e)) => g.len() == e.len() + refc.0.len() && g.windows(refc.0.len()).any(|w| w == &refc.0[..]),
                        _ => false,
                    };
                    if got != want || got.is_err() || !independent {
                        ctx.violation_sized(
                            &format!("int:operand:{}", name),
                            v,
                            || format!("{} with x = {:#x} as {}: differs from the same object with the integer's narrowest encoding handed over as bytes, or is not exactly that encoding longer than the object with an empty operand: {:?} | {:?}", name, v, carrier, got.as_ref().map(|b| hex(&b[..b.len().min(24)])), want.as_ref().map(|b| hex(&b[..b.len().min(24)]))),
                            || json!({"family":"int-operand","site":name,"value":v,"carrier":carrier}),
                        );
                    }
                }
            }
        });
        emb.fetch_add(n_ops.load(Ordering::Relaxed), Ordering::Relaxed);
        ctx.engine("E3.operand-sites", json!({"objects": n_ops.load(Ordering::Relaxed), "sites": sites.len(), "values": ops.len(), "carriers": 5}));
    }
    calls.fetch_add(emb.load(Ordering::Relaxed), Ordering::Relaxed);
    ctx.engine("E3.embedded", json!({"buffer_sizes": max + 1, "package_elements": vals.len().min(4000)}));
    ctx.tr(calls.load(Ordering::Relaxed));
    // distinct non-trivial by rule: every value at or next to an encoding-class boundary
    for b in [0u64, 1, 2, 0xff, 0x100, 0xffff, 0x1_0000, 0xffff_ffff, 0x1_0000_0000] {
        for d in 0..3 {
            ctx.distinct(b.wrapping_add(d) | 1 << 63);
        }
    }
    ctx.force_sample(json!({"value": 255, "expected": "0a ff", "carriers": ["u8","u16","u32","u64","usize"]}));
    ctx.force_sample(json!({"value": 256, "expected": "0b 00 01"}));
    ctx.force_sample(json!({"value": 4294967296u64, "expected": "0e 00 00 00 00 01 00 00 00"}));
}

pub const RULE: &str = "all 2^32 values of u32 (hence all u8/u16) through each carrier they fit; structured u64/usize set; buffer sizes 0..=70000; package elements. distinct = structured-set values + class-boundary neighbours";
pub const ASSUME: &[&str] = &["u64/usize beyond 2^32 are enumerated over a structured set, not exhaustively", "64-bit host (usize carrier is cfg-selected)"];
