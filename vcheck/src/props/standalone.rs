//! Structures that are emitted on their own rather than through a table builder: the
//! PCI-configuration-space constructor of the Generic Address Structure, the generic table's
//! typed `GenericAddress` constructors, and the HEST error-status block with its data entries.
//! Each instance is compared byte-for-byte with a layout written from ACPI 6.5 (5.2.3.2,
//! 18.3.2.7.1, 18.3.2.7.2); used by C04 (placement) and C14 (sink independence).
use crate::ev::Ctx;
use crate::util::{catch, first_diff, fnv, hex, ser, splitmix, W};
use acpi_tables::gas::{AccessSize, GAS};
use acpi_tables::hest::{ErrorSeverity, GenericErrorData, GenericErrorStatus};
use acpi_tables::sdt::{GenericAddress, Sdt};
use acpi_tables::Aml;
use serde::{Deserialize, Serialize};
use serde_json::json;
use zerocopy::IntoBytes;

#[derive(Serialize, Deserialize, Debug, Clone, PartialEq)]
pub enum S {
    /// GAS::new_pci_config(width, access, device, function, register)
    GasPci { w: u8, ac: u8, dev: u8, func: u8, reg: u16 },
    /// GenericAddress::io_port_address::<T>(addr), T = u8/u16/u32/u64 for t = 0..3
    GaIo { t: u8, addr: u16 },
    /// GenericAddress::mmio_address::<T>(addr)
    GaMmio { t: u8, addr: u64 },
    /// GenericErrorStatus::new(correctable, uncorrectable, severity)
    Ges { c: u32, u: u32, sev: u8 },
    /// GenericErrorData::new(severity) with its public fields assigned and `data` payloads added
    Ged { sev: u8, section: u64, rev: u16, val: u8, flags: u8, len: u32, pat: u8, data: Vec<u16> },
}

fn access(ac: u8) -> AccessSize {
    match ac % 5 {
        0 => AccessSize::Undefined,
        1 => AccessSize::ByteAccess,
        2 => AccessSize::WordAccess,
        3 => AccessSize::DwordAccess,
        _ => AccessSize::QwordAccess,
    }
}
fn severity(s: u8) -> ErrorSeverity {
    match s % 4 {
        0 => ErrorSeverity::Recoverable,
        1 => ErrorSeverity::Fatal,
        2 => ErrorSeverity::Correctable,
        _ => ErrorSeverity::None,
    }
}
fn pattern(pat: u8, salt: u8, n: usize) -> Vec<u8> {
    (0..n).map(|i| match pat { 0 => 0, 1 => 0xff, _ => (i as u8).wrapping_mul(pat).wrapping_add(salt) | 1 }).collect()
}
/// payload of `n` bytes handed to add_data
struct Blob(Vec<u8>);
impl Aml for Blob {
    fn to_aml_bytes(&self, sink: &mut dyn acpi_tables::AmlSink) {
        sink.vec(&self.0);
    }
}

pub enum Built {
    Aml(Box<dyn Aml>),
    Ga(GenericAddress),
}

impl S {
    pub fn kind(&self) -> &'static str {
        match self {
            S::GasPci { .. } => "gas-pci-config",
            S::GaIo { .. } => "generic-address-io",
            S::GaMmio { .. } => "generic-address-mmio",
            S::Ges { .. } => "generic-error-status",
            S::Ged { .. } => "generic-error-data",
        }
    }
    pub fn build(&self) -> Built {
        match self {
            S::GasPci { w, ac, dev, func, reg } => Built::Aml(Box::new(GAS::new_pci_config(*w, access(*ac), *dev, *func, *reg))),
            S::GaIo { t, addr } => Built::Ga(match t % 4 {
                0 => GenericAddress::io_port_address::<u8>(*addr),
                1 => GenericAddress::io_port_address::<u16>(*addr),
                2 => GenericAddress::io_port_address::<u32>(*addr),
                _ => GenericAddress::io_port_address::<u64>(*addr),
            }),
            S::GaMmio { t, addr } => Built::Ga(match t % 4 {
                0 => GenericAddress::mmio_address::<u8>(*addr),
                1 => GenericAddress::mmio_address::<u16>(*addr),
                2 => GenericAddress::mmio_address::<u32>(*addr),
                _ => GenericAddress::mmio_address::<u64>(*addr),
            }),
            S::Ges { c, u, sev } => Built::Aml(Box::new(GenericErrorStatus::new(*c, *u, severity(*sev)))),
            S::Ged { sev, section, rev, val, flags, len, pat, data } => {
                let mut d = GenericErrorData::new(severity(*sev));
                d.section_type = section_real(*section);
                d.revision = *rev;
                d.validation = *val;
                d.flags = *flags;
                d.error_data_length = *len;
                d.fru_id.copy_from_slice(&pattern(*pat, 0x10, 16));
                d.fru_text.copy_from_slice(&pattern(*pat, 0x40, 20));
                d.timestamp.copy_from_slice(&pattern(*pat, 0x80, 8));
                for (i, n) in data.iter().enumerate() {
                    d.add_data(Box::new(Blob(pattern(3 + i as u8, 0xc0, *n as usize))));
                }
                Built::Aml(Box::new(d))
            }
        }
    }
    pub fn real(&self) -> Vec<u8> {
        match self.build() {
            Built::Aml(a) => ser(a.as_ref()),
            Built::Ga(g) => g.as_bytes().to_vec(),
        }
    }
    /// ACPI 6.5 layout of the same values
    pub fn reference(&self) -> Vec<u8> {
        let mut w = W::new();
        match self {
            // 5.2.3.2: PCI Configuration space: word 0 register offset, word 1 function, word 2 device, word 3 reserved
            S::GasPci { w: wd, ac, dev, func, reg } => {
                w.u8(2).u8(*wd).u8(0).u8(ac % 5).u16(*reg).u16(*func as u16).u16(*dev as u16).u16(0);
            }
            S::GaIo { t, addr } => {
                w.u8(1).u8(8 << (t % 4)).u8(0).u8(t % 4 + 1).u64(*addr as u64);
            }
            S::GaMmio { t, addr } => {
                w.u8(0).u8(8 << (t % 4)).u8(0).u8(t % 4 + 1).u64(*addr);
            }
            // 18.3.2.7.1 (Table 18.11): block status, raw data offset, raw data length, data length, severity
            S::Ges { c, u, sev } => {
                w.u32(ges_status(*c, *u)).u32(0).u32(0).u32(0).u32((*sev % 4) as u32);
            }
            // 18.3.2.7.1 (Table 18.12): section type 16, severity 4, revision 2, validation bits 1, flags 1,
            // error data length 4, FRU id 16, FRU text 20, timestamp 8, data
            S::Ged { sev, section, rev, val, flags, len, pat, data } => {
                w.b(&section_ref(*section)).u32((*sev % 4) as u32).u16(*rev).u8(*val).u8(*flags).u32(*len);
                w.b(&pattern(*pat, 0x10, 16)).b(&pattern(*pat, 0x40, 20)).b(&pattern(*pat, 0x80, 8));
                for (i, n) in data.iter().enumerate() {
                    w.b(&pattern(3 + i as u8, 0xc0, *n as usize));
                }
            }
        }
        w.0
    }
}

/// Block Status: bit 0 uncorrectable error valid, bit 1 correctable error valid, bit 2 multiple
/// uncorrectable, bit 3 multiple correctable; bits 4..13 entry count (no entries can be added), rest reserved.
/// For a count above one the crate reports the "multiple" bit alone; whether the "valid" bit must accompany it
/// is not settled by the text, so that bit is not judged (see `ges_mask`).
fn ges_status(c: u32, u: u32) -> u32 {
    (match u { 0 => 0, 1 => 1, _ => 1 << 2 }) | (match c { 0 => 0, 1 => 1 << 1, _ => 1 << 3 })
}
pub fn ges_mask(c: u32, u: u32) -> u32 {
    !((if u > 1 { 1 } else { 0 }) | (if c > 1 { 1 << 1 } else { 0 }))
}

// section type: a 16-byte GUID
pub type Section = [u8; 16];
fn section_ref(s: u64) -> Section {
    let mut g = [0u8; 16];
    g[..8].copy_from_slice(&s.to_le_bytes());
    g[8..].copy_from_slice(&splitmix(s).to_le_bytes());
    if s == 0 {
        g = [0; 16];
    }
    if s == u64::MAX {
        g = [0xff; 16];
    }
    g
}
/// the crate's field receives the GUID in whatever type it declares (so that the harness builds against either)
pub trait FromSection {
    fn from_section(g: Section) -> Self;
}
impl FromSection for Section {
    fn from_section(g: Section) -> Self {
        g
    }
}
impl FromSection for u16 {
    fn from_section(g: Section) -> Self {
        u16::from_le_bytes([g[0], g[1]])
    }
}
fn section_real<T: FromSection>(s: u64) -> T {
    T::from_section(section_ref(s))
}

pub fn instances(seed: u64, quick: bool) -> Vec<S> {
    let mut v = vec![];
    let b8: Vec<u8> = vec![0, 1, 0x1f, 0x20, 0x7f, 0x80, 0xfe, 0xff, 0x12, 0xa5];
    let b16: Vec<u16> = vec![0, 1, 0xff, 0x100, 0xfff, 0x1000, 0x7fff, 0x8000, 0xffff, 0x1234, (splitmix(seed) & 0xffff) as u16];
    // PCI config GAS: every (device, function) pair over the byte alphabet x register alphabet x access size; width sweep
    for dev in &b8 {
        for func in &b8 {
            for reg in &b16 {
                for ac in 0..5u8 {
                    if quick && (ac as usize + *reg as usize + *dev as usize) % 3 != 0 {
                        continue;
                    }
                    v.push(S::GasPci { w: 0x20, ac, dev: *dev, func: *func, reg: *reg });
                }
            }
        }
    }
    for w in 0..=255u8 {
        v.push(S::GasPci { w, ac: 3, dev: 0x1f, func: 7, reg: 0x0ffc });
    }
    for bit in 0..8 {
        v.push(S::GasPci { w: 8, ac: 1, dev: 1 << bit, func: 0, reg: 0 });
        v.push(S::GasPci { w: 8, ac: 1, dev: 0, func: 1 << bit, reg: 0 });
    }
    for bit in 0..16 {
        v.push(S::GasPci { w: 8, ac: 1, dev: 0, func: 0, reg: 1 << bit });
    }
    for t in 0..4u8 {
        for a in (0..16).map(|b| 1u16 << b).chain(b16.iter().copied()) {
            v.push(S::GaIo { t, addr: a });
        }
        for a in (0..64).map(|b| 1u64 << b).chain([0, u64::MAX, 0x0807_0605_0403_0201, 0xf1e2_d3c4_b5a6_9788, splitmix(seed ^ 9)]) {
            v.push(S::GaMmio { t, addr: a });
        }
    }
    let counts = [0u32, 1, 2, 3, 0xff, 0x100, 0xffff, 0x1_0000, 0x7fff_ffff, 0x8000_0000, u32::MAX];
    for c in counts {
        for u in counts {
            for sev in 0..4 {
                v.push(S::Ges { c, u, sev });
            }
        }
    }
    let base = S::Ged { sev: 1, section: 0x0807_0605_0403_0201, rev: 0x300, val: 0x0b, flags: 0x2d, len: 0x1122_3344, pat: 7, data: vec![] };
    let ged = |f: &dyn Fn(&mut S)| {
        let mut s = base.clone();
        f(&mut s);
        s
    };
    v.push(base.clone());
    for sev in 0..4 {
        v.push(ged(&|s| if let S::Ged { sev: x, .. } = s { *x = sev }));
    }
    for sec in (0..64).map(|b| 1u64 << b).chain([0, u64::MAX, 1, 0xf1e2_d3c4_b5a6_9788]) {
        v.push(ged(&|s| if let S::Ged { section, .. } = s { *section = sec }));
    }
    for r in (0..16).map(|b| 1u16 << b).chain([0, 0xffff, 0x300, 0x201]) {
        v.push(ged(&|s| if let S::Ged { rev, .. } = s { *rev = r }));
    }
    for b in 0..=255u8 {
        v.push(ged(&|s| if let S::Ged { val, .. } = s { *val = b }));
        v.push(ged(&|s| if let S::Ged { flags, .. } = s { *flags = b }));
        v.push(ged(&|s| if let S::Ged { val, flags, .. } = s { *val = b; *flags = !b }));
    }
    for l in (0..32).map(|b| 1u32 << b).chain([0, u32::MAX, 0x0403_0201]) {
        v.push(ged(&|s| if let S::Ged { len, .. } = s { *len = l }));
    }
    for p in [0u8, 1, 2, 5, 7, 11] {
        v.push(ged(&|s| if let S::Ged { pat, .. } = s { *pat = p }));
    }
    // payloads: 0..3 blobs of several sizes (order matters: each blob has its own byte pattern)
    let sizes = [0u16, 1, 2, 7, 72, 255, 256, 4096];
    for a in sizes {
        v.push(ged(&|s| if let S::Ged { data, .. } = s { *data = vec![a] }));
        for b in sizes {
            v.push(ged(&|s| if let S::Ged { data, .. } = s { *data = vec![a, b] }));
            if !quick {
                for c in [0u16, 1, 72] {
                    v.push(ged(&|s| if let S::Ged { data, .. } = s { *data = vec![a, b, c] }));
                }
            }
        }
    }
    v
}

fn masked_eq(s: &S, got: &[u8], want: &[u8]) -> bool {
    if let S::Ges { c, u, .. } = s {
        if got.len() != want.len() || got.len() < 4 {
            return false;
        }
        let m = ges_mask(*c, *u);
        let (g, w) = (crate::util::rd32(got, 0), crate::util::rd32(want, 0));
        return g & m == w & m && got[4..] == want[4..];
    }
    got == want
}

/// C04 family: every instance against the specification layout
pub fn placement(ctx: &'static Ctx) {
    let inst = instances(ctx.seed, ctx.quick());
    let mut per = std::collections::BTreeMap::new();
    for s in &inst {
        ctx.tr(1);
        *per.entry(s.kind()).or_insert(0u64) += 1;
        let want = s.reference();
        match catch(|| s.real()) {
            Err(m) => {
                ctx.violation_sized(&format!("standalone:{}:panic", s.kind()), want.len() as u64, || format!("{:?} panicked: {}", s, m), || json!({"family":"standalone","s":s}));
            }
            Ok(got) => {
                ctx.distinct(fnv(&got));
                if !masked_eq(s, &got, &want) {
                    let d = first_diff(&got, &want).unwrap_or(0);
                    ctx.violation_sized(
                        &format!("standalone:{}", s.kind()),
                        want.len() as u64,
                        || format!("{:?}: bytes differ from the specification layout at offset {} ({} vs {} bytes): got ..{} want ..{}", s, d, got.len(), want.len(), hex(&got[d.min(got.len())..(d + 12).min(got.len())]), hex(&want[d.min(want.len())..(d + 12).min(want.len())])),
                        || json!({"family":"standalone","s":s}),
                    );
                }
                // GenericAddress values reach a table through Sdt::append: the appended bytes must be the same 12 bytes
                if let Built::Ga(g) = s.build() {
                    let mut t = Sdt::new(*b"GADR", 36, 1, *b"VERIF1", *b"VERIFTBL", 1);
                    t.append(g);
                    if t.as_slice()[36..] != want[..] {
                        ctx.violation_sized(&format!("standalone:{}:append", s.kind()), 12, || format!("{:?} appended to a generic table reads {}", s, hex(&t.as_slice()[36..])), || json!({"family":"standalone","s":s}));
                    }
                }
            }
        }
    }
    ctx.st(inst.len() as u64);
    ctx.engine("E4.standalone-structures", json!({"instances": inst.len(), "per_kind": per, "what": "GAS::new_pci_config, GenericAddress::{io_port,mmio}_address<u8|u16|u32|u64>, GenericErrorStatus, GenericErrorData (+add_data payloads) against the ACPI 6.5 layouts"}));
    if let Some(s) = inst.get(inst.len() / 2) {
        ctx.force_sample(json!({"family":"standalone","s":s}));
    }
}

/// C14 family: the Aml-implementing instances through the sink matrix
pub fn sinks(ctx: &'static Ctx) -> u64 {
    let mut n = 0;
    for s in instances(ctx.seed, true) {
        if let Built::Aml(a) = s.build() {
            crate::props::c14::sink_matrix(ctx, s.kind(), a.as_ref(), &|| json!({"family":"standalone","s":s}));
            n += 1;
        }
    }
    n
}

pub fn replay(s: &S) {
    let got = catch(|| s.real());
    let got2 = catch(|| s.real());
    if got != got2 {
        println!("MACHINERY: two replays of the same input disagree");
    }
    match got {
        Ok(b) => println!("{:?}\n emits   {}\n ACPI 6.5 {}", s, hex(&b), hex(&s.reference())),
        Err(m) => println!("{:?} panicked: {}", s, m),
    }
}
