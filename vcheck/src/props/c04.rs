//! C04 — caller values land at their specification offsets. Two layers:
//! table layer = the C01 exploration with the byte-equality oracle (props/tseq.rs);
//! entry layer = for every structure/shape, the base argument tuple with every single-field
//! deviation over the field's whole value alphabet and every pair of fields over {0, all-ones}.
use crate::ev::Ctx;
use crate::fill::{Ctor, Fill, Op};
use crate::props::tseq;
use crate::tables::{self, Table, FT};
use crate::util::{catch, first_diff, fnv, hex, ser, splitmix};
use rayon::prelude::*;
use serde_json::json;
use std::sync::atomic::{AtomicU64, Ordering};

fn alphabet(ft: FT, seed: u64) -> Vec<u64> {
    match ft {
        FT::B => vec![0, 1],
        FT::E(n) => (0..n as u64).collect(),
        FT::A(_) => vec![0, u64::MAX, 0x0807_0605_0403_0201, 0xf1e2_d3c4_b5a6_9788],
        // a byte-wide argument takes every value (version numbers, type codes and flag bytes are compared with
        // particular constants by plausible code); a 16-bit one every value up to 512 plus the set below
        FT::U(bits) if bits <= 8 => (0..(1u64 << bits)).collect(),
        FT::U(bits) => {
            let mask = if bits >= 64 { u64::MAX } else { (1u64 << bits) - 1 };
            let mut v = vec![0, 1, mask, mask - 1, 0x0807_0605_0403_0201 & mask, 0xf1e2_d3c4_b5a6_9788 & mask];
            for i in 0..bits {
                v.push(1u64 << i);
            }
            v.push(splitmix(seed ^ 0x5151) & mask);
            v.push(splitmix(seed ^ 0xa7a7) & mask);
            if bits == 16 {
                v.extend(0..=512u64);
            }
            v.sort();
            v.dedup();
            v
        }
    }
}

fn extremes(ft: FT) -> Vec<u64> {
    match ft {
        FT::B => vec![0, 1],
        FT::E(n) => vec![0, n as u64 - 1],
        FT::A(_) => vec![0, u64::MAX],
        FT::U(bits) => vec![0, if bits >= 64 { u64::MAX } else { (1u64 << bits) - 1 }],
    }
}

fn check(ctx: &Ctx, t: &dyn Table, c: &Ctor, ops: &[Op], what: &str) {
    ctx.tr(1);
    let mut img = vec![];
    let r = catch(|| t.run(c, ops, &mut |_k, live, _h| img = ser(live)));
    let kind = ops.last().map(|o| t.kinds()[o.k as usize]).unwrap_or("new");
    if let Err(m) = r {
        ctx.violation_sized(&format!("{}:entry:{}:panic", t.name(), kind), ops.len() as u64, || format!("{} {} [{}] panicked: {}", t.name(), kind, what, m), || crate::seq::replay_json(t, c, ops));
        return;
    }
    ctx.distinct(fnv(&img));
    let want = t.reference(c, ops).image;
    if !tables::eq_judged(t, ops, &img, &want) {
        let key = t
            .quirks()
            .iter()
            .find(|q| t.reference_q(c, ops, q).map(|r| r.image == img).unwrap_or(false))
            .map(|q| format!("{}:{}", t.name(), q))
            .unwrap_or_else(|| format!("{}:entry:{}", t.name(), kind));
        ctx.violation_sized(
            &key,
            ops.len() as u64,
            || {
                let d = if img.len() > 36 && want.len() > 36 { first_diff(&img[36..], &want[36..]).map(|x| x + 36) } else { None }.or_else(|| first_diff(&img, &want)).unwrap_or(0);
                format!("{} {} [{}]: image differs from the reference encoding at offset {} ({} vs {} bytes): got ..{} want ..{}", t.name(), kind, what, d, img.len(), want.len(), hex(&img[d.min(img.len())..(d + 12).min(img.len())]), hex(&want[d.min(want.len())..(d + 12).min(want.len())]))
            },
            || crate::seq::replay_json(t, c, ops),
        );
    }
}

pub fn entry_layer(ctx: &'static Ctx) {
    let seed = ctx.seed;
    let quick = ctx.quick();
    let mut rep = vec![];
    for t in tables::all() {
        let t: &dyn Table = t.as_ref();
        let c0 = t.ctors(0)[0];
        let n = AtomicU64::new(0);
        // constructor fields
        let cf = t.ctor_fields();
        let mut ctors: Vec<(Ctor, String)> = vec![];
        for c in t.ctors(2) {
            ctors.push((c, "constructor variant".into()));
        }
        for (i, ft) in cf.iter().enumerate() {
            for v in alphabet(*ft, seed) {
                ctors.push((Ctor { fill: c0.fill.with(i as u8, v), ..c0 }, format!("constructor field {} = {:#x}", i, v)));
            }
        }
        for (c, what) in &ctors {
            check(ctx, t, c, &[], what);
            n.fetch_add(1, Ordering::Relaxed);
        }
        // every kind x shape
        let mut progs: Vec<(Vec<Op>, String)> = vec![];
        for k in 0..t.kinds().len() as u8 {
            for shape in t.shapes(k) {
                let pre = t.prelude(k, shape);
                let fields = t.fields(k, shape);
                let mk = |fill: Fill| -> Vec<Op> {
                    let mut v = pre.clone();
                    v.push(Op { k, shape, fill });
                    v
                };
                for base in [2u8, 3, 0, 1, crate::fill::EQUAL, crate::fill::LOWER, crate::fill::BLANK] {
                    progs.push((mk(Fill::b(base)), format!("base fill {}", base)));
                }
                for (i, ft) in fields.iter().enumerate() {
                    for v in alphabet(*ft, seed) {
                        progs.push((mk(Fill::b(2).with(i as u8, v)), format!("field {} = {:#x}", i, v)));
                    }
                }
                // pairs of fields over the extremes (deviation bound 2)
                let pair_cap = if quick { 10 } else { usize::MAX };
                for i in 0..fields.len() {
                    for j in (i + 1)..fields.len().min((i + 1).saturating_add(pair_cap)) {
                        for x in extremes(fields[i]) {
                            for y in extremes(fields[j]) {
                                progs.push((mk(Fill::b(2).with(i as u8, x).with(j as u8, y)), format!("fields {} = {:#x}, {} = {:#x}", i, x, j, y)));
                            }
                        }
                    }
                }
            }
        }
        progs.par_iter().for_each(|(ops, what)| {
            // an op may not be enabled (e.g. the table documents a refusal); the prelude supplies handles
            check(ctx, t, &c0, ops, what);
            n.fetch_add(1, Ordering::Relaxed);
        });
        ctx.st(n.load(Ordering::Relaxed));
        rep.push(json!({"table": t.name(), "programs": n.load(Ordering::Relaxed)}));
        if let Some((ops, _)) = progs.get(progs.len() / 2) {
            ctx.force_sample(crate::seq::replay_json(t, &c0, ops));
        }
    }
    ctx.engine("E4.entry-layer", json!({"tables": rep, "alphabet": "0, 1, max, max-1, two distinct-byte patterns, every single bit, 2 seed values; enums over all variants", "pairs": "every pair of fields over {min, max} (quick: each field with its next 10)"}));
}

pub fn run(ctx: &'static Ctx) {
    entry_layer(ctx);
    crate::props::standalone::placement(ctx);
    tseq::run(ctx, tseq::P::C04);
}

pub const RULE: &str = "entry layer: per structure and shape (and the stand-alone structures: PCI-config GAS, typed GenericAddress, HEST error status block and data entry), base tuples + every single-field deviation over the field alphabet + field pairs over the extremes, each compared byte-for-byte with the reference encoder; table layer: every prefix of every explored operation sequence compared with the reference image. distinct = distinct images";
pub const ASSUME: &[&str] = &[
    "walking-ones + zero + all-ones + distinct-byte patterns per field, not all 2^64 values",
    "specification facts as recorded in DESIGN.md 9.1; table revision bytes, FACS version, TCPA spec-revision bytes, RIMT and RQSC field order are pinned to the baseline",
];
