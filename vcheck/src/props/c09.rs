//! C09 — name paths: NameString form and back; malformed segments refused.
use crate::codecs::{name_decode, name_encode, pkg_decode};
use crate::ev::Ctx;
use crate::util::{catch, fnv, hex, ser};
use acpi_tables::aml::*;
use acpi_tables::Aml;
use rayon::prelude::*;
use serde_json::json;
use std::sync::atomic::{AtomicU64, Ordering};

const LEAD: &[u8] = b"ABCDEFGHIJKLMNOPQRSTUVWXYZ_";
const REST: &[u8] = b"ABCDEFGHIJKLMNOPQRSTUVWXYZ0123456789_";

fn seg(i: usize) -> [u8; 4] {
    [LEAD[i % 27], REST[(i / 27) % 37], REST[(i * 7 + 3) % 37], REST[(i * 11 + 5) % 37]]
}
fn path_string(rooted: bool, segs: &[[u8; 4]]) -> String {
    let mut s = String::new();
    if rooted {
        s.push('\\');
    }
    for (i, g) in segs.iter().enumerate() {
        if i > 0 {
            s.push('.');
        }
        s.push_str(std::str::from_utf8(g).unwrap());
    }
    s
}

fn check_path(ctx: &Ctx, rooted: bool, segs: &[[u8; 4]], why: &str) {
    let s = path_string(rooted, segs);
    // the same Path value serialised twice: both streams must be the NameString form
    let r = catch(|| {
        let p = Path::new(&s);
        let (a, b) = (ser(&p), ser(&p));
        if a != b {
            panic!("second serialisation of the same Path differs: {} then {}", hex(&a), hex(&b));
        }
        a
    });
    let mut want = vec![];
    name_encode(rooted, segs, &mut want);
    let cls = match segs.len() {
        1 => "1seg",
        2 => "2seg",
        _ => "multi",
    };
    match r {
        Err(m) => {
            ctx.violation_sized(&format!("name:refused:{}", cls), segs.len() as u64, || format!("well-formed path {:?} refused: {}", &s[..s.len().min(40)], m), || json!({"family":"name","path":s}));
        }
        Ok(b) => {
            let dec = name_decode(&b);
            let ok = b == want && matches!(&dec, Some((n, used)) if *used == b.len() && n.rooted == rooted && n.parents == 0 && n.segs == segs);
            if !ok {
                ctx.violation_sized(
                    &format!("name:encode:{}:{}", cls, if rooted { "rooted" } else { "relative" }),
                    segs.len() as u64,
                    || format!("path {:?} ({}) emits {} ; NameString form is {}", &s[..s.len().min(40)], why, hex(&b[..b.len().min(24)]), hex(&want[..want.len().min(24)])),
                    || json!({"family":"name","path":s}),
                );
            }
            ctx.distinct(fnv(&b));
        }
    }
    ctx.tr(1);
}

fn check_malformed(ctx: &Ctx, s: &str) {
    let r = catch(|| ser(&Path::new(s)));
    ctx.tr(1);
    if let Ok(b) = r {
        ctx.violation_sized("name:malformed-accepted", s.len() as u64, || format!("malformed path {:?} accepted and emitted as {}", s, hex(&b)), || json!({"family":"name-malformed","path":s}));
    }
}

pub fn run(ctx: &'static Ctx) {
    // ---- every segment count 1..=255, rooted or not
    let n = AtomicU64::new(0);
    (1..=255usize).into_par_iter().for_each(|c| {
        let segs: Vec<[u8; 4]> = (0..c).map(|i| seg(i + c)).collect();
        for rooted in [false, true] {
            check_path(ctx, rooted, &segs, "segment count sweep");
            n.fetch_add(1, Ordering::Relaxed);
        }
    });
    ctx.engine("E3.segment-counts", json!({"counts": "1..=255", "rooted": [false, true], "shapes": 510}));

    // ---- each character position over its full legal set, in the first, middle and last segment of 1,2,3,255-segment paths
    let mut m = 0u64;
    for c in [1usize, 2, 3, 255] {
        let base: Vec<[u8; 4]> = (0..c).map(seg).collect();
        let mut where_: Vec<usize> = vec![0, c / 2, c - 1];
        where_.dedup();
        for w in where_ {
            for pos in 0..4 {
                let set = if pos == 0 { LEAD } else { REST };
                for ch in set {
                    let mut segs = base.clone();
                    segs[w][pos] = *ch;
                    for rooted in [false, true] {
                        check_path(ctx, rooted, &segs, "character position sweep");
                        m += 1;
                    }
                }
            }
        }
    }
    ctx.engine("E3.character-positions", json!({"paths": m, "lead_set": 27, "rest_set": 37}));

    // ---- malformed: a segment of length 0..3 or 5..8 at every position of 1..4-segment paths, and dot/root anomalies
    let mut bad = 0u64;
    for c in 1..=4usize {
        for w in 0..c {
            for len in [0usize, 1, 2, 3, 5, 6, 7, 8] {
                for rooted in [false, true] {
                    let mut s = String::new();
                    if rooted {
                        s.push('\\');
                    }
                    for i in 0..c {
                        if i > 0 {
                            s.push('.');
                        }
                        if i == w {
                            s.push_str(&"ABCDEFGH"[..len]);
                        } else {
                            s.push_str(std::str::from_utf8(&seg(i)).unwrap());
                        }
                    }
                    check_malformed(ctx, &s);
                    bad += 1;
                }
            }
        }
    }
    for s in ["", "\\", ".", "..", "ABCD.", ".ABCD", "ABCD..EFGH", "\\.ABCD", "\\ABCD.", "ABCD.EFGH.", "\\\\ABCD", "ABCD\\", "ABC", "ABCDE", "ABCD.EFG", "ABCD.EFGHI"] {
        if s == "\\\\ABCD" || s == "ABCD\\" {
            // five bytes in a segment: must be refused as well
        }
        check_malformed(ctx, s);
        bad += 1;
    }
    // a well-formed path with something a clean-up helper would strip at either end: the edge segment then has more
    // than four characters, so the string is malformed
    for c in 1..=3usize {
        for rooted in [false, true] {
            let segs: Vec<[u8; 4]> = (0..c).map(|i| seg(i + 7)).collect();
            let good = path_string(rooted, &segs);
            for x in [" ", "  ", "\t", "\n", "\r\n", "\0", "\u{a0}", "\u{2003}", "\u{feff}", "\"", "'"] {
                for s in [format!("{}{}", good, x), format!("{}{}", x, good), format!("{}{}{}", x, good, x)] {
                    check_malformed(ctx, &s);
                    bad += 1;
                }
                if c > 1 {
                    // and around an interior dot
                    let parts: Vec<&str> = good.splitn(2, '.').collect();
                    check_malformed(ctx, &format!("{}{}.{}", parts[0], x, parts[1]));
                    check_malformed(ctx, &format!("{}.{}{}", parts[0], x, parts[1]));
                    bad += 2;
                }
            }
        }
    }
    ctx.engine("E3.malformed", json!({"strings": bad, "all_must_panic": true}));

    // ---- every string over {name character, dot} up to 14 characters, rooted or not: well-formed iff it is
    // 4-character segments joined by single dots; well-formed ones must encode, all others must be refused
    let shapes = AtomicU64::new(0);
    (0..=14usize).into_par_iter().for_each(|len| {
        for mask in 0u32..(1 << len) {
            let body: String = (0..len).map(|i| if mask >> i & 1 == 1 { '.' } else { (b'A' + (i % 26) as u8) as char }).collect();
            let well = !body.is_empty() && body.split('.').all(|p| p.len() == 4);
            for rooted in [false, true] {
                let s = if rooted { format!("\\{}", body) } else { body.clone() };
                shapes.fetch_add(1, Ordering::Relaxed);
                if well {
                    let segs: Vec<[u8; 4]> = body.split('.').map(|p| { let b = p.as_bytes(); [b[0], b[1], b[2], b[3]] }).collect();
                    check_path(ctx, rooted, &segs, "dot-placement enumeration");
                } else {
                    check_malformed(ctx, &s);
                }
            }
        }
    });
    // ---- every string over {name character, '.', '\\'} up to 10 characters: after one optional leading backslash, a segment
    // whose length is not four (a backslash counts as a character) makes the path malformed
    let shapes3 = AtomicU64::new(0);
    let unjudged = AtomicU64::new(0);
    (0..=10usize).into_par_iter().for_each(|len| {
        let total = 3u32.pow(len as u32);
        for code in 0..total {
            let mut c = code;
            let s: String = (0..len)
                .map(|i| {
                    let d = c % 3;
                    c /= 3;
                    match d {
                        0 => (b'A' + (i % 26) as u8) as char,
                        1 => '.',
                        _ => '\\',
                    }
                })
                .collect();
            if !s.contains('\\') {
                continue; // covered by the two-symbol enumeration above
            }
            shapes3.fetch_add(1, Ordering::Relaxed);
            let (rooted, body) = match s.strip_prefix('\\') {
                Some(b) => (true, b),
                None => (false, s.as_str()),
            };
            let all4 = !body.is_empty() && body.split('.').all(|p| p.len() == 4);
            if all4 && body.contains('\\') {
                // every segment has exactly four characters, one of them a backslash: outside the name alphabet, and the
                // property only demands refusal of segments that are not four characters long, so this is not judged
                unjudged.fetch_add(1, Ordering::Relaxed);
                continue;
            }
            let well = all4;
            if well {
                let segs: Vec<[u8; 4]> = body.split('.').map(|p| { let b = p.as_bytes(); [b[0], b[1], b[2], b[3]] }).collect();
                check_path(ctx, rooted, &segs, "backslash-placement enumeration");
            } else {
                check_malformed(ctx, &s);
            }
        }
    });
    ctx.st(shapes3.load(Ordering::Relaxed));
    ctx.engine("E3.backslash-placements", json!({"strings": shapes3.load(Ordering::Relaxed), "not_judged_four_character_segments_holding_a_backslash": unjudged.load(Ordering::Relaxed), "what": "all strings over {name character, '.', '\\'} of length 0..=10 that contain a backslash"}));
    // a backslash in front of each later segment of 2..4-segment paths (what joining a parent path and an absolute child gives)
    for c in 2..=4usize {
        for w in 1..c {
            for rooted in [false, true] {
                let mut s = String::new();
                if rooted {
                    s.push('\\');
                }
                for i in 0..c {
                    if i > 0 {
                        s.push('.');
                    }
                    if i == w {
                        s.push('\\');
                    }
                    s.push_str(std::str::from_utf8(&seg(i)).unwrap());
                }
                check_malformed(ctx, &s);
            }
        }
    }
    ctx.st(shapes.load(Ordering::Relaxed));
    ctx.engine("E3.dot-placements", json!({"strings": shapes.load(Ordering::Relaxed), "what": "all 2^(len+1)-per-length strings over {name character, '.'} for len 0..=14, rooted and relative"}));

    // ---- the same encoder under every named object
    let mut named = 0u64;
    for c in 1..=3usize {
        for rooted in [false, true] {
            let segs: Vec<[u8; 4]> = (0..c).map(|i| seg(i + 40)).collect();
            let s = path_string(rooted, &segs);
            let mut want = vec![];
            name_encode(rooted, &segs, &mut want);
            let p = || Path::new(&s);
            let objs: Vec<(&str, Vec<u8>, usize, bool)> = vec![
                ("Name", ser(&Name::new(p(), &ONE)), 1, false),
                ("Device", ser(&Device::new(p(), vec![])), 2, true),
                ("Scope", ser(&Scope::new(p(), vec![])), 1, true),
                ("Scope::raw", Scope::raw(p(), vec![]), 1, true),
                ("Method", ser(&Method::new(p(), 0, false, vec![])), 1, true),
                ("Field", ser(&Field::new(p(), FieldAccessType::Any, FieldLockRule::NoLock, FieldUpdateRule::Preserve, vec![])), 2, true),
                ("OpRegion", ser(&OpRegion::new(p(), OpRegionSpace::SystemMemory, &ONE, &ONE)), 2, false),
                ("Mutex", ser(&Mutex::new(p(), 0)), 2, false),
                ("Acquire", ser(&Acquire::new(p(), 0xffff)), 2, false),
                ("Release", ser(&Release::new(p())), 2, false),
                ("MethodCall", ser(&MethodCall::new(p(), vec![])), 0, false),
                ("PowerResource", ser(&PowerResource::new(p(), 0, 0, vec![])), 2, true),
            ];
            // and a holder serialised twice gives the same stream
            {
                let d = Device::new(p(), vec![]);
                let m = Method::new(p(), 0, false, vec![]);
                let x = MethodCall::new(p(), vec![]);
                for (kind, a, b) in [("Device", ser(&d), ser(&d)), ("Method", ser(&m), ser(&m)), ("MethodCall", ser(&x), ser(&x))] {
                    ctx.tr(1);
                    if a != b {
                        ctx.violation_sized(&format!("name:under:{}:second-serialisation", kind), c as u64, || format!("{} named {:?}: serialised twice gives {} then {}", kind, s, hex(&a), hex(&b)), || json!({"family":"name-under","kind":kind,"path":s}));
                    }
                }
            }
            for (kind, b, ol, pk) in objs {
                let off = if pk { ol + pkg_decode(&b[ol..]).map(|x| x.1).unwrap_or(1) } else { ol };
                named += 1;
                ctx.tr(1);
                if b.len() < off + want.len() || b[off..off + want.len()] != want[..] {
                    ctx.violation_sized(
                        &format!("name:under:{}", kind),
                        c as u64,
                        || format!("{} named {:?}: bytes at {} are {} ; NameString form is {}", kind, s, off, hex(&b[off.min(b.len())..(off + want.len()).min(b.len())]), hex(&want)),
                        || json!({"family":"name-under","kind":kind,"path":s}),
                    );
                }
            }
        }
    }
    // the same under containers with a BODY (the name must survive whatever the container does to make room for a wider
    // PkgLength): bodies of 0..=70 bytes and around 4096 / 2^20
    {
        let bodies: Vec<usize> = (0..=70usize).chain([4080, 4090, 4096, 4100, (1 << 20) - 20, (1 << 20) - 8]).collect();
        for c in 1..=3usize {
            for rooted in [false, true] {
                let segs: Vec<[u8; 4]> = (0..c).map(|i| seg(i + 90)).collect();
                let s = path_string(rooted, &segs);
                let mut want = vec![];
                name_encode(rooted, &segs, &mut want);
                for n in &bodies {
                    let child = "k".repeat(*n);
                    let kid: &dyn Aml = &child;
                    let objs: Vec<(&str, Vec<u8>, usize)> = vec![
                        ("Scope::raw", Scope::raw(Path::new(&s), ser(kid)), 1),
                        ("Scope", ser(&Scope::new(Path::new(&s), vec![kid])), 1),
                        ("Device", ser(&Device::new(Path::new(&s), vec![kid])), 2),
                        ("Method", ser(&Method::new(Path::new(&s), 0, false, vec![kid])), 1),
                        ("PowerResource", ser(&PowerResource::new(Path::new(&s), 0, 0, vec![kid])), 2),
                    ];
                    for (kind, b, ol) in objs {
                        let off = ol + pkg_decode(&b[ol..]).map(|x| x.1).unwrap_or(1);
                        named += 1;
                        ctx.tr(1);
                        if b.len() < off + want.len() || b[off..off + want.len()] != want[..] {
                            ctx.violation_sized(
                                &format!("name:under:{}:with-body", kind),
                                *n as u64,
                                || format!("{} named {:?} with a {}-byte child: bytes at {} are {} ; NameString form is {}", kind, s, n + 2, off, hex(&b[off.min(b.len())..(off + want.len()).min(b.len())]), hex(&want)),
                                || json!({"family":"name-under","kind":kind,"path":s,"body":n}),
                            );
                        }
                    }
                }
            }
        }
    }
    ctx.engine("E3.named-objects", json!({"objects": named, "constructors": 12}));
    ctx.st(n.load(Ordering::Relaxed) + m + bad + named);
    // ---- every name there is (the value principle): all 27 x 37^3 = 1 367 631 four-character segments, each as a
    // relative and a rooted single-segment path and as the first, last and middle segment of longer paths: a rule keyed
    // to one particular name (a predefined ACPI name, say) is met at that name
    {
        let lead: Vec<u8> = (b'A'..=b'Z').chain([b'_']).collect();
        let rest: Vec<u8> = (b'A'..=b'Z').chain([b'_']).chain(b'0'..=b'9').collect();
        let n = AtomicU64::new(0);
        let lean = |rooted: bool, segs: &[[u8; 4]]| {
            let s = path_string(rooted, segs);
            let mut want = vec![];
            name_encode(rooted, segs, &mut want);
            match catch(|| ser(&Path::new(&s))) {
                Ok(b) if b == want => {}
                _ => check_path(ctx, rooted, segs, "every-name sweep"),
            }
        };
        lead.par_iter().for_each(|a| {
            for b in &rest {
                for c in &rest {
                    for d in &rest {
                        let sg = [*a, *b, *c, *d];
                        lean(false, &[sg]);
                        lean(true, &[sg]);
                        lean(false, &[sg, seg(1)]);
                        lean(true, &[seg(0), sg]);
                        lean(false, &[seg(0), sg, seg(2)]);
                    }
                }
            }
            n.fetch_add(5 * 37 * 37 * 37, Ordering::Relaxed);
        });
        ctx.tr(n.load(Ordering::Relaxed));
        ctx.st(n.load(Ordering::Relaxed));
        ctx.engine("E3.every-name", json!({"segments": 27 * 37 * 37 * 37, "paths": n.load(Ordering::Relaxed), "forms": ["relative single", "rooted single", "first of two", "last of two (rooted)", "middle of three"]}));
    }
    // ---- pairs of names that mean something (two segments special at once): the predefined ACPI names and name families
    // (_Lxx / _Exx / _Qxx / _Wxx for every xx, _T_x, _ACx, _ALx, _PRx, _PSx, _Sx_, _SxD, _SxW, _EJx, ...) under each of the
    // predefined scopes and under each other, relative and rooted, and with an ordinary segment in between
    {
        const NAMES: &[&str] = &[
            "_GPE", "_PR_", "_SB_", "_SI_", "_TZ_", "_GL_", "_OS_", "_OSI", "_REV", "_DLM", "_ADR", "_AEI", "_ALC", "_ALI", "_ALN", "_ALP", "_ALR", "_ALT", "_ART", "_ASI", "_ASZ", "_ATT", "_BAS", "_BBN", "_BCL", "_BCM", "_BCT",
            "_BDN", "_BIF", "_BIX", "_BLT", "_BM_", "_BMA", "_BMC", "_BMD", "_BMS", "_BPC", "_BPS", "_BPT", "_BQC", "_BST", "_BTH", "_BTM", "_BTP", "_CBA", "_CBR", "_CCA", "_CDM", "_CID", "_CLS", "_CPC", "_CR3", "_CRS", "_CRT",
            "_CSD", "_CST", "_CWS", "_DBT", "_DCK", "_DCS", "_DDC", "_DDN", "_DEC", "_DEP", "_DGS", "_DIS", "_DLM", "_DMA", "_DOD", "_DOS", "_DPL", "_DRS", "_DSD", "_DSM", "_DSS", "_DSW", "_DTI", "_EC_", "_EDL", "_END", "_EVT",
            "_FDE", "_FDI", "_FDM", "_FIF", "_FIT", "_FIX", "_FLC", "_FPS", "_FSL", "_FST", "_GAI", "_GCP", "_GHL", "_GLK", "_GPD", "_GRA", "_GRT", "_GSB", "_GTF", "_GTM", "_GWS", "_HE_", "_HID", "_HMA", "_HOT", "_HPP", "_HPX",
            "_HRV", "_IFT", "_INI", "_INT", "_IOR", "_IRC", "_LCK", "_LEN", "_LID", "_LIN", "_LL_", "_LPI", "_LSI", "_LSR", "_LSW", "_MAF", "_MAT", "_MAX", "_MBM", "_MEM", "_MIF", "_MIN", "_MLS", "_MOD", "_MSG", "_MSM", "_MTL",
            "_MTP", "_NBS", "_NCH", "_NIC", "_NIG", "_NIH", "_NTT", "_OFF", "_ON_", "_OSC", "_OST", "_PAI", "_PAR", "_PCL", "_PCT", "_PDC", "_PDL", "_PHA", "_PIC", "_PIF", "_PIN", "_PLD", "_PMC", "_PMD", "_PMM", "_POL", "_PPC",
            "_PPE", "_PPI", "_PR0", "_PR1", "_PR2", "_PR3", "_PRE", "_PRL", "_PRR", "_PRS", "_PRT", "_PRW", "_PS0", "_PS1", "_PS2", "_PS3", "_PSC", "_PSD", "_PSE", "_PSL", "_PSR", "_PSS", "_PSV", "_PSW", "_PTC", "_PTP", "_PTS",
            "_PUR", "_PXM", "_PZL", "_RBO", "_RBW", "_RDI", "_REG", "_RMV", "_RNG", "_ROM", "_RST", "_RT_", "_RTV", "_RW_", "_RXL", "_S0_", "_S1_", "_S2_", "_S3_", "_S4_", "_S5_", "_S1D", "_S2D", "_S3D", "_S4D", "_S0W", "_S1W",
            "_S2W", "_S3W", "_S4W", "_SBS", "_SCP", "_SDD", "_SEG", "_SHL", "_SHR", "_SIZ", "_SLI", "_SLV", "_SPD", "_SPE", "_SRS", "_SRT", "_SRV", "_SST", "_STA", "_STB", "_STM", "_STP", "_STR", "_STV", "_SUB", "_SUN", "_SWS",
            "_TC1", "_TC2", "_TDL", "_TFP", "_TIP", "_TIV", "_TMP", "_TPC", "_TPT", "_TRA", "_TRS", "_TRT", "_TSD", "_TSF", "_TSN", "_TSP", "_TSS", "_TST", "_TTP", "_TTS", "_TXL", "_TYP", "_TZD", "_TZM", "_TZP", "_UID", "_UPC",
            "_UPD", "_UPP", "_VAL", "_VEN", "_VPO", "_WAK", "_WPC", "_WPP", "_AC0", "_AC9", "_AL0", "_AL9", "_EJ0", "_EJ1", "_EJ2", "_EJ3", "_EJ4", "_EJD", "_CCD", "_CLR", "PCI0", "EC0_", "CPU0", "LNKA", "TEST",
        ];
        let mut dict: Vec<[u8; 4]> = NAMES.iter().map(|s| { let b = s.as_bytes(); [b[0], b[1], b[2], b[3]] }).collect();
        let hexd = b"0123456789ABCDEF";
        for fam in [b'L', b'E', b'Q', b'W'] {
            for a in hexd {
                for b in hexd {
                    dict.push([b'_', fam, *a, *b]);
                }
            }
        }
        for x in b"0123456789ABCDEFGHIJKLMNOPQRSTUVWXYZ" {
            dict.push([b'_', b'T', b'_', *x]);
        }
        dict.sort();
        dict.dedup();
        let scopes: Vec<[u8; 4]> = ["_GPE", "_PR_", "_SB_", "_SI_", "_TZ_", "_GL_", "_OS_", "_OSI", "_REV", "PCI0", "EC0_"].iter().map(|s| { let b = s.as_bytes(); [b[0], b[1], b[2], b[3]] }).collect();
        let n = AtomicU64::new(0);
        let lean = |rooted: bool, segs: &[[u8; 4]]| {
            let s = path_string(rooted, segs);
            let mut want = vec![];
            name_encode(rooted, segs, &mut want);
            match catch(|| ser(&Path::new(&s))) {
                Ok(b) if b == want => {}
                _ => check_path(ctx, rooted, segs, "predefined-name pairs"),
            }
        };
        dict.par_iter().for_each(|child| {
            for sc in &scopes {
                for rooted in [false, true] {
                    lean(rooted, &[*sc, *child]);
                    lean(rooted, &[*child, *sc]);
                    lean(rooted, &[*sc, seg(3), *child]);
                    lean(rooted, &[seg(3), *sc, *child]);
                }
            }
            n.fetch_add(8 * scopes.len() as u64, Ordering::Relaxed);
        });
        let named: Vec<[u8; 4]> = NAMES.iter().map(|s| { let b = s.as_bytes(); [b[0], b[1], b[2], b[3]] }).collect();
        named.par_iter().for_each(|a| {
            for b in &named {
                lean(false, &[*a, *b]);
                lean(true, &[*a, *b]);
            }
            n.fetch_add(2 * named.len() as u64, Ordering::Relaxed);
        });
        ctx.tr(n.load(Ordering::Relaxed));
        ctx.st(n.load(Ordering::Relaxed));
        ctx.engine("E3.predefined-name-pairs", json!({"dictionary": dict.len(), "scopes": scopes.len(), "paths": n.load(Ordering::Relaxed)}));
    }
    ctx.force_sample(json!({"path": "\\_SB_.PCI0.LNKA", "expected": "5c 2f 03 5f53425f 50434930 4c4e4b41"}));
    ctx.force_sample(json!({"path": "ABCD.EFG", "expected": "refused"}));
}

pub const RULE: &str = "segment counts 1..=255 x rootedness; every legal character at every position in first/middle/last segment of 1,2,3,255-segment paths; malformed segment lengths 0..3,5..8 at every position of 1..4-segment paths + dot/root anomalies; 12 named-object constructors. distinct = distinct encodings";
pub const ASSUME: &[&str] = &["segment contents beyond single-position sweeps are not combined exhaustively", "non-ASCII input is outside the property's domain"];
