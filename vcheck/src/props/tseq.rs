//! C01 C02 C03 C04(table layer) C05: one exploration of builder-operation sequences per table
//! (seq::dfs + seq::lanes on the real crate), one oracle per property.
use crate::ev::Ctx;
use crate::fill::{Ctor, Op};
use crate::seq::{self, Visit};
use crate::tables::{self, Ent, RefOut, Table};
use crate::util::{first_diff, fnv, hex, rd16, rd32, rd64, ser, sum8, SumLen};
use serde_json::json;

#[derive(Clone, Copy, PartialEq, Eq, Debug)]
pub enum P {
    C01,
    C02,
    C03,
    C04,
    C05,
}

fn relevant(p: P, t: &dyn Table) -> bool {
    match p {
        P::C01 => t.checksummed(),
        P::C02 | P::C04 => true,
        P::C03 => t.variable_body(),
        P::C05 => matches!(t.name(), "pptt" | "rhct" | "rimt" | "viot"),
    }
}

fn last_kind(t: &dyn Table, ops: &[Op]) -> &'static str {
    ops.last().map(|o| t.kinds()[o.k as usize]).unwrap_or("new")
}

fn size_of(v: &Visit) -> u64 {
    v.all_ops.len() as u64
}

fn replay(v: &Visit) -> serde_json::Value {
    match v.lane {
        Some(l) => seq::lane_replay(v.table, v.ctor, l, v.all_ops),
        None => seq::replay_json(v.table, v.ctor, v.all_ops),
    }
}

/// does the image equal the reference with one open-known-finding switch applied?
pub fn quirk_of(t: &dyn Table, c: &Ctor, ops: &[Op], img: &[u8]) -> Option<&'static str> {
    for q in t.quirks() {
        if let Some(r) = t.reference_q(c, ops, q) {
            if r.image == img {
                return Some(q);
            }
        }
    }
    None
}

fn long_tag(v: &Visit) -> &'static str {
    if v.ops.len() >= 200 {
        ":long"
    } else {
        ""
    }
}

pub fn judge(ctx: &Ctx, p: P, v: &Visit) {
    let t = v.table;
    match p {
        P::C01 => {
            if v.sparse {
                let mut s = SumLen::default();
                v.live.to_aml_bytes(&mut s);
                ctx.distinct(fnv(&s.head) ^ ((s.len as u64) << 20) ^ s.sum as u64);
                if s.sum != 0 {
                    ctx.violation_sized(
                        &format!("{}:sum:{}{}", t.name(), last_kind(t, v.ops), long_tag(v)),
                        size_of(v),
                        || format!("{}: after {} operations (last {}) the {} emitted bytes sum to {} mod 256", t.name(), v.ops.len(), last_kind(t, v.ops), s.len, s.sum),
                        || replay(v),
                    );
                }
                return;
            }
            let img = ser(v.live);
            ctx.distinct(fnv(&img));
            for (a, b) in t.sum_ranges(img.len()) {
                if b > img.len() || sum8(&img[a..b]) != 0 {
                    let got = if b <= img.len() { sum8(&img[a..b]) as i32 } else { -1 };
                    ctx.violation_sized(
                        &format!("{}:sum:{}{}", t.name(), last_kind(t, v.ops), long_tag(v)),
                        size_of(v),
                        || format!("{}: after {} operations (last {}) bytes {}..{} sum to {} mod 256, not 0", t.name(), v.ops.len(), last_kind(t, v.ops), a, b, got),
                        || replay(v),
                    );
                }
            }
        }
        P::C02 => {
            let mut s = SumLen::default();
            v.live.to_aml_bytes(&mut s);
            ctx.distinct(fnv(&s.head) ^ ((s.len as u64) << 20));
            let la = t.length_at();
            let declared = if s.len >= la + 4 { rd32(&s.head, la) as usize } else { usize::MAX };
            // generic table: after the caller overwrote the Length field it holds the caller's bytes until the next append
            let user_len = t.name() == "sdt" && {
                let last_app = v.ops.iter().rposition(|o| matches!(o.k, 0..=4 | 7));
                v.ops.iter().enumerate().any(|(i, o)| (o.k == 9 && last_app.map(|a| i > a).unwrap_or(true)) || matches!(o.k, 5 | 6 | 8) && (o.shape as usize) < 8 && (o.shape as usize) + (match o.k { 5 => 1, 6 => 4, _ => 8 }) > 4 && last_app.map(|a| i > a).unwrap_or(true))
            };
            if declared != s.len && !user_len {
                let key = {
                    let img = ser(v.live);
                    quirk_of(t, v.ctor, v.ops, &img).map(|q| format!("{}:{}", t.name(), q))
                };
                let key = key.unwrap_or_else(|| format!("{}:len:{}", t.name(), last_kind(t, v.ops)));
                ctx.violation_sized(
                    &key,
                    size_of(v),
                    || format!("{}: after {} operations (last {}) Length field says {} but {} bytes are emitted", t.name(), v.ops.len(), last_kind(t, v.ops), declared, s.len),
                    || replay(v),
                );
            }
        }
        P::C03 => {
            if t.unwalkable(v.ops) {
                return;
            }
            let img = ser(v.live);
            ctx.distinct(fnv(&img));
            let fail = |why: String| {
                let key = quirk_of(t, v.ctor, v.ops, &img)
                    .map(|q| format!("{}:{}", t.name(), q))
                    .unwrap_or_else(|| format!("{}:tile:{}", t.name(), last_kind(t, v.ops)));
                ctx.violation_sized(&key, size_of(v), || format!("{}: after {} operations (last {}): {}", t.name(), v.ops.len(), last_kind(t, v.ops), why), || replay(v));
            };
            let ents = match t.walk(&img) {
                Ok(e) => e,
                Err(why) => return fail(format!("body walk failed: {}", why)),
            };
            if let Err(why) = t.counts(&img, &ents) {
                return fail(why);
            }
            if v.sparse {
                if t.name() != "slit" && ents.len() != v.ops.len() {
                    return fail(format!("walk found {} entries, {} were added", ents.len(), v.ops.len()));
                }
                return;
            }
            // exactly the entries that were added, in order, with the right type codes and sizes
            let r = t.reference(v.ctor, v.ops);
            let want = &r.ents;
            if &ents != want {
                let i = ents.iter().zip(want.iter()).position(|(a, b)| a != b).unwrap_or(ents.len().min(want.len()));
                return fail(format!("entry #{}: walk finds {:?}, the history added {:?} ({} walked / {} added)", i, ents.get(i), want.get(i), ents.len(), want.len()));
            }
            // per-entry summarising fields must describe what was added, not merely be self-consistent
            let (got, exp) = (t.summary(&img, &ents), t.summary(&r.image, want));
            if got != exp {
                let i = got.iter().zip(exp.iter()).position(|(a, b)| a != b).unwrap_or(got.len().min(exp.len()));
                return fail(format!("summarising field #{} (counts / array offsets / string lengths, in body order) is {:?} but the history added {:?}", i, got.get(i), exp.get(i)));
            }
        }
        P::C04 => {
            if v.sparse {
                return;
            }
            let img = ser(v.live);
            ctx.distinct(fnv(&img));
            let want = t.reference(v.ctor, v.ops).image;
            if !tables::eq_judged(t, v.ops, &img, &want) {
                let key = quirk_of(t, v.ctor, v.ops, &img).map(|q| format!("{}:{}", t.name(), q)).unwrap_or_else(|| {
                    // attribute to the entry containing the first difference in the body (Length/checksum differences follow from it)
                    let d = if img.len() > 36 && want.len() > 36 { first_diff(&img[36..], &want[36..]).map(|x| x + 36) } else { None };
                    let d = d.or_else(|| first_diff(&img, &want)).unwrap_or(0);
                    let r = t.reference(v.ctor, v.ops);
                    let who = r.ents.iter().position(|e| d >= e.off && d < e.off + e.len).map(|i| t.kinds()[v.ops[i].k as usize]).unwrap_or("header");
                    format!("{}:image:{}", t.name(), who)
                });
                ctx.violation_sized(
                    &key,
                    size_of(v),
                    || {
                        let d = first_diff(&img, &want).unwrap_or(0);
                        format!("{}: after {} operations image differs from the reference encoding at offset {} (got {} bytes, want {}): got ..{} want ..{}",
                            t.name(), v.ops.len(), d, img.len(), want.len(), hex(&img[d.min(img.len())..(d + 16).min(img.len())]), hex(&want[d.min(want.len())..(d + 16).min(want.len())]))
                    },
                    || replay(v),
                );
            }
        }
        P::C05 => {
            if v.sparse {
                return;
            }
            let img = ser(v.live);
            ctx.distinct(fnv(&img));
            let r: RefOut = t.reference(v.ctor, v.ops);
            // where the independent walk finds the nodes; fall back to the spec-derived offsets if the body cannot be walked
            let ents: Vec<Ent> = match t.walk(&img) {
                Ok(e) if e.len() == r.ents.len() => e,
                _ => r.ents.clone(),
            };
            // handles observable directly (PPTT/RHCT implement Debug)
            if !v.handles.is_empty() {
                for (i, h) in v.handles.iter().enumerate() {
                    let want = ents[r.handle_ents[i]].off as u32;
                    if *h != want {
                        ctx.violation_sized(
                            &format!("{}:handle:{}", t.name(), t.kinds()[v.ops[r.handle_ents[i]].k as usize]),
                            size_of(v),
                            || format!("{}: handle #{} returned {} but its node starts at offset {}", t.name(), i, h, want),
                            || replay(v),
                        );
                    }
                }
                if v.handles.len() >= 2 {
                    ctx.witness("two_or_more_handles_live");
                }
            }
            // every reference field appears verbatim and resolves to the start of the node it names
            for rf in &r.refs {
                if rf.at + rf.width as usize > img.len() {
                    continue;
                }
                let got = match rf.width {
                    2 => rd16(&img, rf.at) as u64,
                    4 => rd32(&img, rf.at) as u64,
                    _ => rd64(&img, rf.at),
                };
                let tgt = &ents[rf.target];
                if got != tgt.off as u64 {
                    let resolves = ents.iter().find(|e| e.off as u64 == got);
                    ctx.violation_sized(
                        &format!("{}:ref:{}", t.name(), rf.what),
                        size_of(v),
                        || format!("{}: {} field at {} holds {} but the node it was built from starts at {} (type {}); {}", t.name(), rf.what, rf.at, got, tgt.off, tgt.ty,
                            match resolves { Some(e) => format!("it resolves to a node of type {}", e.ty), None => "it resolves to no node start".into() }),
                        || replay(v),
                    );
                }
                ctx.witness("reference_field_checked");
                // non-vacuity: a referenced node that is not the first in the body, with a variable-size node before it
                if rf.target > 0 {
                    ctx.witness("reference_to_non_first_node");
                }
            }
        }
    }
}

pub fn run(ctx: &'static Ctx, p: P) {
    let quick = ctx.quick();
    let level = if quick { 1 } else { 2 };
    let budget: u64 = if quick { 400_000 } else { 10_000_000 };
    let mut per_table = vec![];
    for t in tables::all() {
        let t: &dyn Table = t.as_ref();
        if !relevant(p, t) {
            continue;
        }
        let ctors = t.ctors(level);
        let mut info = vec![];
        let mut depth0 = 0;
        for (ci, c) in ctors.iter().enumerate() {
            let d = if ci == 0 {
                depth0 = seq::depth_for(t, c, level, budget, 12);
                depth0
            } else {
                depth0.min(2)
            };
            let (nodes, leaves) = seq::dfs(ctx, t, c, level, d, &|v| judge(ctx, p, v));
            info.push(json!({"ctor": c.json(), "depth": d, "nodes": nodes, "leaves": leaves}));
        }
        // one representative operation per kind (level-0 alphabet), explored deeper: mixtures of many different kinds
        let c0 = t.ctors(0)[0];
        let kbudget: u64 = if quick { 150_000 } else { 4_000_000 };
        let kd = seq::depth_for(t, &c0, 0, kbudget, 16);
        if kd > depth0 {
            let (nodes, leaves) = seq::dfs(ctx, t, &c0, 0, kd, &|v| judge(ctx, p, v));
            info.push(json!({"ctor": c0.json(), "alphabet": "one operation per kind", "depth": kd, "nodes": nodes, "leaves": leaves}));
        }
        // lanes (deviation bound 1), every prefix observed
        let n = if quick { 300 } else { 600 };
        let lanes = seq::lane_set(t, &c0, n, true);
        let mut lane_prefixes = 0u64;
        let judged: Vec<u64> = {
            use rayon::prelude::*;
            lanes
                .par_iter()
                .map(|l| {
                    seq::run_lane(
                        ctx,
                        t,
                        &c0,
                        l,
                        &|k| {
                            let full = k <= 6 || (250..=260).contains(&k) || k == l.ops.len();
                            (true, !full)
                        },
                        &|v| judge(ctx, p, v),
                    )
                })
                .collect()
        };
        lane_prefixes += judged.iter().sum::<u64>();
        let mut long_info = json!(null);
        if quick && t.variable_body() && t.name() != "slit" {
            // quick: per kind, one single-kind lane just long enough for the image to cross 65536 bytes
            use rayon::prelude::*;
            let probe = seq::lane_set(t, &c0, 2, false);
            let j: Vec<u64> = probe
                .par_iter()
                .map(|pl| {
                    let r2 = t.reference(&c0, &pl.ops);
                    let per = r2.ents.last().map(|e| e.len).unwrap_or(16).max(1);
                    let need = 66_200 / per + 4;
                    let name = pl.name.clone();
                    let lanes = seq::lane_set(t, &c0, need, false);
                    let mut l = match lanes.into_iter().find(|l| l.name.split('^').next() == name.split('^').next()) {
                        Some(l) => l,
                        None => return 0,
                    };
                    let r = t.reference(&c0, &l.ops);
                    let lens: Vec<usize> = (0..=l.ops.len()).map(|k| if k < r.ents.len() { r.ents[k].off } else { r.image.len() }).collect();
                    if let Some(m) = t.max_image() {
                        // the table documents a size limit: stay inside it (going past it is C18's business)
                        let keep = lens.iter().rposition(|x| *x <= m).unwrap_or(0);
                        l.ops.truncate(keep);
                    }
                    seq::run_lane(
                        ctx,
                        t,
                        &c0,
                        &l,
                        &|k| {
                            let crossing = (k.saturating_sub(2)..=(k + 2).min(l.ops.len())).any(|j| j > 0 && (lens[j] >> 16) != (lens[j - 1] >> 16));
                            let go = crossing || k == l.ops.len() || k % 509 == 0;
                            (go, !(crossing && k > 0 && (lens[k] >> 16) != (lens[k - 1] >> 16)))
                        },
                        &|v| judge(ctx, p, v),
                    )
                })
                .collect();
            lane_prefixes += j.iter().sum::<u64>();
            long_info = json!({"lanes": probe.len(), "purpose": "image length crosses 65536 bytes", "prefixes_judged": j.iter().sum::<u64>(), "selection": "within 2 of the crossing (the crossing prefix with all oracles), every 509th, the last"});
        }
        if !quick && t.variable_body() {
            // long horizon: single-kind lanes far enough for counts and byte lengths to cross 65536
            let long = seq::lane_set(t, &c0, 66_000, false);
            use rayon::prelude::*;
            let j: Vec<u64> = long
                .par_iter()
                .map(|l0| {
                    let r = t.reference(&c0, &l0.ops);
                    let lens: Vec<usize> = (0..=l0.ops.len()).map(|k| if k < r.ents.len() { r.ents[k].off } else { r.image.len() }).collect();
                    let mut lt = seq::Lane { name: l0.name.clone(), ops: l0.ops.clone() };
                    if let Some(m) = t.max_image() {
                        let keep = lens.iter().rposition(|x| *x <= m).unwrap_or(0);
                        lt.ops.truncate(keep);
                    }
                    let l = &lt;
                    let crossing: Vec<bool> = (0..=l.ops.len())
                        .map(|k| (k.saturating_sub(3)..=(k + 3).min(l.ops.len())).any(|j| j > 0 && (lens[j] >> 16) != (lens[j - 1] >> 16)))
                        .collect();
                    seq::run_lane(
                        ctx,
                        t,
                        &c0,
                        l,
                        &|k| {
                            let near_count = k % 256 <= 2 || k % 256 >= 254;
                            let go = k <= 1024 || near_count || crossing[k] || k % 997 == 0 || k == l.ops.len();
                            let full = k == 256 || k == 65_536 || k == 65_537 || k == l.ops.len();
                            (go, !full)
                        },
                        &|v| judge(ctx, p, v),
                    )
                })
                .collect();
            lane_prefixes += j.iter().sum::<u64>();
            long_info = json!({"lanes": long.len(), "ops_per_lane": 66_000, "prefixes_judged": j.iter().sum::<u64>(),
                "selection": "every prefix <= 1024; every prefix within 2 of a multiple of 256; within 3 of each point where the image length crosses a multiple of 65536; every 997th; the last"});
        }
        // explicit sweep programs (sizes over contiguous ranges, continuation chains, special strings): every prefix judged
        let sweeps = t.sweeps(level);
        let sweep_prefixes: u64 = {
            use rayon::prelude::*;
            sweeps
                .par_iter()
                .map(|(name, ops)| {
                    let l = seq::Lane { name: format!("sweep:{}", name), ops: ops.clone() };
                    seq::run_lane(ctx, t, &c0, &l, &|_k| (true, false), &|v| judge(ctx, p, v))
                })
                .sum()
        };
        lane_prefixes += sweep_prefixes;
        // byte-sum sweep: per kind, one byte-wide (or wider) argument taken through all 256 values of its low byte, so that
        // the entry's own byte sum — and with it the table's running sum — takes every residue (an update rule that
        // special-cases a sum of 0, a carry, or a sign bit is exercised at every value)
        let mut sum_programs = 0u64;
        {
            use rayon::prelude::*;
            let mut progs: Vec<(String, Vec<Op>)> = vec![];
            // one operation of every kind that needs no prelude (offered after each byte-sum program)
            let followers: Vec<Op> = (0..t.kinds().len() as u8).filter(|k| t.prelude(*k, t.shapes(*k)[0]).is_empty()).map(|k| Op { k, shape: t.shapes(k)[0], fill: crate::fill::Fill::b(3) }).collect();
            for k in 0..t.kinds().len() as u8 {
                let shapes = t.shapes(k);
                // FADT's set_field has one shape per field; elsewhere the first shapes suffice
                let nshapes = if t.name() == "fadt" { shapes.len() } else { shapes.len().min(2) };
                for (si, shape) in shapes.iter().take(nshapes).enumerate() {
                    let shape = *shape;
                    let fields = t.fields(k, shape);
                    let first_wide = fields.iter().position(|ft| matches!(ft, crate::tables::FT::U(b) if *b >= 8));
                    let pre = t.prelude(k, shape);
                    // one argument at an extreme (all of it zero, all of it ones), the others ordinary: an update rule that
                    // treats a zero argument as "absent" while its neighbour was already accounted for shows here
                    for (i, ft) in fields.iter().enumerate() {
                        if !matches!(ft, crate::tables::FT::U(_)) {
                            continue;
                        }
                        for (label, v) in [("zero", 0u64), ("ones", u64::MAX)] {
                            for base in [2u8, 3u8] {
                                let mut ops = pre.clone();
                                ops.push(Op { k, shape, fill: crate::fill::Fill::b(base).with(i as u8, v) });
                                ops.push(Op { k, shape, fill: crate::fill::Fill::b(1) });
                                progs.push((format!("{}[shape {} arg {} all {} base {}]", t.kinds()[k as usize], shape, i, label, base), ops));
                            }
                        }
                    }
                    for (i, ft) in fields.iter().enumerate() {
                        // every byte-wide argument through all its values; the first wider one through all 256 low bytes
                        let byte_wide = matches!(ft, crate::tables::FT::U(b) if *b <= 8);
                        if !(byte_wide || (si == 0 && Some(i) == first_wide)) {
                            continue;
                        }
                        let idx = i as u8;
                        let top = match ft {
                            crate::tables::FT::U(b) if *b < 8 => 1u64 << *b,
                            _ => 256,
                        };
                        for v in 0..top {
                            let mut ops = pre.clone();
                            let base = crate::fill::Fill::b(2);
                            let cur = base.raw(idx, 64);
                            ops.push(Op { k, shape, fill: base.with(idx, (cur & !0xff) | v) });
                            // the running sum now has every residue in turn: what arrives next is one operation of every kind
                            if si == 0 && Some(i) == first_wide {
                                for nxt in &followers {
                                    if nxt.k != k {
                                        let mut o2 = ops.clone();
                                        o2.push(*nxt);
                                        progs.push((format!("{}[shape {} arg {} low byte {:#04x}] then {}", t.kinds()[k as usize], shape, idx, v, t.kinds()[nxt.k as usize]), o2));
                                    }
                                }
                            }
                            ops.push(Op { k, shape, fill: crate::fill::Fill::b(1) });
                            progs.push((format!("{}[shape {} arg {} low byte {:#04x}]", t.kinds()[k as usize], shape, idx, v), ops));
                        }
                    }
                }
            }
            sum_programs = progs.len() as u64;
            let run_chunk = |progs: &Vec<(String, Vec<Op>)>| -> u64 {
                progs
                    .par_iter()
                    .map(|(name, ops)| {
                        let l = seq::Lane { name: format!("bytesum:{}", name), ops: ops.clone() };
                        seq::run_lane(ctx, t, &c0, &l, &|_k| (true, false), &|v| judge(ctx, p, v))
                    })
                    .sum()
            };
            lane_prefixes += run_chunk(&progs);
            drop(progs);
            let (mut vp, mut vj) = (0u64, 0u64);
            value_programs(t, quick, false, &mut |chunk| {
                vp += chunk.len() as u64;
                vj += run_chunk(&chunk);
            });
            sum_programs += vp;
            lane_prefixes += vj;
        }
        // the same value sweep for the constructor's own arguments, each followed by one operation of every kind
        let mut ctor_programs = 0u64;
        {
            use rayon::prelude::*;
            let cf = t.ctor_fields();
            let dims: Vec<(usize, usize)> = cf
                .iter()
                .enumerate()
                .filter_map(|(i, ft)| match ft {
                    crate::tables::FT::E(n) => Some((i, *n)),
                    crate::tables::FT::B => Some((i, 2)),
                    _ => None,
                })
                .collect();
            let combos = crate::util::enum_combos(&dims, 64);
            let mut cprogs: Vec<(String, Ctor, Vec<Op>)> = vec![];
            let tails: Vec<Vec<Op>> = {
                let mut v = vec![vec![]];
                for o in t.alphabet(&c0, &t.enable_all(), 0) {
                    let mut ops = t.enable_all();
                    ops.push(o);
                    v.push(ops);
                }
                v
            };
            for (i, ft) in cf.iter().enumerate() {
                let b = match ft {
                    crate::tables::FT::U(b) => *b,
                    crate::tables::FT::A(n) => (8 * *n as u32).min(64),
                    _ => continue,
                };
                let ordinary = crate::fill::Fill::b(2).raw(i as u8, b);
                for val in crate::util::value_set(b, ordinary, quick) {
                    for combo in &combos {
                        let mut c = c0;
                        c.fill = c.fill.with(i as u8, val);
                        for (ei, ev) in combo.iter().take(5) {
                            c.fill = c.fill.with(*ei as u8, *ev);
                        }
                        for tail in &tails {
                            cprogs.push((format!("new[arg {} = {:#x} enums {:?}]", i, val, combo), c, tail.clone()));
                        }
                    }
                }
            }
            ctor_programs = cprogs.len() as u64;
            let j: u64 = cprogs
                .par_iter()
                .map(|(name, c, ops)| {
                    let l = seq::Lane { name: format!("ctor-values:{}", name), ops: ops.clone() };
                    seq::run_lane(ctx, t, c, &l, &|_k| (true, false), &|v| judge(ctx, p, v))
                })
                .sum();
            lane_prefixes += j;
        }
        per_table.push(json!({"table": t.name(), "ctor_value_programs": ctor_programs, "byte_sum_programs": sum_programs, "sweep_programs": sweeps.len(), "sweep_prefixes_judged": sweep_prefixes, "dfs": info, "lanes": lanes.len(), "lane_len": n, "lane_prefixes_judged": lane_prefixes, "long_lanes": long_info}));
    }
    ctx.engine("E2.sequences", json!({"level": level, "node_budget_per_table": budget, "tables": per_table}));
    ctx.set("bound", json!(format!("all operation sequences up to the per-table depth listed under engines (budget {} nodes), all lanes a^N and (ab)^(N/2)", budget)));
}

/// Value sweep (the value principle, DESIGN.md 8): every numeric or byte-array argument of every kind and shape through
/// util::value_set, crossed with the enumerated / boolean arguments of the same entry; then pairs of arguments equal /
/// adjacent / doubled, and an argument equal to the entry's own position. `options_only` keeps the kinds that have an
/// enumerated or boolean argument or more than one shape (the option-bearing entries C11 is about).
/// The programs are handed to `sink` in chunks of at most ~100 000 (the thorough sets run to tens of millions per table;
/// materialising them at once exhausted memory).
pub fn value_programs(t: &dyn Table, quick: bool, options_only: bool, sink: &mut dyn FnMut(Vec<(String, Vec<Op>)>)) {
    let mut progs: Vec<(String, Vec<Op>)> = vec![];
    // value sweep (the value principle, DESIGN.md 8): every numeric or byte-array argument of every kind and shape
    // through util::value_set, crossed with the enumerated / boolean arguments of the same entry; then pairs of
    // arguments equal / adjacent / doubled, and an argument equal to the entry's own position
    let shape_cap = if t.name() == "fadt" { usize::MAX } else if quick { 4 } else { 16 };
    for k in 0..t.kinds().len() as u8 {
        if options_only && t.shapes(k).len() < 2 && !t.shapes(k).iter().any(|s| t.fields(k, *s).iter().any(|ft| matches!(ft, crate::tables::FT::E(_) | crate::tables::FT::B))) {
            continue;
        }
        let mut seen_sigs: Vec<Vec<crate::tables::FT>> = vec![];
        for (shape_i, shape) in t.shapes(k).into_iter().take(shape_cap).enumerate() {
            // thorough: the large value sets (whole 16-bit domains, all 256 values per byte lane) for the first two shapes of a
            // kind (FADT: every shape = every field), the quick sets for the further shapes
            let small_sets = quick || (shape_i >= 2 && t.name() != "fadt");
            let fields = t.fields(k, shape);
            if quick && seen_sigs.contains(&fields) && t.name() != "fadt" && seen_sigs.len() >= 2 {
                continue;
            }
            seen_sigs.push(fields.clone());
            let pre = t.prelude(k, shape);
            let dims: Vec<(usize, usize)> = fields
                .iter()
                .enumerate()
                .filter_map(|(i, ft)| match ft {
                    crate::tables::FT::E(n) => Some((i, *n)),
                    crate::tables::FT::B => Some((i, 2)),
                    _ => None,
                })
                .collect();
            let combos = crate::util::enum_combos(&dims, if quick { 8 } else { 16 });
            let wide: Vec<(usize, u32)> = fields
                .iter()
                .enumerate()
                .filter_map(|(i, ft)| match ft {
                    crate::tables::FT::U(b) => Some((i, *b)),
                    crate::tables::FT::A(n) => Some((i, (8 * *n as u32).min(64))),
                    _ => None,
                })
                .collect();
            let kname = t.kinds()[k as usize];
            let pair_combos: Vec<Vec<(usize, u64)>> = crate::util::enum_combos(&dims, 16).into_iter().filter(|c| c.len() <= 4).collect();
            let pair_combos = if pair_combos.is_empty() { vec![vec![]] } else { pair_combos };
            for (i, b) in wide.iter().copied() {
                let ordinary = crate::fill::Fill::b(2).raw(i as u8, b);
                for val in crate::util::value_set(b, ordinary, small_sets) {
                    for combo in &combos {
                        let mut f = crate::fill::Fill::b(2).with(i as u8, val);
                        // at most 5 further overrides fit; longer combinations keep their first ones
                        for (ei, ev) in combo.iter().take(5) {
                            f = f.with(*ei as u8, *ev);
                        }
                        let mut ops = pre.clone();
                        ops.push(Op { k, shape, fill: f });
                        progs.push((format!("{}[shape {} arg {} = {:#x} enums {:?}]", kname, shape, i, val, combo), ops));
                    }
                    if progs.len() >= 100_000 {
                        sink(std::mem::take(&mut progs));
                    }
                }
            }
            for (ai, (i, bi)) in wide.iter().copied().enumerate() {
                for (j, bj) in wide.iter().copied().skip(ai + 1) {
                    let w = bi.min(bj).min(63);
                    let m = (1u64 << w) - 1;
                    let x = (crate::fill::Fill::b(2).raw(i as u8, 64) & m) >> 1;
                    for (name, a, c) in [("equal", x, x), ("equal small", 23, 23), ("next", x, x + 1), ("previous", x + 1, x), ("double", x >> 1, (x >> 1) * 2), ("both zero", 0, 0), ("both one", 1, 1), ("both ones", m, m)] {
                        // crossed with the enumerated / boolean arguments of the same entry (two options given the same
                        // number but different modes is a two-argument coincidence of its own)
                        for combo in pair_combos.iter() {
                            let mut f = crate::fill::Fill::b(3).with(i as u8, a & m).with(j as u8, c & m);
                            for (ei, ev) in combo.iter().take(4) {
                                f = f.with(*ei as u8, *ev);
                            }
                            let mut ops = pre.clone();
                            ops.push(Op { k, shape, fill: f });
                            progs.push((format!("{}[shape {} args {} and {} {} enums {:?}]", kname, shape, i, j, name, combo), ops));
                        }
                    }
                    if progs.len() >= 100_000 {
                        sink(std::mem::take(&mut progs));
                    }
                }
            }
            // the same special value of one argument in several entries of the kind (a per-table flag or cache keyed to that
            // value is set by the first and must not be re-applied by the second), under every constructor variant
            for (i, b) in wide.iter().copied() {
                let m = if b >= 64 { u64::MAX } else { (1u64 << b) - 1 };
                for v in [0u64, 1, m] {
                    let mut ops = pre.clone();
                    for base in [2u8, 3, 2] {
                        ops.push(Op { k, shape, fill: crate::fill::Fill::b(base).with(i as u8, v) });
                    }
                    progs.push((format!("{}[shape {} arg {} = {:#x} in three entries]", kname, shape, i, v), ops));
                }
            }
            // two arguments at special values at once (neither ordinary)
            for (ai, (i, bi)) in wide.iter().copied().enumerate() {
                for (j, bj) in wide.iter().copied().skip(ai + 1) {
                    let special = |b: u32| -> Vec<u64> {
                        let m = if b >= 64 { u64::MAX } else { (1u64 << b) - 1 };
                        let mut v = vec![0u64, 1, 2, 0xff & m, 0x100 & m, 0xffff & m, 0x1000 & m, 0x10000 & m, m >> 1, (m >> 1) + 1, m - 1, m];
                        v.sort();
                        v.dedup();
                        v
                    };
                    for a in special(bi) {
                        for c in special(bj) {
                            let mut ops = pre.clone();
                            ops.push(Op { k, shape, fill: crate::fill::Fill::b(2).with(i as u8, a).with(j as u8, c) });
                            progs.push((format!("{}[shape {} args {} = {:#x} and {} = {:#x}]", kname, shape, i, a, j, c), ops));
                        }
                    }
                }
            }
            // an argument that coincides with the state of the table when the call arrives: the current length, the length
            // after the entry, the number of entries so far, the previous entry's value of the same argument +- 1; once as
            // first entry and once after two ordinary entries of the same kind
            {
                let c0 = t.ctors(0)[0];
                for (i, b) in wide.iter().copied() {
                    let m = if b >= 64 { u64::MAX } else { (1u64 << b) - 1 };
                    for lead in [0usize, 2] {
                        let mut base_ops = pre.clone();
                        for n in 0..lead {
                            base_ops.push(Op { k, shape, fill: crate::fill::Fill::b(if n == 0 { 2 } else { 3 }) });
                        }
                        let before = t.reference(&c0, &base_ops).image.len() as u64;
                        let mut probe = base_ops.clone();
                        probe.push(Op { k, shape, fill: crate::fill::Fill::b(2) });
                        let after = t.reference(&c0, &probe).image.len() as u64;
                        let prev = crate::fill::Fill::b(if lead == 0 { 2 } else { 3 }).raw(i as u8, b);
                        for (name, val) in [("length before", before), ("length after", after), ("entry size", after.wrapping_sub(before)), ("body offset", before.wrapping_sub(36)), ("entries so far", base_ops.len() as u64), ("previous + 1", prev.wrapping_add(1)), ("previous - 1", prev.wrapping_sub(1)), ("previous", prev), ("length before, low byte", before & 0xff), ("minus length", 0u64.wrapping_sub(before))] {
                            let mut ops = base_ops.clone();
                            ops.push(Op { k, shape, fill: crate::fill::Fill::b(2).with(i as u8, val & m) });
                            ops.push(Op { k, shape, fill: crate::fill::Fill::b(1) });
                            progs.push((format!("{}[shape {} arg {} = {} ({:#x}) after {} entries]", kname, shape, i, name, val & m, lead), ops));
                        }
                    }
                }
            }
            for (i, _b) in wide.iter().copied() {
                for from in [0u64, 1] {
                    let mut ops = pre.clone();
                    let at = if from == 0 { 0 } else { ops.len() as u64 + 1 };
                    for n in 0..4u64 {
                        ops.push(Op { k, shape, fill: crate::fill::Fill::b(2).with(i as u8, at + n) });
                    }
                    progs.push((format!("{}[shape {} arg {} = position of the entry, from {}]", kname, shape, i, from), ops));
                }
            }
        }
    }
    if !progs.is_empty() {
        sink(progs);
    }
}

pub fn rule(p: P) -> &'static str {
    match p {
        P::C01 => "every prefix of every operation sequence up to the per-table depth and of every 0/1-deviation lane; non-trivial+distinct = distinct emitted images (by digest)",
        P::C02 => "same exploration as C01; distinct = distinct (header, length) digests",
        P::C03 => "same exploration; oracle = independent body walk + count fields; distinct = distinct images",
        P::C04 => "same exploration; oracle = byte equality with the spec-derived reference encoder; distinct = distinct images",
        P::C05 => "same exploration over the four handle-returning tables with every earlier handle offered to every reference-taking op; distinct = distinct images",
    }
}
pub const ASSUME: &[&str] = &[
    "argument values range over the fill patterns and, one argument at a time, over util::value_set (whole domain up to 8 bits, thorough 16; beyond: 0..=300 (4096), top of range, powers of two +-1, every byte lane x 6 (256) values x 3 backgrounds, common alignments) crossed with the enumerated arguments - not over all 2^32 / 2^64 values per field",
    "specification facts are those recorded in DESIGN.md 9.1 (table revision bytes pinned to the baseline)",
    "64-bit little-endian host",
];
