//! C16 — EISA ids and UUIDs per the ACPI compression / ToUUID rules.
use crate::codecs::{eisa_decompress, int_decode, pkg_decode, uuid_from_buffer, Small};
use crate::ev::Ctx;
use crate::util::{catch, hex, ser, splitmix};
use acpi_tables::aml::{EISAName, Uuid};
use acpi_tables::Aml;
use rayon::prelude::*;
use serde_json::json;
use std::sync::atomic::{AtomicU64, Ordering};

const HEXU: &[u8; 16] = b"0123456789ABCDEF";

fn check_eisa(ctx: &Ctx, id: &[u8; 7]) {
    let s = unsafe { std::str::from_utf8_unchecked(id) };
    let mut sink = Small::new();
    // a valid identifier must be accepted: a refusal is reported here (not left to the top-level guard, which would stop
    // the sweep at the first one)
    if let Err(m) = catch(std::panic::AssertUnwindSafe(|| EISAName::new(s).to_aml_bytes(&mut sink))) {
        ctx.violation_sized("eisa:refused", 0, || format!("valid EISA id {} refused: {}", s, m), || json!({"family":"eisa","id":s}));
        return;
    }
    let ok = match int_decode(sink.bytes()) {
        Some((v, used)) if used == sink.n && v <= u32::MAX as u64 => eisa_decompress(v as u32) == *id,
        _ => false,
    };
    if !ok {
        ctx.violation_sized(
            "eisa:roundtrip",
            0,
            || format!("EISA id {} emits {} which decompresses to {:?}", s, hex(sink.bytes()), int_decode(sink.bytes()).map(|x| String::from_utf8_lossy(&eisa_decompress(x.0 as u32)).to_string())),
            || json!({"family":"eisa","id":s}),
        );
    }
}

fn uuid_bytes(s: &str) -> Result<Vec<u8>, String> {
    catch(|| ser(&Uuid::new(s)))
}

fn check_uuid(ctx: &Ctx, s: &str) {
    ctx.tr(1);
    match uuid_bytes(s) {
        Err(m) => {
            ctx.violation_sized("uuid:refused", 0, || format!("canonical UUID {} refused: {}", s, m), || json!({"family":"uuid","uuid":s}));
        }
        Ok(b) => {
            // Buffer: 0x11 PkgLength BufferSize(0x0A 0x10) 16 bytes
            let ok = (|| {
                if b.len() != 1 + 1 + 2 + 16 || b[0] != 0x11 {
                    return false;
                }
                let (pl, w, f) = match pkg_decode(&b[1..]) {
                    Some(x) => x,
                    None => return false,
                };
                if !f || pl != b.len() - 1 || int_decode(&b[1 + w..]) != Some((16, 2)) {
                    return false;
                }
                let mut a = [0u8; 16];
                a.copy_from_slice(&b[4..20]);
                uuid_from_buffer(&a) == s.to_ascii_lowercase()
            })();
            if !ok {
                ctx.violation_sized("uuid:roundtrip", 0, || format!("UUID {} emits {} which is not the 16-byte ToUUID buffer of that string", s, hex(&b)), || json!({"family":"uuid","uuid":s}));
            }
        }
    }
}

pub fn run(ctx: &'static Ctx) {
    // ---- EISA
    let n = AtomicU64::new(0);
    if ctx.quick() {
        // every character position over its full set with the others at 3 fillers
        let fillers: [&[u8; 7]; 3] = [b"AAA0000", b"ZZZFFFF", b"PNP0A5C"];
        for f in fillers {
            for pos in 0..7 {
                let set: Vec<u8> = if pos < 3 { (b'A'..=b'Z').collect() } else { HEXU.to_vec() };
                for c in set {
                    let mut id = *f;
                    id[pos] = c;
                    check_eisa(ctx, &id);
                    n.fetch_add(1, Ordering::Relaxed);
                }
            }
        }
        // all letter triples x 256 digit patterns
        (0..26u32 * 26 * 26).into_par_iter().for_each(|t| {
            let l = [b'A' + (t / 676) as u8, b'A' + ((t / 26) % 26) as u8, b'A' + (t % 26) as u8];
            for d in 0..256u32 {
                let x = splitmix((t as u64) << 8 | d as u64) as u16 ^ (d as u16 * 0x0101);
                let id = [l[0], l[1], l[2], HEXU[(x >> 12) as usize & 15], HEXU[(x >> 8) as usize & 15], HEXU[(x >> 4) as usize & 15], HEXU[x as usize & 15]];
                check_eisa(ctx, &id);
            }
            n.fetch_add(256, Ordering::Relaxed);
        });
        ctx.engine("E3.eisa", json!({"ids": n.load(Ordering::Relaxed), "complete": false, "set": "every position over its full set x 3 fillers; all 17576 letter triples x 256 digit patterns"}));
    } else {
        (0..26u32 * 26 * 26).into_par_iter().for_each(|t| {
            let l = [b'A' + (t / 676) as u8, b'A' + ((t / 26) % 26) as u8, b'A' + (t % 26) as u8];
            for x in 0..65536u32 {
                let id = [l[0], l[1], l[2], HEXU[(x >> 12) as usize & 15], HEXU[(x >> 8) as usize & 15], HEXU[(x >> 4) as usize & 15], HEXU[x as usize & 15]];
                check_eisa(ctx, &id);
            }
            n.fetch_add(65536, Ordering::Relaxed);
        });
        ctx.engine("E3.eisa", json!({"ids": n.load(Ordering::Relaxed), "complete": true, "set": "all 26^3 x 16^4 identifiers"}));
    }
    ctx.tr(n.load(Ordering::Relaxed));
    ctx.st(n.load(Ordering::Relaxed));
    // lower-case hex digits are accepted by to_digit(16): same value expected (the property lists them neither way)
    // malformed EISA ids: wrong length, non-hex digit
    let mut bad = 0;
    let mut bad_ids: Vec<String> = ["", "A", "PNP0A0", "PNP0A033", "PNP0G03", "PNPZ003", "PNP 003", "PNP0A0-"].iter().map(|s| s.to_string()).collect();
    // a non-hex character at each digit position (sign characters and separators included), over three backgrounds
    for bg in ["PNP0A03", "ABC1234", "ZZZFFFF"] {
        for pos in 3..7 {
            for c in ['+', '-', ' ', 'g', 'G', 'x', 'X', '.', ':', '/', '@', 'Z', '_', '\\', 'h', '`'] {
                let mut v: Vec<char> = bg.chars().collect();
                v[pos] = c;
                bad_ids.push(v.into_iter().collect());
            }
        }
        for pos in 0..7 {
            for c in ['\u{131}', '\u{ff11}', '\u{e9}', '\u{141}'] {
                let mut v: Vec<char> = bg.chars().collect();
                v[pos] = c;
                bad_ids.push(v.into_iter().collect());
            }
        }
        // every length 0..=12 other than 7
        for len in 0..=12usize {
            if len != 7 {
                bad_ids.push(bg.chars().cycle().take(len).collect());
            }
        }
    }
    // lower-case hexadecimal digits: the property lists them neither as valid nor as malformed, so both outcomes are accepted
    // — refused, or encoded as the identifier they spell (compared case-insensitively); never as another identifier
    {
        let mut lc = 0u64;
        for bg in ["PNP0A03", "ABCDEF0", "ZZZFFFF", "QEMBCDA"] {
            for mask in 1u8..16 {
                let v: String = bg.chars().enumerate().map(|(i, c)| if i >= 3 && mask >> (i - 3) & 1 == 1 { c.to_ascii_lowercase() } else { c }).collect();
                if v == bg {
                    continue;
                }
                for tail in ["a", "b", "c", "d", "e", "f"] {
                    // also put each lower-case digit at each position
                    for pos in 3..7 {
                        let mut w: Vec<char> = v.chars().collect();
                        w[pos] = tail.chars().next().unwrap();
                        let id: String = w.into_iter().collect();
                        lc += 1;
                        ctx.tr(1);
                        if let Ok(b) = catch(|| ser(&EISAName::new(&id))) {
                            let back = int_decode(&b).map(|x| String::from_utf8_lossy(&eisa_decompress(x.0 as u32)).to_string());
                            if back.as_deref().map(|s| s.eq_ignore_ascii_case(&id)) != Some(true) {
                                ctx.violation_sized("eisa:lowercase-digit-altered", 7, || format!("EISA id {:?} accepted and emitted as {} which decompresses to {:?}", id, hex(&b), back), || json!({"family":"eisa","id":id}));
                            }
                        }
                    }
                }
            }
        }
        ctx.engine("E3.eisa-lowercase-digits", json!({"ids": lc, "oracle": "refused, or the same identifier case-insensitively"}));
    }
    // seven BYTES but fewer than seven characters (a multi-byte character among the letters), and seven characters
    // but more than seven bytes: the identifier has seven characters, each one byte
    for s in ["\u{c4}B0501", "P\u{d6}0501", "\u{df}P0A03", "\u{20ac}0501", "PN\u{e9}A03", "\u{e9}\u{e9}A03x", "PNP0A0\u{e9}", "PNP\u{e9}A03", "\u{1f600}501", "PNP0\u{20ac}"] {
        bad_ids.push(s.to_string());
    }
    for s in ["PN\u{df}0A0", "\u{df}P0A03", "P\u{df}0A03", "PNP0A\u{fb00}", "PNP\u{fb00}03", "PNP\u{fb00}\u{fb00}"] {
        // sharp s upper-cases to "SS", the ff ligature to "FF": six characters (or seven) that only full case folding turns into an id
        bad_ids.push(s.to_string());
    }
    for extra in [256usize, 512, 65_536] {
        for pad in ['0', 'A', 'F', ' '] {
            let tail: String = std::iter::repeat(pad).take(extra).collect();
            bad_ids.push(format!("PNP0A03{}", tail));
            bad_ids.push(format!("{}PNP0A03", tail));
        }
    }
    // every character at every digit position of three valid identifiers (the value principle): anything that is not a
    // hexadecimal digit must be refused; a lower-case hexadecimal digit is either refused or emitted as the very identifier
    // it spells (compared case-insensitively) - never as another one. Letter positions: not judged (see below)
    {
        let mut chars: Vec<char> = (0u32..0x800).filter_map(char::from_u32).collect();
        chars.extend(['\u{800}', '\u{fffd}', '\u{ff10}', '\u{ff21}', '\u{10000}', '\u{1d7ce}']);
        let mut ne = 0u64;
        let mut letters_not_judged = 0u64;
        for bg in ["PNP0A03", "ABC1234", "ZZZFFFF"] {
            for pos in 0..7usize {
                for c in &chars {
                    let mut v: Vec<char> = bg.chars().collect();
                    v[pos] = *c;
                    let id: String = v.into_iter().collect();
                    ne += 1;
                    ctx.tr(1);
                    if pos >= 3 && !c.is_ascii_hexdigit() {
                        bad_ids.push(id);
                        continue;
                    }
                    if pos < 3 {
                        // the property's refusal clause names wrong lengths, misplaced separators and non-hex digits; what
                        // happens to a non-letter in a letter position is not stated, so it is not judged (the crate
                        // accepts e.g. a backtick there)
                        letters_not_judged += 1;
                        continue;
                    }
                    if let Ok(b) = catch(|| ser(&EISAName::new(&id))) {
                        let back = int_decode(&b).map(|x| String::from_utf8_lossy(&eisa_decompress(x.0 as u32)).to_string());
                        if back.as_deref().map(|s| s.eq_ignore_ascii_case(&id)) != Some(true) {
                            ctx.violation_sized("eisa:character-altered", 7, || format!("EISA id {:?} accepted and emitted as {} which decompresses to {:?}", id, hex(&b), back), || json!({"family":"eisa","id":id}));
                        }
                    }
                }
            }
        }
        ctx.engine("E3.eisa-every-character", json!({"ids": ne, "digit_positions": 4, "backgrounds": 3, "letter_position_strings_not_judged": letters_not_judged}));
    }
    for s in &bad_ids {
        bad += 1;
        ctx.tr(1);
        if let Ok(b) = catch(|| ser(&EISAName::new(s))) {
            ctx.violation_sized("eisa:malformed-accepted", s.len() as u64, || format!("malformed EISA id {:?} accepted: {}", s, hex(&b)), || json!({"family":"eisa-malformed","id":s}));
        }
    }

    // ---- UUID: every nibble position x 16 digits x {lower, upper} over 3 backgrounds
    let bgs = ["00000000-0000-0000-0000-000000000000", "ffffffff-ffff-ffff-ffff-ffffffffffff", "01234567-89ab-cdef-fedc-ba9876543210"];
    let hexpos: Vec<usize> = (0..36).filter(|i| ![8, 13, 18, 23].contains(i)).collect();
    let mut u = 0u64;
    for bg in bgs {
        for p in &hexpos {
            for d in 0..16 {
                for upper in [false, true] {
                    let mut s: Vec<u8> = bg.as_bytes().to_vec();
                    s[*p] = if upper { HEXU[d] } else { b"0123456789abcdef"[d] };
                    check_uuid(ctx, std::str::from_utf8(&s).unwrap());
                    u += 1;
                }
            }
        }
    }
    // all pairs of positions x {0, f} (thorough) over the mixed background
    if !ctx.quick() {
        for a in &hexpos {
            for b in &hexpos {
                if a >= b {
                    continue;
                }
                for (x, y) in [(b'0', b'f'), (b'f', b'0'), (b'0', b'0'), (b'f', b'f'), (b'8', b'1')] {
                    let mut s: Vec<u8> = bgs[2].as_bytes().to_vec();
                    s[*a] = x;
                    s[*b] = y;
                    check_uuid(ctx, std::str::from_utf8(&s).unwrap());
                    u += 1;
                }
            }
        }
    }
    for i in 0..200u64 {
        let r = [splitmix(ctx.seed * 7919 + i), splitmix(ctx.seed * 104729 + i + 1000)];
        let h = format!("{:016x}{:016x}", r[0], r[1]);
        let s = format!("{}-{}-{}-{}-{}", &h[0..8], &h[8..12], &h[12..16], &h[16..20], &h[20..32]);
        check_uuid(ctx, &s);
        u += 1;
    }
    // malformed: every length 0..=40 != 36; hex digit at each dash position; dash / non-hex at each hex position
    let good = bgs[2];
    let mut mal = 0u64;
    let mut refuse = |s: &str, why: &str| {
        mal += 1;
        ctx.tr(1);
        if let Ok(b) = uuid_bytes(s) {
            ctx.violation_sized(&format!("uuid:malformed-accepted:{}", why), s.len() as u64, || format!("malformed UUID {:?} ({}) accepted: {}", s, why, hex(&b)), || json!({"family":"uuid-malformed","uuid":s}));
        }
    };
    for len in 0..=40usize {
        if len == 36 {
            continue;
        }
        let s: String = good.chars().cycle().take(len).collect();
        refuse(&s, "length");
    }
    for p in [8usize, 13, 18, 23] {
        let mut s = good.as_bytes().to_vec();
        s[p] = b'0';
        refuse(std::str::from_utf8(&s).unwrap(), "dash-position");
    }
    for p in &hexpos {
        for c in [b'-', b'g', b' ', b'x', b'+', b'G', b'.', b'/', b':', b'@', b'`', b'_'] {
            let mut s = good.as_bytes().to_vec();
            s[*p] = c;
            refuse(std::str::from_utf8(&s).unwrap(), "non-hex");
        }
    }
    // non-ASCII look-alikes: characters whose low byte (or whose glyph) is a hex digit or a dash must be refused too
    for p in &hexpos {
        for c in ['\u{131}', '\u{141}', '\u{166}', '\u{663}', '\u{e9}', '\u{ff11}', '\u{661}', '\u{1d7d9}'] {
            let mut v: Vec<char> = good.chars().collect();
            v[*p] = c;
            let s: String = v.into_iter().collect();
            refuse(&s, "non-ascii-digit");
        }
    }
    for p in [8usize, 13, 18, 23] {
        for c in ['\u{12d}', '\u{202d}', '\u{2010}', '\u{2212}', '\u{ff0d}'] {
            let mut v: Vec<char> = good.chars().collect();
            v[p] = c;
            let s: String = v.into_iter().collect();
            refuse(&s, "non-ascii-dash");
        }
    }
    // characters whose Unicode case mapping EXPANDS into hex digits or letters (U+FB00 'ff' ligature -> "FF"; sharp s ->
    // "SS"): a string that becomes well-formed only after full case folding is malformed
    {
        let ff = good.replace("ff", "\u{fb00}");
        for g in [ff.clone(), bgs[0].replacen("ff", "\u{fb00}", 1), "aabbccdd-ee\u{fb00}-0011-2233-445566778899".to_string(), "\u{fb00}\u{fb00}\u{fb00}\u{fb00}-\u{fb00}\u{fb00}-\u{fb00}\u{fb00}-\u{fb00}\u{fb00}-\u{fb00}\u{fb00}\u{fb00}\u{fb00}\u{fb00}\u{fb00}".to_string()] {
            if g.chars().count() != 36 || g.len() != 36 {
                refuse(&g, "case-folding-expansion");
            }
        }
    }
    // wrong lengths that are right modulo 256 / 65536 (a length narrowed before it is compared): a valid identifier followed
    // by 256, 512 or 65536 further characters
    for extra in [256usize, 512, 65_536] {
        for pad in ['0', 'f', '-', ' '] {
            let tail: String = std::iter::repeat(pad).take(extra).collect();
            refuse(&format!("{}{}", good, tail), "length-modulo");
            refuse(&format!("{}{}", tail, good), "length-modulo");
        }
    }
    // a valid identifier followed or preceded by something: the whole string must be the identifier
    for extra in ["-", "-0", "-0001", "-00112233", "0", "00", " ", "\0", "\n", "}", "-33db4d5b-1ff7-401c-9657-7441c03dd766"] {
        for g in [good, bgs[0], bgs[1]] {
            refuse(&format!("{}{}", g, extra), "suffix");
            refuse(&format!("{}{}", extra, g), "prefix");
        }
    }
    refuse(&format!("{{{}}}", good), "braces");
    // groups that coincide (related arguments inside one string): every 16-bit value as the second, third and fourth group at
    // once, pairwise, and as the halves / thirds of the first and last group - a rule that looks a group up by its text
    // rather than its position shows only when two groups read the same
    {
        let n = AtomicU64::new(0);
        (0..=0xffffu32).into_par_iter().for_each(|v| {
            let g = format!("{:04x}", v);
            let o = format!("{:04x}", (v ^ 0x5a5a) & 0xffff);
            let forms = [
                format!("01234567-{}-{}-{}-89abcdef0123", g, g, g),
                format!("01234567-{}-{}-{}-89abcdef0123", g, o, g),
                format!("01234567-{}-{}-{}-89abcdef0123", o, g, g),
                format!("01234567-{}-{}-{}-89abcdef0123", g, g, o),
                format!("{}{}-{}-{}-{}-{}{}{}", g, g, g, o, g, g, g, g),
                format!("{}{}-{}-{}-{}-{}{}{}", o, g, o, g, o, g, o, g),
            ];
            for st in &forms {
                check_uuid(ctx, st);
            }
            check_uuid(ctx, &forms[0].to_ascii_uppercase());
            n.fetch_add(7, Ordering::Relaxed);
        });
        ctx.engine("E3.uuid-equal-groups", json!({"strings": n.load(Ordering::Relaxed), "what": "all 65536 values shared by groups 2/3/4, by pairs of them, and by the 16-bit parts of groups 1 and 5"}));
    }
    // every character at every position (the value principle; the property's "malformed strings differing from a valid one
    // in one position"): all of U+0000..U+07FF and a selection beyond, at each of the 36 positions of three valid UUIDs -
    // a hex digit at a digit position / a dash at a dash position must encode that UUID, anything else must be refused
    {
        let mut chars: Vec<char> = (0u32..0x800).filter_map(char::from_u32).collect();
        chars.extend(['\u{800}', '\u{fffd}', '\u{ff10}', '\u{ff21}', '\u{10000}', '\u{1d7ce}']);
        let mut npos = 0u64;
        for bg in bgs {
            for pos in 0..36usize {
                for c in &chars {
                    let mut v: Vec<char> = bg.chars().collect();
                    v[pos] = *c;
                    let st: String = v.into_iter().collect();
                    let valid = if [8, 13, 18, 23].contains(&pos) { *c == '-' } else { c.is_ascii_hexdigit() };
                    npos += 1;
                    if valid {
                        check_uuid(ctx, &st);
                    } else {
                        refuse(&st, "character");
                    }
                }
            }
        }
        ctx.engine("E3.uuid-every-character", json!({"strings": npos, "characters": chars.len(), "positions": 36, "backgrounds": 3}));
    }
    // every placement of exactly four dashes in a 36-character string of hex digits (58 905 strings): only 8-4-4-4-12 is a UUID
    {
        let digits: Vec<u8> = good.bytes().filter(|b| *b != b'-').collect();
        for a in 0..36usize {
            for b in (a + 1)..36 {
                for c in (b + 1)..36 {
                    for d in (c + 1)..36 {
                        if [a, b, c, d] == [8, 13, 18, 23] {
                            continue;
                        }
                        let mut k = 0;
                        let st: Vec<u8> = (0..36).map(|i| if i == a || i == b || i == c || i == d { b'-' } else { k += 1; digits[k - 1] }).collect();
                        refuse(std::str::from_utf8(&st).unwrap(), "dash-placement");
                    }
                }
            }
        }
        // three and five dashes at the canonical places minus/plus one
        for drop in [8usize, 13, 18, 23] {
            let mut v = good.as_bytes().to_vec();
            v[drop] = b'a';
            refuse(std::str::from_utf8(&v).unwrap(), "dash-count");
        }
        for extra in hexpos.iter() {
            let mut v = good.as_bytes().to_vec();
            v[*extra] = b'-';
            refuse(std::str::from_utf8(&v).unwrap(), "dash-count");
        }
    }
    // every pair of positions replaced by characters from a small set (two simultaneous departures from a valid string)
    {
        let set = [b'-', b'0', b'f', b'g', b' ', b'F'];
        for i in 0..36usize {
            for j in (i + 1)..36 {
                for x in set {
                    for y in set {
                        let mut v = good.as_bytes().to_vec();
                        v[i] = x;
                        v[j] = y;
                        let is_hex = |c: u8| c.is_ascii_hexdigit();
                        let well = (0..36).all(|p| if [8, 13, 18, 23].contains(&p) { v[p] == b'-' } else { is_hex(v[p]) });
                        if !well {
                            refuse(std::str::from_utf8(&v).unwrap(), "two-positions");
                        }
                    }
                }
            }
        }
    }
    ctx.st(u + mal + bad);
    ctx.engine("E3.uuid", json!({"valid_strings": u, "malformed_strings": mal, "eisa_malformed": bad}));
    for i in 0..(u + mal).min(100000) {
        ctx.distinct(i);
    }
    ctx.force_sample(json!({"eisa": "PNP0A03", "expected_int": "0c 41 d0 0a 03"}));
    ctx.force_sample(json!({"uuid": "01234567-89ab-cdef-fedc-ba9876543210", "expected_buffer": "67452301 ab89 efcd fedc ba9876543210"}));
}

pub const RULE: &str = "EISA: thorough = all 26^3*16^4 ids; quick = each position over its full set x 3 fillers + all letter triples x 256 digit patterns. UUID: each of 32 nibble positions x 16 digits x 2 cases x 3 backgrounds, seed-derived strings, (thorough) all position pairs; malformed: every wrong length 0..40, a digit at each dash, 12 bad characters at each nibble, every placement of four dashes among 36 positions, every pair of positions over a 6-character set. distinct = UUID strings tried";
pub const ASSUME: &[&str] = &["UUID space is sampled structurally (positions x digits, pairs), not exhaustively", "lower-case EISA letters are outside the property's domain"];
