//! C18 — counts and sizes too large for their field are refused, never wrapped.
//! Enumeration over sites x {at maximum, maximum+1, far beyond} x {release, overflow-checked} builds.
//! The checked leg is the same binary built with `--profile checked`, run as a child process.
use crate::aml::parse::{parse_all, N};
use crate::codecs::name_decode;
use crate::ev::Ctx;
use crate::fill::Ctor;
use crate::tables::{self, Table};
use crate::util::{catch, hex, rd16, rd32, ser, sum8};
use acpi_tables::aml::*;
use acpi_tables::{cedt, hmat, pptt, rhct, rimt, rqsc, slit, viot, Aml};
use serde_json::{json, Value};

pub struct Site {
    pub name: &'static str,
    pub max: u64,
    /// inputs that fit the field (must be accepted with consistent bytes) and inputs that do not (must panic)
    pub accept: Vec<u64>,
    pub reject: Vec<u64>,
    pub build: Box<dyn Fn(u64) -> Vec<u8> + Send + Sync>,
    /// framing oracle applied to returned bytes
    pub frame: Box<dyn Fn(&[u8], u64) -> Result<(), String> + Send + Sync>,
    pub heavy: bool,
}

fn c() -> Ctor {
    Ctor::new(2, 0, 2)
}
fn walk_ok(t: &dyn Table, img: &[u8]) -> Result<(), String> {
    if sum8(img) != 0 {
        return Err(format!("image sums to {}", sum8(img)));
    }
    if rd32(img, 4) as usize != img.len() {
        return Err(format!("Length field {} but {} bytes emitted", rd32(img, 4), img.len()));
    }
    let e = t.walk(img)?;
    t.counts(img, &e)
}
/// the image a table would have after appending `element` to `prefix` (a serialised table): bytes concatenated, Length and
/// the entry count (a 4-byte field at `count_at`, when the table has one) advanced, checksum recomputed. Lets an element
/// that is serialisable on its own be judged by the table's walker without going through the table's `add_*` (and its guards).
fn framed(prefix: Vec<u8>, element: Vec<u8>, count_at: Option<usize>) -> Vec<u8> {
    let mut img = prefix;
    img.extend_from_slice(&element);
    let l = img.len() as u32;
    img[4..8].copy_from_slice(&l.to_le_bytes());
    if let Some(o) = count_at {
        let n = rd32(&img, o) + 1;
        img[o..o + 4].copy_from_slice(&n.to_le_bytes());
    }
    img[9] = 0;
    img[9] = 0u8.wrapping_sub(sum8(&img));
    img
}
fn parse_one(b: &[u8]) -> Result<N, String> {
    let v = parse_all(b, &[])?;
    if v.len() != 1 {
        return Err(format!("parsed into {} objects", v.len()));
    }
    Ok(v.into_iter().next().unwrap())
}

pub fn sites(thorough: bool) -> Vec<Site> {
    let mut v: Vec<Site> = vec![];
    let mut add = |name: &'static str, max: u64, beyond: &[u64], heavy: bool, build: Box<dyn Fn(u64) -> Vec<u8> + Send + Sync>, frame: Box<dyn Fn(&[u8], u64) -> Result<(), String> + Send + Sync>| {
        // `max` = largest input known to fit; `beyond` = inputs that do not fit (the first is the smallest such)
        let accept = if max == u64::MAX { vec![] } else { vec![max.saturating_sub(1), max] };
        v.push(Site { name, max, accept, reject: beyond.to_vec(), build, frame, heavy });
    };
    // ---- AML
    add(
        "Path segments (1-byte SegCount)",
        255,
        &[256, 257, 511, 70_000],
        false,
        Box::new(|n| {
            let s: Vec<String> = (0..n).map(|i| format!("S{:03}", i % 1000)).collect();
            ser(&Path::new(&s.join(".")))
        }),
        Box::new(|b, n| match name_decode(b) {
            Some((ns, used)) if used == b.len() && ns.segs.len() as u64 == n => Ok(()),
            other => Err(format!("NameString decodes to {:?} segments over {:?} of {} bytes", other.as_ref().map(|x| x.0.segs.len()), other.as_ref().map(|x| x.1), b.len())),
        }),
    );
    for builder in [false, true] {
        add(
            if builder { "PackageBuilder elements (1-byte NumElements)" } else { "Package elements (1-byte NumElements)" },
            255,
            &[256, 257, 512, 65_536],
            false,
            Box::new(move |n| {
                if builder {
                    let mut p = PackageBuilder::new();
                    for _ in 0..n {
                        p.add_element(&ONE);
                    }
                    ser(&p)
                } else {
                    let kids: Vec<&dyn Aml> = (0..n).map(|_| &ONE as &dyn Aml).collect();
                    ser(&Package::new(kids))
                }
            }),
            Box::new(|b, n| match parse_one(b)? {
                N::Package(cnt, el) if cnt as u64 == n && el.len() as u64 == n => Ok(()),
                N::Package(cnt, el) => Err(format!("NumElements byte {} but {} elements follow ({} given)", cnt, el.len(), n)),
                o => Err(format!("not a package: {:?}", o)),
            }),
        );
    }
    // the same limit when most elements emit no bytes at all (the body stays tiny while the count overflows): ten One
    // elements, the rest empty
    for builder in [false, true] {
        add(
            if builder { "PackageBuilder elements, mostly empty ones (1-byte NumElements)" } else { "Package elements, mostly empty ones (1-byte NumElements)" },
            255,
            &[256, 257, 260, 512],
            false,
            Box::new(move |n| {
                struct Nothing;
                impl Aml for Nothing {
                    fn to_aml_bytes(&self, _s: &mut dyn acpi_tables::AmlSink) {}
                }
                let nothing = Nothing;
                let pick = |i: u64| -> &dyn Aml { if i % 26 == 0 && i < 260 { &ONE } else { &nothing } };
                if builder {
                    let mut p = PackageBuilder::new();
                    for i in 0..n {
                        p.add_element(pick(i));
                    }
                    ser(&p)
                } else {
                    let kids: Vec<&dyn Aml> = (0..n).map(pick).collect();
                    ser(&Package::new(kids))
                }
            }),
            Box::new(|b, n| {
                // 12 PkgLength NumElements then the One bytes
                if b.len() < 3 || b[0] != 0x12 {
                    return Err(format!("not a package: {}", crate::util::hex(&b[..b.len().min(8)])));
                }
                let (pl, w, _) = crate::codecs::pkg_decode(&b[1..]).ok_or("bad PkgLength")?;
                if pl != b.len() - 1 {
                    return Err(format!("PkgLength {} but {} bytes follow the opcode", pl, b.len() - 1));
                }
                if b[1 + w] as u64 != n {
                    return Err(format!("NumElements byte {} for {} elements", b[1 + w], n));
                }
                Ok(())
            }),
        );
    }
    // every argument count 0..=255 with both values of the co-argument that shares the MethodFlags byte
    for serialized in [false, true] {
        let reject: Vec<u64> = (8..=255).collect();
        add(
            if serialized { "Method argument count (3-bit ArgCount), serialized" } else { "Method argument count (3-bit ArgCount)" },
            7,
            &reject,
            false,
            Box::new(move |n| ser(&Method::new("MTH0".into(), n as u8, serialized, vec![]))),
            Box::new(move |b, n| match parse_one(b)? {
                N::Method(_, flags, _) if (flags & 7) as u64 == n && flags & 0xf0 == 0 && (flags & 8 != 0) == serialized => Ok(()),
                N::Method(_, flags, _) => Err(format!("MethodFlags {:#04x}: ArgCount {} for {} arguments given (serialized {})", flags, flags & 7, n, serialized)),
                o => Err(format!("not a method: {:?}", o)),
            }),
        );
    }
    add(
        "Field unit width (PkgLength, 28 bits)",
        (1 << 28) - 1,
        &[1 << 28, (1 << 28) + 1, 1 << 32, 1 << 40],
        false,
        Box::new(|n| ser(&Field::new("FLD0".into(), FieldAccessType::Any, FieldLockRule::NoLock, FieldUpdateRule::Preserve, vec![FieldEntry::Reserved(n as usize)]))),
        Box::new(|b, n| match parse_one(b)? {
            N::Field(_, _, es) if es == vec![crate::aml::parse::FE::Reserved(n as usize)] => Ok(()),
            o => Err(format!("field list decodes to {:?}", o)),
        }),
    );
    // address spaces: range size must fit the width; n encodes (min, max) cases
    macro_rules! aspace {
        ($t:ty, $name:expr) => {
            add(
                $name,
                1,
                &[2, 3, 4],
                false,
                Box::new(|n| {
                    let (min, max): ($t, $t) = match n {
                        0 => (0, <$t>::MAX - 1),      // size = MAX: representable
                        1 => (1, <$t>::MAX),          // size = MAX: representable
                        2 => (0, <$t>::MAX),          // size = MAX+1: overflows the width
                        3 => (10, 9),                 // min > max
                        _ => (<$t>::MAX, 0),          // min > max, far
                    };
                    ser(&AddressSpace::<$t>::new_io(min, max, None))
                }),
                Box::new(|b, n| {
                    let w = std::mem::size_of::<$t>();
                    if b.len() != 6 + 5 * w {
                        return Err(format!("descriptor has {} bytes", b.len()));
                    }
                    let rd = |o: usize| -> u128 { let mut x = 0u128; for i in 0..w { x |= (b[o + i] as u128) << (8 * i); } x };
                    let (min, max, len) = (rd(6 + w), rd(6 + 2 * w), rd(6 + 4 * w));
                    if max < min || len != max - min + 1 {
                        return Err(format!("case {}: min {:#x} max {:#x} but length field {:#x}", n, min, max, len));
                    }
                    Ok(())
                }),
            );
        };
    }
    // the same refusals must not depend on the translation offset handed over with the range (related arguments: offsets
    // that make min + translation wrap while max + translation does not, and the other way round; and util::value_set)
    macro_rules! aspace_tr {
        ($t:ty, $name:expr, $bits:expr) => {{
            fn cases() -> Vec<($t, $t, Option<$t>)> {
                let m = <$t>::MAX;
                let mut v: Vec<($t, $t, Option<$t>)> = vec![(0x10, 0x1f, Some(0x100)), (0x10, 0x1f, Some(m - 0x0f))];
                for (min, max) in [(10 as $t, 9 as $t), (0x2000, 0x1000), (m, 0), (m, m - 1), (1, 0), ((m >> 1) + 1, m >> 1), (0, m)] {
                    let mut trs: Vec<$t> = vec![0, 1];
                    for base in [min, max, min / 2 + max / 2] {
                        for d in [0 as $t, 1, 2] {
                            trs.push((0 as $t).wrapping_sub(base).wrapping_add(d));
                            trs.push((0 as $t).wrapping_sub(base).wrapping_sub(d));
                        }
                    }
                    trs.push(max.wrapping_sub(min));
                    trs.push(min.wrapping_sub(max));
                    trs.extend(crate::util::value_set($bits, 0x0807_0605_0403_0201u64 & (m as u64), true).into_iter().map(|x| x as $t));
                    trs.sort();
                    trs.dedup();
                    for t in trs {
                        v.push((min, max, Some(t)));
                    }
                }
                v
            }
            let n = cases().len() as u64;
            let reject: Vec<u64> = (2..n).collect();
            for kind in 0..3u8 {
                add(
                    match kind { 0 => concat!($name, " (io)"), 1 => concat!($name, " (memory)"), _ => concat!($name, " (bus number)") },
                    1,
                    &reject,
                    false,
                    Box::new(move |i| {
                        let (min, max, tr) = cases()[i as usize];
                        match kind {
                            0 => ser(&AddressSpace::<$t>::new_io(min, max, tr)),
                            1 => ser(&AddressSpace::<$t>::new_memory(AddressSpaceCacheable::NotCacheable, true, min, max, tr)),
                            _ => ser(&AddressSpace::<$t>::new_bus_number(min, max)),
                        }
                    }),
                    Box::new(|b, i| {
                        let w = std::mem::size_of::<$t>();
                        if b.len() != 6 + 5 * w {
                            return Err(format!("descriptor has {} bytes", b.len()));
                        }
                        let rd = |o: usize| -> u128 { let mut x = 0u128; for k in 0..w { x |= (b[o + k] as u128) << (8 * k); } x };
                        let (min, max, len) = (rd(6 + w), rd(6 + 2 * w), rd(6 + 4 * w));
                        if max < min || len != max - min + 1 {
                            return Err(format!("case {:?}: min {:#x} max {:#x} but length field {:#x}", cases()[i as usize], min, max, len));
                        }
                        Ok(())
                    }),
                );
            }
        }};
    }
    aspace_tr!(u16, "Word address space, unrepresentable range with a translation", 16);
    aspace_tr!(u32, "DWord address space, unrepresentable range with a translation", 32);
    aspace_tr!(u64, "QWord address space, unrepresentable range with a translation", 64);
    aspace!(u16, "Word address space range size");
    aspace!(u32, "DWord address space range size");
    aspace!(u64, "QWord address space range size");
    // ---- PPTT processor node: 1-byte length = 20 + 4 * resources
    add(
        "PPTT processor private resources (1-byte node length)",
        58,
        &[59, 60, 122, 1000],
        false,
        Box::new(|n| {
            let mut t = pptt::PPTT::new(c().oem_id(), c().oem_table_id(), c().oem_rev());
            let h = t.add_cache(pptt::CacheNodeBuilder::default().to_node());
            let mut p = pptt::ProcessorNode::new(None, 1);
            for _ in 0..n {
                p = p.add_cache(&h);
            }
            t.add_processor(p);
            ser(&t)
        }),
        Box::new(|b, _| walk_ok(&tables::topo::Pptt, b)),
    );
    // ---- CEDT CXIMS: 1-byte bitmap count, 2-byte record length (8 + 8n)
    add(
        "CEDT CXIMS xormaps (1-byte count)",
        255,
        &[256, 257, 8191, 8192, 70_000],
        false,
        Box::new(|n| {
            let mut t = cedt::CEDT::new(c().oem_id(), c().oem_table_id(), c().oem_rev());
            let mut x = cedt::XorInterleaveMath::new(cedt::InterleaveGranularity::Granularity256b);
            for i in 0..n {
                x.add_xormap(i);
            }
            t.add_xor_interleave_math(x);
            ser(&t)
        }),
        Box::new(|b, _| walk_ok(&tables::cedt_hest::Cedt, b)),
    );
    // ---- HMAT memory side cache: 2-byte SMBIOS handle count
    add(
        "HMAT side-cache SMBIOS handles (2-byte count)",
        65_535,
        &[65_536, 65_537, 131_072],
        false,
        Box::new(|n| {
            let mut t = hmat::HMAT::new(c().oem_id(), c().oem_table_id(), c().oem_rev());
            let mut m = hmat::MemorySideCache::new(1, 2, hmat::CacheLevel::One, hmat::CacheLevel::One, hmat::Associativity::None, hmat::WritePolicy::None, 64);
            for i in 0..n {
                m.add_smbios_handle(i as u16);
            }
            t.add_memory_side_cache(m);
            ser(&t)
        }),
        Box::new(|b, _| walk_ok(&tables::numa::Hmat, b)),
    );
    // ---- the same limits for elements serialised ON THEIR OWN (every element type is `Aml` and public): the count field
    // lives in the element, so the element refuses or encodes faithfully whether or not a table's add_* ever sees it. The
    // element's bytes are framed into the table image the corresponding add_* would produce and judged by the same walker.
    add(
        "HMAT side-cache SMBIOS handles, structure serialised on its own (2-byte count)",
        65_535,
        &[65_536, 65_537, 131_072],
        false,
        Box::new(|n| {
            let t = hmat::HMAT::new(c().oem_id(), c().oem_table_id(), c().oem_rev());
            let mut m = hmat::MemorySideCache::new(1, 2, hmat::CacheLevel::One, hmat::CacheLevel::One, hmat::Associativity::None, hmat::WritePolicy::None, 64);
            for i in 0..n {
                m.add_smbios_handle((i % 48) as u16 + 7);
            }
            let e = ser(&m);
            framed(ser(&t), e, None)
        }),
        Box::new(|b, _| walk_ok(&tables::numa::Hmat, b)),
    );
    add(
        "CEDT CXIMS xormaps, structure serialised on its own (1-byte count)",
        255,
        &[256, 257, 8191, 8192, 70_000],
        false,
        Box::new(|n| {
            let t = cedt::CEDT::new(c().oem_id(), c().oem_table_id(), c().oem_rev());
            let mut x = cedt::XorInterleaveMath::new(cedt::InterleaveGranularity::Granularity256b);
            for i in 0..n {
                x.add_xormap(i);
            }
            let e = ser(&x);
            framed(ser(&t), e, None)
        }),
        Box::new(|b, _| walk_ok(&tables::cedt_hest::Cedt, b)),
    );
    add(
        "PPTT processor private resources, node serialised on its own (1-byte node length)",
        58,
        &[59, 60, 122, 1000],
        false,
        Box::new(|n| {
            let mut t = pptt::PPTT::new(c().oem_id(), c().oem_table_id(), c().oem_rev());
            let h = t.add_cache(pptt::CacheNodeBuilder::default().to_node());
            let mut p = pptt::ProcessorNode::new(None, 1);
            for _ in 0..n {
                p = p.add_cache(&h);
            }
            let e = ser(&p);
            framed(ser(&t), e, None)
        }),
        Box::new(|b, _| walk_ok(&tables::topo::Pptt, b)),
    );
    add(
        "RIMT IOMMU interrupt wires, node serialised on its own (2-byte node length: 32 + 8n)",
        8187,
        &[8188, 8189, 8192, 65_536],
        false,
        Box::new(|n| {
            let t = rimt::RIMT::new(c().oem_id(), c().oem_table_id(), c().oem_rev());
            let w = (0..n).map(|i| rimt::InterruptWire::new(i as u32, true, false, 1)).collect();
            let e = ser(&rimt::Iommu::new(1, None, None, None, Some(w)));
            framed(ser(&t), e, Some(36))
        }),
        Box::new(|b, _| walk_ok(&tables::topo::Rimt, b)),
    );
    add(
        "RIMT root complex id mappings, node serialised on its own (2-byte node length: 16 + 20n)",
        3275,
        &[3276, 3277, 3300, 65_536],
        false,
        Box::new(|n| {
            let mut t = rimt::RIMT::new(c().oem_id(), c().oem_table_id(), c().oem_rev());
            let h = t.add_iommu(rimt::Iommu::new(1, None, None, None, None));
            let m = (0..n).map(|i| rimt::IdMapping::new(i as u32, 0, 1, h, false, false, false)).collect();
            let e = ser(&rimt::PcieRootComplex::new(2, 0, false, false, Some(m)));
            framed(ser(&t), e, Some(36))
        }),
        Box::new(|b, _| walk_ok(&tables::topo::Rimt, b)),
    );
    add(
        "RIMT platform device name, node serialised on its own (2-byte node length / mapping offset: 13 + len)",
        65_522,
        &[65_523, 65_524, 65_536, 70_000],
        false,
        Box::new(|n| {
            let t = rimt::RIMT::new(c().oem_id(), c().oem_table_id(), c().oem_rev());
            let e = ser(&rimt::Platform::new(3, "N".repeat(n as usize), None));
            framed(ser(&t), e, Some(36))
        }),
        Box::new(|b, _| walk_ok(&tables::topo::Rimt, b)),
    );
    add(
        "RHCT ISA string length, node serialised on its own (2-byte node length)",
        65_525,
        &[65_526, 65_528, 65_535, 65_536, 70_000],
        false,
        Box::new(|n| {
            let s: &'static str = Box::leak("r".repeat(n as usize).into_boxed_str());
            let t = rhct::RHCT::new(c().oem_id(), c().oem_table_id(), c().oem_rev(), 1);
            let e = ser(&rhct::IsaStringNode::new(s));
            framed(ser(&t), e, Some(48))
        }),
        Box::new(|b, _| walk_ok(&tables::topo::Rhct, b)),
    );
    // the same count limits with REPEATED element values (a guard must count elements, not distinct elements)
    for period in [1u64, 48] {
        add(
            Box::leak(format!("HMAT side-cache SMBIOS handles, values repeating with period {} (2-byte count)", period).into_boxed_str()),
            65_535,
            &[65_536, 65_537, 72_000, 131_072],
            false,
            Box::new(move |n| {
                let mut t = hmat::HMAT::new(c().oem_id(), c().oem_table_id(), c().oem_rev());
                let mut m = hmat::MemorySideCache::new(1, 2, hmat::CacheLevel::One, hmat::CacheLevel::One, hmat::Associativity::None, hmat::WritePolicy::None, 64);
                for i in 0..n {
                    m.add_smbios_handle((i % period) as u16 + 7);
                }
                t.add_memory_side_cache(m);
                ser(&t)
            }),
            Box::new(|b, _| walk_ok(&tables::numa::Hmat, b)),
        );
        add(
            Box::leak(format!("RIMT root complex id mappings, identical up to period {} (2-byte node length: 16 + 20n)", period).into_boxed_str()),
            3275,
            &[3276, 3277, 3300, 65_536],
            false,
            Box::new(move |n| {
                let mut t = rimt::RIMT::new(c().oem_id(), c().oem_table_id(), c().oem_rev());
                let h = t.add_iommu(rimt::Iommu::new(1, None, None, None, None));
                let m = (0..n).map(|i| rimt::IdMapping::new((i % period) as u32, 0, 1, h, false, false, false)).collect();
                t.add_pcie_root_complex(rimt::PcieRootComplex::new(2, 0, false, false, Some(m)));
                ser(&t)
            }),
            Box::new(|b, _| walk_ok(&tables::topo::Rimt, b)),
        );
        add(
            Box::leak(format!("RIMT IOMMU interrupt wires, identical up to period {} (2-byte node length: 32 + 8n)", period).into_boxed_str()),
            8187,
            &[8188, 8189, 8192, 65_536],
            false,
            Box::new(move |n| {
                let mut t = rimt::RIMT::new(c().oem_id(), c().oem_table_id(), c().oem_rev());
                let w = (0..n).map(|i| rimt::InterruptWire::new((i % period) as u32, true, false, 1)).collect();
                t.add_iommu(rimt::Iommu::new(1, None, None, None, Some(w)));
                ser(&t)
            }),
            Box::new(|b, _| walk_ok(&tables::topo::Rimt, b)),
        );
    }
    // ---- RIMT: 2-byte node length, 2-byte element counts, 2-byte mapping-array offset
    add(
        "RIMT IOMMU interrupt wires (2-byte node length: 32 + 8n)",
        8187,
        &[8188, 8189, 8192, 65_536],
        false,
        Box::new(|n| {
            let mut t = rimt::RIMT::new(c().oem_id(), c().oem_table_id(), c().oem_rev());
            let w = (0..n).map(|i| rimt::InterruptWire::new(i as u32, true, false, 1)).collect();
            t.add_iommu(rimt::Iommu::new(1, None, None, None, Some(w)));
            ser(&t)
        }),
        Box::new(|b, _| walk_ok(&tables::topo::Rimt, b)),
    );
    add(
        "RIMT root complex id mappings (2-byte node length: 16 + 20n)",
        3275,
        &[3276, 3277, 3300, 65_536],
        false,
        Box::new(|n| {
            let mut t = rimt::RIMT::new(c().oem_id(), c().oem_table_id(), c().oem_rev());
            let h = t.add_iommu(rimt::Iommu::new(1, None, None, None, None));
            let m = (0..n).map(|i| rimt::IdMapping::new(i as u32, 0, 1, h, false, false, false)).collect();
            t.add_pcie_root_complex(rimt::PcieRootComplex::new(2, 0, false, false, Some(m)));
            ser(&t)
        }),
        Box::new(|b, _| walk_ok(&tables::topo::Rimt, b)),
    );
    add(
        "RIMT platform device name (2-byte node length / mapping offset: 13 + len)",
        65_522,
        &[65_523, 65_524, 65_536, 70_000],
        false,
        Box::new(|n| {
            let mut t = rimt::RIMT::new(c().oem_id(), c().oem_table_id(), c().oem_rev());
            t.add_platform(rimt::Platform::new(3, "N".repeat(n as usize), None));
            ser(&t)
        }),
        Box::new(|b, _| walk_ok(&tables::topo::Rimt, b)),
    );
    // ---- VIOT: 2-byte offset cursor (handles) and 2-byte node count
    add(
        "VIOT handle offset cursor (2-byte offsets: 48 + 16k; accepted inputs keep the whole table below 64 KiB)",
        4089,
        &[4093, 4094, 4100, 8200],
        false,
        Box::new(|n| {
            let mut t = viot::VIOT::new(c().oem_id(), c().oem_table_id(), c().oem_rev());
            let mut last = None;
            for i in 0..=n {
                last = Some(t.add_virtio_mmio_iommu(viot::VirtIoMmioIommu::new(i)));
            }
            // an endpoint referencing the last IOMMU: its output-node field must be that node's offset
            t.add_mmio_endpoint(viot::MmioEndpoint::new(1, 2, &last.unwrap()));
            ser(&t)
        }),
        Box::new(|b, n| {
            walk_ok(&tables::topo::Viot, b)?;
            let ep = b.len() - 24;
            let want = 48 + 16 * n;
            let got = rd16(b, ep + 16) as u64;
            if got != want {
                return Err(format!("endpoint's output node field is {} but the IOMMU it was built from starts at {}", got, want));
            }
            Ok(())
        }),
    );
    for pci in [false, true] {
        add(
            if pci { "VIOT offsets when PCI ranges precede a later IOMMU (48 + 16 + 24n)" } else { "VIOT offsets when MMIO endpoints precede a later IOMMU (48 + 16 + 24n)" },
            2726,
            &[2730, 2731, 2740, 5500],
            false,
            Box::new(move |n| {
                let mut t = viot::VIOT::new(c().oem_id(), c().oem_table_id(), c().oem_rev());
                let first = t.add_virtio_mmio_iommu(viot::VirtIoMmioIommu::new(1));
                for i in 0..n {
                    if pci {
                        t.add_pci_range(viot::PciRange::new(viot::PciDevice::new(0, 0, 0, 0), viot::PciDevice::new(0, 1, 0, 0), &first));
                    } else {
                        t.add_mmio_endpoint(viot::MmioEndpoint::new(i as u32, i, &first));
                    }
                }
                let second = t.add_virtio_mmio_iommu(viot::VirtIoMmioIommu::new(2));
                t.add_mmio_endpoint(viot::MmioEndpoint::new(7, 8, &second));
                ser(&t)
            }),
            Box::new(|b, n| {
                walk_ok(&tables::topo::Viot, b)?;
                let ep = b.len() - 24;
                let want = 48 + 16 + 24 * n;
                let got = rd16(b, ep + 16) as u64;
                if got != want {
                    return Err(format!("last endpoint's output node field is {} but the IOMMU it was built from starts at {}", got, want));
                }
                Ok(())
            }),
        );
    }
    add(
        "VIOT node count (2-byte count)",
        u64::MAX,
        &[65_536, 65_537],
        true,
        Box::new(|n| {
            let mut t = viot::VIOT::new(c().oem_id(), c().oem_table_id(), c().oem_rev());
            for i in 0..n {
                t.add_virtio_mmio_iommu(viot::VirtIoMmioIommu::new(i));
            }
            ser(&t)
        }),
        Box::new(|b, _| walk_ok(&tables::topo::Viot, b)),
    );
    add(
        "VIOT node count reached with endpoint nodes (2-byte count: one IOMMU + n endpoints)",
        65_534,
        &[65_535, 65_536, 70_000],
        false,
        Box::new(|n| {
            let mut t = viot::VIOT::new(c().oem_id(), c().oem_table_id(), c().oem_rev());
            let h = t.add_virtio_mmio_iommu(viot::VirtIoMmioIommu::new(0x1000));
            for i in 0..n {
                if i % 2 == 0 {
                    t.add_mmio_endpoint(viot::MmioEndpoint::new(i as u32, 0x2000 + i, &h));
                } else {
                    t.add_pci_range(viot::PciRange::new(viot::PciDevice::new(0, 0, 0, 0), viot::PciDevice::new(0, 1, 0, 0), &h));
                }
            }
            ser(&t)
        }),
        Box::new(|b, _| walk_ok(&tables::topo::Viot, b)),
    );
    // ---- SLIT: localities^2 in 32-bit arithmetic (allocation guarded: only small accepted sizes are materialised)
    add(
        "SLIT localities (matrix size localities^2 in 32 bits)",
        300,
        &[65_536, 1 << 31, (1 << 32) - 1],
        false,
        Box::new(|n| {
            ser(&slit::SLIT::new(c().oem_id(), c().oem_table_id(), c().oem_rev(), n as u32))
        }),
        Box::new(|b, _| walk_ok(&tables::numa::Slit, b)),
    );
    // ---- RHCT: ISA string node (2-byte node length 8 + len + 1 + pad, 2-byte string length) and hart-info offsets
    add(
        "RHCT ISA string length (2-byte node length)",
        65_525,
        &[65_526, 65_528, 65_535, 65_536, 70_000],
        false,
        Box::new(|n| {
            let s: &'static str = Box::leak("r".repeat(n as usize).into_boxed_str());
            let mut t = rhct::RHCT::new(c().oem_id(), c().oem_table_id(), c().oem_rev(), 1);
            t.add_isa_string(s);
            ser(&t)
        }),
        Box::new(|b, _| walk_ok(&tables::topo::Rhct, b)),
    );
    add(
        "RHCT hart-info offsets (2-byte node length: 12 + 4n)",
        16_380,
        &[16_381, 16_382, 16_400, 65_536],
        false,
        Box::new(|n| {
            let mut t = rhct::RHCT::new(c().oem_id(), c().oem_table_id(), c().oem_rev(), 1);
            let ih = t.add_isa_string("rv64i");
            let ch = t.add_cmo(rhct::CmoNode::new(6, 6, 6));
            let mut h = rhct::HartInfoNode::new(7, &ih);
            for _ in 1..n {
                h = h.with_cmo(&ch);
            }
            t.add_hart_info(h);
            ser(&t)
        }),
        Box::new(|b, _| walk_ok(&tables::topo::Rhct, b)),
    );
    // ---- RQSC: 2-byte controller length / resource length / resource count
    add(
        "RQSC vendor resource data (2-byte resource length: 8 + len)",
        65_527 - 28,
        &[65_528 - 28, 65_527, 65_528, 70_000],
        false,
        Box::new(|n| {
            let mut t = rqsc::RQSC::new(c().oem_id(), c().oem_table_id(), c().oem_rev());
            let mut q = rqsc::QoSController::new(rqsc::ControllerType::Capacity, acpi_tables::gas::GAS::default(), 1, 1, 0);
            q.add_resource(rqsc::ResourceStructure::new(rqsc::ResourceType::Cache, 0, rqsc::ResourceID::VendorSpecific(0x80, vec![0x5a; n as usize])));
            t.add_controller(q);
            ser(&t)
        }),
        Box::new(|b, _| walk_ok(&tables::rqsc::Rqsc, b)),
    );
    for ty in [0u8, 1, 2, 3, 0xff] {
        // the same limit with a vendor blob whose type byte coincides with a typed resource kind's code
        add(
            Box::leak(format!("RQSC vendor resource data with type byte {} (2-byte resource length: 8 + len)", ty).into_boxed_str()),
            65_527 - 28,
            &[65_528 - 28, 65_527, 65_528, 70_000],
            false,
            Box::new(move |n| {
                let mut t = rqsc::RQSC::new(c().oem_id(), c().oem_table_id(), c().oem_rev());
                let mut q = rqsc::QoSController::new(rqsc::ControllerType::Capacity, acpi_tables::gas::GAS::default(), 1, 1, 0);
                q.add_resource(rqsc::ResourceStructure::new(rqsc::ResourceType::Cache, 0, rqsc::ResourceID::VendorSpecific(ty, vec![0x5a; n as usize])));
                t.add_controller(q);
                ser(&t)
            }),
            Box::new(|b, _| walk_ok(&tables::rqsc::Rqsc, b)),
        );
    }
    add(
        "RQSC resources per controller (2-byte controller length: 28 + 20n)",
        3275,
        &[3276, 3277, 3300, 65_536],
        false,
        Box::new(|n| {
            let mut t = rqsc::RQSC::new(c().oem_id(), c().oem_table_id(), c().oem_rev());
            let mut q = rqsc::QoSController::new(rqsc::ControllerType::Capacity, acpi_tables::gas::GAS::default(), 1, 1, 0);
            for i in 0..n {
                q.add_resource(rqsc::ResourceStructure::new(rqsc::ResourceType::Cache, 0, rqsc::ResourceID::Cache(rqsc::CacheResource::new(i as u32))));
            }
            t.add_controller(q);
            ser(&t)
        }),
        Box::new(|b, _| walk_ok(&tables::rqsc::Rqsc, b)),
    );
    // ---- limits reached by the SUM of two variable parts (neither extreme on its own): for every residue of the first
    // part modulo the second part's element size, the element count at which the total crosses the field maximum
    for k in 0..=24u64 {
        // platform node: 12 + name + NUL + 20 * mappings <= 65535
        let max = (65_535 - 13 - k) / 20;
        add(
            Box::leak(format!("RIMT platform id mappings with a {}-byte name (2-byte node length: 13 + {} + 20n)", k, k).into_boxed_str()),
            max,
            &[max + 1, max + 2],
            false,
            Box::new(move |n| {
                let mut t = rimt::RIMT::new(c().oem_id(), c().oem_table_id(), c().oem_rev());
                let h = t.add_iommu(rimt::Iommu::new(1, None, None, None, None));
                let m = (0..n).map(|i| rimt::IdMapping::new(i as u32, 0, 1, h, false, false, false)).collect();
                t.add_platform(rimt::Platform::new(3, "N".repeat(k as usize), Some(m)));
                ser(&t)
            }),
            Box::new(|b, _| walk_ok(&tables::topo::Rimt, b)),
        );
    }
    for k in 0..=24u64 {
        // controller: 28 + (8 + 12 + k) vendor resource (resource ids 1 and 2 + k data bytes) + 20 * cache resources <= 65535
        let max = (65_535 - 28 - 20 - k) / 20;
        add(
            Box::leak(format!("RQSC cache resources after a vendor resource of {} data bytes (2-byte controller length: 48 + {} + 20n)", k, k).into_boxed_str()),
            max,
            &[max + 1, max + 2],
            false,
            Box::new(move |n| {
                let mut t = rqsc::RQSC::new(c().oem_id(), c().oem_table_id(), c().oem_rev());
                let mut q = rqsc::QoSController::new(rqsc::ControllerType::Capacity, acpi_tables::gas::GAS::default(), 1, 1, 0);
                q.add_resource(rqsc::ResourceStructure::new(rqsc::ResourceType::Cache, 0, rqsc::ResourceID::VendorSpecific(0x80, vec![0x5a; 12 + k as usize])));
                for i in 0..n {
                    q.add_resource(rqsc::ResourceStructure::new(rqsc::ResourceType::Cache, 0, rqsc::ResourceID::Cache(rqsc::CacheResource::new(i as u32))));
                }
                t.add_controller(q);
                ser(&t)
            }),
            Box::new(|b, _| walk_ok(&tables::rqsc::Rqsc, b)),
        );
    }
    if thorough {
        // inclusive PkgLength with real bodies around 2^28 (one kind per width of the object header)
        add(
            "object body size (inclusive PkgLength, 28 bits)",
            (1 << 28) - 12,
            &[(1 << 28) - 8, 1 << 28, (1 << 28) + 5],
            true,
            Box::new(|n| {
                let b = ser(&BufferData::new(vec![0; n as usize]));
                // keep only the head: the oracle needs opcode, PkgLength and size operand
                let total = b.len();
                let mut head = b[..16].to_vec();
                head.extend_from_slice(&(total as u64).to_le_bytes());
                head
            }),
            Box::new(|b, n| {
                let total = u64::from_le_bytes([b[16], b[17], b[18], b[19], b[20], b[21], b[22], b[23]]) as usize;
                let (v, w, _) = crate::codecs::pkg_decode(&b[1..]).ok_or("truncated")?;
                if v != total - 1 {
                    return Err(format!("PkgLength decodes to {} for an object of {} bytes after the opcode", v, total - 1));
                }
                let (sz, _) = crate::codecs::int_decode(&b[1 + w..]).ok_or("bad size operand")?;
                if sz != n {
                    return Err(format!("buffer size operand {} for {} data bytes", sz, n));
                }
                Ok(())
            }),
        );
    }
    v
}

/// run every site in this process's arithmetic regime; one JSON object per (site, n)
pub fn leg(thorough: bool) -> Vec<Value> {
    let mut out = vec![];
    for s in sites(thorough) {
        let inputs: Vec<(u64, bool)> = s.accept.iter().map(|n| (*n, true)).chain(s.reject.iter().map(|n| (*n, false))).collect();
        for (n, must_accept) in &inputs {
            let must_accept = *must_accept;
            let r = catch(|| (s.build)(*n));
            let (outcome, detail) = match r {
                Err(m) => ("panic", m),
                Ok(b) if b.is_empty() => ("skipped", String::new()),
                Ok(b) => match catch(|| (s.frame)(&b, *n)) {
                    Ok(Ok(())) => ("ok", String::new()),
                    Ok(Err(why)) => ("bad", format!("{} ; head {}", why, hex(&b[..b.len().min(24)]))),
                    Err(m) => ("bad", format!("framing oracle failed: {}", m)),
                },
            };
            out.push(json!({"site": s.name, "n": n, "max": s.max, "must_accept": must_accept, "outcome": outcome, "detail": detail}));
        }
    }
    out
}

pub fn run(ctx: &'static Ctx) {
    let thorough = !ctx.quick();
    let mut legs: Vec<(&str, Vec<Value>)> = vec![("release", leg(thorough))];
    // the overflow-checked regime: same code, built with --profile checked
    let out = std::process::Command::new("/verif/target/checked/vcheck").args(["C18LEG", if thorough { "thorough" } else { "quick" }]).output();
    match out {
        Ok(o) if o.status.success() => match serde_json::from_slice::<Vec<Value>>(&o.stdout) {
            Ok(v) => legs.push(("checked", v)),
            Err(e) => {
                eprintln!("machinery: cannot parse the checked leg's output: {}", e);
                std::process::exit(2);
            }
        },
        Ok(o) => {
            eprintln!("machinery: checked leg exited with {:?}: {}", o.status.code(), String::from_utf8_lossy(&o.stderr));
            std::process::exit(2);
        }
        Err(e) => {
            eprintln!("machinery: cannot run /verif/target/checked/vcheck: {}", e);
            std::process::exit(2);
        }
    }
    let mut nsite = 0;
    let mut conservative: Vec<Value> = vec![];
    for (legname, rows) in &legs {
        for r in rows {
            ctx.tr(1);
            ctx.st(1);
            let site = r["site"].as_str().unwrap_or("");
            let n = r["n"].as_u64().unwrap_or(0);
            let outcome = r["outcome"].as_str().unwrap_or("");
            let must = r["must_accept"].as_bool().unwrap_or(false);
            ctx.distinct(crate::util::fnv(format!("{}{}{}", site, n, legname).as_bytes()));
            nsite += 1;
            let rep = || json!({"family": "oversize", "site": site, "n": n, "build": legname, "outcome": outcome, "detail": r["detail"]});
            match (must, outcome) {
                (_, "skipped") => {}
                (true, "ok") | (false, "panic") => {}
                (true, "panic") => {
                    // the property forbids wrapping, it does not oblige the crate to accept everything that fits: noted, not judged
                    conservative.push(json!({"site": site, "n": n, "build": legname, "detail": r["detail"]}));
                }
                (true, _) => {
                    ctx.violation_sized(&format!("oversize:{}:bad-at-max", site), n, || format!("[{}] {} = {} (within the field maximum {}) gives inconsistent bytes: {}", legname, site, n, r["max"], r["detail"]), rep);
                }
                (false, _) => {
                    ctx.violation_sized(
                        &format!("oversize:{}:{}", site, legname),
                        n,
                        || format!("[{} build] {} = {} exceeds the field maximum {} but bytes were returned{}", legname, site, n, r["max"], if outcome == "bad" { format!(": {}", r["detail"]) } else { " (and they even look consistent)".into() }),
                        rep,
                    );
                }
            }
        }
    }
    ctx.engine("E3.sites", json!({"sites": sites(thorough).iter().map(|s| s.name).collect::<Vec<_>>(), "legs": ["release (no overflow checks)", "checked (overflow-checks + debug-assertions)"], "evaluations": nsite}));
    ctx.set("conservative_refusals_not_judged", json!(conservative));
    ctx.force_sample(legs[0].1.first().cloned().unwrap_or(json!(null)));
    ctx.force_sample(legs[0].1.get(5).cloned().unwrap_or(json!(null)));
    ctx.set("sites_enumerated", json!("every caller-controlled narrowing found by reading the crate (DESIGN.md C18)"));
}

pub const RULE: &str = "sites x {max-1, max, max+1, several far beyond} x {release, checked}: at or below the field maximum the bytes must pass the framing oracle of C03/C06/C10; above it the call must panic in both builds. distinct = (site, n, build) triples";
pub const ASSUME: &[&str] = &["only the sites found by reading the crate are driven", "32-bit table Length overflow (4 GiB tables) is not materialised", "64-bit host"];
