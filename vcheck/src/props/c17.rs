//! C17 — the checksum accumulator is a faithful mod-256 sum with exact inverses.
//! Complete closure: the accumulator's whole state is one byte (raw_value() exposes it), so
//! enumerating every operation from every one of the 256 states covers all histories.
use crate::ev::Ctx;
use crate::sr::{explore, FnModel, Node};
use acpi_tables::{AmlSink, Checksum};
use rayon::prelude::*;
use serde_json::json;
use std::sync::atomic::AtomicU64;
use std::sync::Arc;

fn at(s: u8) -> Checksum {
    let mut c = Checksum::default();
    c.add(s);
    c
}

#[derive(Clone, Debug, PartialEq, Eq, Hash)]
struct St {
    raw: u8,
    model: u64, // wide-integer reference: sum of bytes added minus removed (offset by a multiple of 256)
}

#[derive(Clone, Debug, PartialEq)]
enum Act {
    Add(u8),
    Sub(u8),
    SinkByte(u8),
    Append(Vec<u8>),
    Delete(Vec<u8>),
    SinkVec(Vec<u8>),
    SinkWord(u16),
    SinkDword(u32),
    SinkQword(u64),
}

fn apply(c: &mut Checksum, a: &Act) {
    match a {
        Act::Add(b) => c.add(*b),
        Act::Sub(b) => c.sub(*b),
        Act::SinkByte(b) => AmlSink::byte(c, *b),
        Act::Append(v) => c.append(v),
        Act::Delete(v) => c.delete(v),
        Act::SinkVec(v) => AmlSink::vec(c, v),
        Act::SinkWord(w) => AmlSink::word(c, *w),
        Act::SinkDword(w) => AmlSink::dword(c, *w),
        Act::SinkQword(w) => AmlSink::qword(c, *w),
    }
}

/// reference: effect of an action on a wide integer (kept non-negative by adding 256 per removed byte)
fn model_step(m: u64, a: &Act) -> u64 {
    let add = |m: u64, bs: &[u8]| bs.iter().fold(m, |x, b| x + *b as u64);
    let del = |m: u64, bs: &[u8]| bs.iter().fold(m, |x, b| x + 256 - *b as u64);
    (match a {
        Act::Add(b) | Act::SinkByte(b) => add(m, &[*b]),
        Act::Sub(b) => del(m, &[*b]),
        Act::Append(v) | Act::SinkVec(v) => add(m, v),
        Act::Delete(v) => del(m, v),
        Act::SinkWord(w) => add(m, &w.to_le_bytes()),
        Act::SinkDword(w) => add(m, &w.to_le_bytes()),
        Act::SinkQword(w) => add(m, &w.to_le_bytes()),
    }) % 256
}

pub fn run(ctx: &'static Ctx) {
    // ---- E3a: full single-byte transition relation 256 x 256 x {add, sub, sink.byte} + value()
    let bad = AtomicU64::new(0);
    (0u16..256).into_par_iter().for_each(|s| {
        let s = s as u8;
        let c0 = at(s);
        if c0.raw_value() != s {
            ctx.violation(
                "acc:reach",
                || format!("add({}) from the default accumulator gives raw {}", s, c0.raw_value()),
                || json!({"ops":[["add", s]]}),
            );
        }
        // reported checksum: raw + value == 0 mod 256
        if c0.raw_value().wrapping_add(c0.value()) != 0 {
            ctx.violation(
                "acc:value",
                || format!("raw {} + value {} != 0 mod 256", c0.raw_value(), c0.value()),
                || json!({"ops":[["add", s],["value"]]}),
            );
        }
        ctx.st(1);
        for b in 0u16..256 {
            let b = b as u8;
            for (oi, (name, act)) in [("add", Act::Add(b)), ("sub", Act::Sub(b)), ("sink.byte", Act::SinkByte(b))].into_iter().enumerate() {
                let mut c = at(s);
                apply(&mut c, &act);
                let want = model_step(s as u64, &act) as u8;
                ctx.tr(1);
                if c.raw_value() != want {
                    bad.fetch_add(1, std::sync::atomic::Ordering::Relaxed);
                    ctx.violation(
                        &format!("acc:{}", name),
                        || format!("state {} {}({}) -> raw {} expected {}", s, name, b, c.raw_value(), want),
                        || json!({"ops":[["add", s],[name, b]]}),
                    );
                }
                // exact inverse
                let mut c2 = at(s);
                apply(&mut c2, &act);
                match act {
                    Act::Add(_) | Act::SinkByte(_) => c2.sub(b),
                    _ => c2.add(b),
                }
                ctx.tr(1);
                if c2.raw_value() != s {
                    ctx.violation(
                        &format!("acc:{}-inverse", name),
                        || format!("state {} {}({}) then inverse -> raw {}", s, name, b, c2.raw_value()),
                        || json!({"ops":[["add", s],[name, b],["inverse", b]]}),
                    );
                }
                ctx.distinct(crate::util::splitmix(((s as u64) << 16) | ((b as u64) << 8) | oi as u64));
            }
        }
    });
    ctx.engine("E3.single-byte-relation", json!({"states":256, "bytes":256, "ops":["add","sub","sink.byte"], "complete": true}));
    ctx.force_sample(json!({"state": 200, "op": "add", "byte": 100, "expected_raw": 44}));

    // ---- E3b: slice / multi-byte sink forms from every state, every slice of length <= 2 over all bytes
    let n2 = AtomicU64::new(0);
    (0u32..256 * 256).into_par_iter().for_each(|sb| {
        let s = (sb >> 8) as u8;
        let b0 = (sb & 0xff) as u8;
        let mut local = 0u64;
        for b1 in 0u16..256 {
            let b1 = b1 as u8;
            let sl = vec![b0, b1];
            let w = u16::from_le_bytes([b0, b1]);
            for act in [Act::Append(sl.clone()), Act::Delete(sl.clone()), Act::SinkVec(sl.clone()), Act::SinkWord(w)] {
                let mut c = at(s);
                apply(&mut c, &act);
                let want = model_step(s as u64, &act) as u8;
                local += 1;
                if c.raw_value() != want {
                    ctx.violation(
                        &format!("acc:slice2:{}", act_name(&act)),
                        || format!("state {} {:?} -> raw {} expected {}", s, act, c.raw_value(), want),
                        || json!({"ops":[["add", s],[format!("{:?}", act)]]}),
                    );
                }
            }
            // delete after append restores the state exactly
            let mut c = at(s);
            c.append(&sl);
            c.delete(&sl);
            local += 1;
            if c.raw_value() != s {
                ctx.violation(
                    "acc:delete-append",
                    || format!("state {} append {:?} delete -> raw {}", s, sl, c.raw_value()),
                    || json!({"ops":[["add", s],["append", sl],["delete", sl]]}),
                );
            }
        }
        n2.fetch_add(local, std::sync::atomic::Ordering::Relaxed);
    });
    ctx.tr(n2.load(std::sync::atomic::Ordering::Relaxed));
    // slices of length 0,1 and 3..=5 over the carry-relevant bytes, dword/qword forms
    let small = [0u8, 1, 0x7f, 0x80, 0xff];
    let mut slices: Vec<Vec<u8>> = vec![vec![]];
    for len in 1..=5usize {
        let mut idx = vec![0usize; len];
        loop {
            slices.push(idx.iter().map(|i| small[*i]).collect());
            let mut p = 0;
            while p < len {
                idx[p] += 1;
                if idx[p] < small.len() {
                    break;
                }
                idx[p] = 0;
                p += 1;
            }
            if p == len {
                break;
            }
        }
    }
    let n3 = AtomicU64::new(0);
    (0u16..256).into_par_iter().for_each(|s| {
        let s = s as u8;
        let mut local = 0;
        for sl in &slices {
            let mut acts = vec![Act::Append(sl.clone()), Act::Delete(sl.clone()), Act::SinkVec(sl.clone())];
            if sl.len() == 4 {
                acts.push(Act::SinkDword(u32::from_le_bytes([sl[0], sl[1], sl[2], sl[3]])));
            }
            if sl.len() == 5 {
                let q = u64::from_le_bytes([sl[0], sl[1], sl[2], sl[3], sl[4], sl[0], sl[2], sl[4]]);
                acts.push(Act::SinkQword(q));
            }
            for act in acts {
                let mut c = at(s);
                apply(&mut c, &act);
                let want = model_step(s as u64, &act) as u8;
                local += 1;
                if c.raw_value() != want {
                    ctx.violation(
                        &format!("acc:slice:{}", act_name(&act)),
                        || format!("state {} {:?} -> raw {} expected {}", s, act, c.raw_value(), want),
                        || json!({"ops":[["add", s],[format!("{:?}", act)]]}),
                    );
                }
                if c.raw_value().wrapping_add(c.value()) != 0 {
                    ctx.violation("acc:value", || "raw+value != 0".into(), || json!({"state": s}));
                }
            }
        }
        n3.fetch_add(local, std::sync::atomic::Ordering::Relaxed);
    });
    ctx.tr(n3.load(std::sync::atomic::Ordering::Relaxed));
    ctx.engine(
        "E3.slice-forms",
        json!({"states":256, "len2_slices": 65536, "forms":["append","delete","sink.vec","sink.word","delete-after-append"],
               "short_slices_over_{0,1,7f,80,ff}": slices.len(), "extra_forms":["sink.dword","sink.qword"]}),
    );
    ctx.force_sample(json!({"state": 255, "op": "append", "slice": [255, 255], "expected_raw": 253}));
    // ---- E3b': multi-byte sink methods over values (the value principle): every word; dwords and qwords over
    // util::value_set (thorough: every dword), qwords also as every (high, low) pair of the quick 32-bit set; each from
    // every one of the 256 states (quick: 8 states for the pair product), compared with the byte-wise model, and the
    // same bytes through append / delete / sink.vec
    {
        let quick = ctx.quick();
        let nv = AtomicU64::new(0);
        let judge = |s: u8, act: Act| {
            let mut c = at(s);
            apply(&mut c, &act);
            let want = model_step(s as u64, &act) as u8;
            if c.raw_value() != want || c.raw_value().wrapping_add(c.value()) != 0 {
                ctx.violation(&format!("acc:value-sweep:{}", act_name(&act)), || format!("state {} {:?} -> raw {} expected {}", s, act, c.raw_value(), want), || json!({"ops":[["add", s],[format!("{:?}", act)]]}));
            }
        };
        (0..=0xffffu32).into_par_iter().for_each(|w| {
            for s in [0u8, 1, 0x7f, 0x80, 0xa5, 0xff] {
                judge(s, Act::SinkWord(w as u16));
            }
            nv.fetch_add(6, std::sync::atomic::Ordering::Relaxed);
        });
        let v32 = crate::util::value_set(32, 0x0403_0201, false);
        let v64 = crate::util::value_set(64, 0x0807_0605_0403_0201, false);
        (0u16..256).into_par_iter().for_each(|s| {
            let s = s as u8;
            for d in &v32 {
                let d = *d as u32;
                judge(s, Act::SinkDword(d));
                judge(s, Act::SinkVec(d.to_le_bytes().to_vec()));
            }
            for q in &v64 {
                judge(s, Act::SinkQword(*q));
                judge(s, Act::Append(q.to_le_bytes().to_vec()));
                judge(s, Act::Delete(q.to_le_bytes().to_vec()));
                judge(s, Act::SinkVec(q.to_le_bytes().to_vec()));
            }
            nv.fetch_add(2 * v32.len() as u64 + 4 * v64.len() as u64, std::sync::atomic::Ordering::Relaxed);
        });
        let q32 = crate::util::value_set(32, 0x0403_0201, true);
        q32.par_iter().for_each(|hi| {
            for lo in &q32 {
                for s in [0u8, 1, 0x7f, 0x80, 0xa5, 0xfe, 0xff, 0x10] {
                    judge(s, Act::SinkQword((*hi << 32) | *lo));
                }
            }
            nv.fetch_add(8 * q32.len() as u64, std::sync::atomic::Ordering::Relaxed);
        });
        let mut all_dwords = false;
        if !quick {
            all_dwords = true;
            (0u32..65536).into_par_iter().for_each(|hi| {
                for lo in 0u32..65536 {
                    let d = (hi << 16) | lo;
                    let mut c = at(0xa5);
                    AmlSink::dword(&mut c, d);
                    let b = d.to_le_bytes();
                    let want = 0xa5u8.wrapping_add(b[0]).wrapping_add(b[1]).wrapping_add(b[2]).wrapping_add(b[3]);
                    if c.raw_value() != want {
                        judge(0xa5, Act::SinkDword(d));
                    }
                }
                nv.fetch_add(65536, std::sync::atomic::Ordering::Relaxed);
            });
        }
        let n = nv.load(std::sync::atomic::Ordering::Relaxed);
        ctx.tr(n);
        ctx.engine("E3.multi-byte-values", json!({"evaluations": n, "words": "all 65536 x 6 states", "dword_values": v32.len(), "qword_values": v64.len(), "states": 256, "qword_pairs": q32.len() * q32.len(), "all_2^32_dwords": all_dwords}));
    }

    // ---- E3c: long slices (an implementation that sums a slice in a wider integer and folds it back must fold correctly)
    let mut long: Vec<Vec<u8>> = vec![];
    for len in [6usize, 16, 64, 127, 128, 129, 130, 131, 200, 255, 256, 257, 258, 300, 1000, 2400, 4096, 20_000, 65_535, 65_536, 65_537, 100_000, 131_072, 131_073, 300_000] {
        for pat in 0..6u8 {
            long.push((0..len).map(|i| match pat { 0 => 0xff, 1 => 0x80, 2 => 0x01, 3 => 0x7f, 4 => (i * 7 + 3) as u8, _ => if i % 2 == 0 { 0xff } else { 0x00 } }).collect());
        }
        // lane patterns: one byte position of every 2 / 3 / 4 / 8 / 16-byte group is heavy (0xff) and the others light, so
        // that an implementation summing in packed lanes overflows one lane long before the others
        if len >= 2000 && len <= 131_073 {
            for stride in [2usize, 3, 4, 8, 16] {
                for p in 0..stride {
                    if stride == 16 && p % 3 != 0 {
                        continue;
                    }
                    long.push((0..len).map(|i| if i % stride == p { 0xff } else { (i % 3) as u8 }).collect());
                }
            }
        }
        // irregular contents: every block of the slice has its own byte sum (regular fills and ramps sum to 0 mod 256 over
        // 64 KiB, which would hide a dropped or repeated block)
        for salt in [1u64, 2] {
            long.push((0..len).map(|i| crate::util::splitmix(salt * 0x1_0000_0001 + (i as u64 / 8)).to_le_bytes()[i % 8]).collect());
        }
    }
    let nl = AtomicU64::new(0);
    long.par_iter().for_each(|sl| {
        let mut local = 0;
        for s in [0u8, 1, 0x7f, 0x80, 0xfe, 0xff] {
            for act in [Act::Append(sl.clone()), Act::Delete(sl.clone()), Act::SinkVec(sl.clone())] {
                let mut c = at(s);
                apply(&mut c, &act);
                let want = model_step(s as u64, &act) as u8;
                local += 1;
                if c.raw_value() != want {
                    ctx.violation_sized(
                        &format!("acc:long-slice:{}", act_name(&act)),
                        sl.len() as u64,
                        || format!("state {} {} of a {}-byte slice (first bytes {:02x?}) -> raw {} expected {}", s, act_name(&act), sl.len(), &sl[..4.min(sl.len())], c.raw_value(), want),
                        || json!({"state": s, "op": act_name(&act), "slice_len": sl.len(), "first_bytes": &sl[..4.min(sl.len())]}),
                    );
                }
            }
            // slice-wise and byte-wise delivery of the same bytes agree; removing byte by byte what was appended restores the state
            let mut a = at(s);
            a.append(sl);
            for b in sl {
                a.sub(*b);
            }
            local += 1;
            if a.raw_value() != s {
                ctx.violation_sized("acc:long-slice:append-then-sub-each", sl.len() as u64, || format!("state {}: append of {} bytes then sub of each byte -> raw {}", s, sl.len(), a.raw_value()), || json!({"state": s, "slice_len": sl.len()}));
            }
        }
        nl.fetch_add(local, std::sync::atomic::Ordering::Relaxed);
    });
    ctx.tr(nl.load(std::sync::atomic::Ordering::Relaxed));
    ctx.engine("E3.long-slices", json!({"slices": long.len(), "lengths": "6..300000 incl. 127..131, 255..258, 65535..65537", "patterns": 6, "start_states": 6}));

    // ---- E3d: every slice length 0..=1100 and sub-slices at every start alignment 0..=16 of one buffer (an
    // implementation that sums by machine words must handle head and tail bytes at every alignment)
    {
        let buf: Vec<u8> = (0..70_000usize).map(|i| crate::util::splitmix(0x5eed + (i as u64 / 8)).to_le_bytes()[i % 8] | 1).collect();
        let lens: Vec<usize> = (0..=1100usize).chain([4090, 4095, 4096, 4097, 8191, 8192, 8193, 65_535, 65_536, 65_537]).collect();
        let na = AtomicU64::new(0);
        lens.par_iter().for_each(|len| {
            let mut local = 0;
            for off in 0..=16usize {
                let sl = &buf[off..off + *len];
                let want_sum = sl.iter().fold(0u8, |a, b| a.wrapping_add(*b));
                for s in [0u8, 0x5a, 0xff] {
                    let mut c = at(s);
                    c.append(sl);
                    local += 1;
                    if c.raw_value() != s.wrapping_add(want_sum) {
                        ctx.violation_sized("acc:aligned-slice:append", *len as u64, || format!("state {} append of buf[{}..{}] ({} bytes) -> raw {} expected {}", s, off, off + len, len, c.raw_value(), s.wrapping_add(want_sum)), || json!({"state": s, "op": "append", "offset": off, "slice_len": len}));
                    }
                    let mut d = at(s);
                    d.delete(sl);
                    local += 1;
                    if d.raw_value() != s.wrapping_sub(want_sum) {
                        ctx.violation_sized("acc:aligned-slice:delete", *len as u64, || format!("state {} delete of buf[{}..{}] ({} bytes) -> raw {} expected {}", s, off, off + len, len, d.raw_value(), s.wrapping_sub(want_sum)), || json!({"state": s, "op": "delete", "offset": off, "slice_len": len}));
                    }
                    let mut e = at(s);
                    acpi_tables::AmlSink::vec(&mut e, sl);
                    local += 1;
                    if e.raw_value() != s.wrapping_add(want_sum) {
                        ctx.violation_sized("acc:aligned-slice:sink-vec", *len as u64, || format!("state {} sink vec of buf[{}..{}] -> raw {} expected {}", s, off, off + len, e.raw_value(), s.wrapping_add(want_sum)), || json!({"state": s, "op": "vec", "offset": off, "slice_len": len}));
                    }
                }
            }
            na.fetch_add(local, std::sync::atomic::Ordering::Relaxed);
        });
        // runs of one repeated byte (zero in particular) inside a slice: every run length 0..=300 of bytes {00, ff, 80}, at
        // three positions, followed and preceded by other bytes (an implementation that skips or batches runs must
        // resume on the right byte)
        let runs: Vec<(usize, u8)> = (0..=300usize).flat_map(|r| [0x00u8, 0xff, 0x80].into_iter().map(move |b| (r, b))).collect();
        runs.par_iter().for_each(|(run, rb)| {
            let mut local = 0;
            for lead in [0usize, 1, 7, 36] {
                for trail in [0usize, 1, 2, 9] {
                    let mut sl: Vec<u8> = (0..lead).map(|i| 0x11 + i as u8).collect();
                    sl.extend(std::iter::repeat(*rb).take(*run));
                    sl.extend((0..trail).map(|i| 0xc3u8.wrapping_add(i as u8 * 5)));
                    // a second run after the trail, so that the state after a run is exercised too
                    sl.extend(std::iter::repeat(*rb).take(*run / 2));
                    sl.push(0x5a);
                    let want_sum = sl.iter().fold(0u8, |a, b| a.wrapping_add(*b));
                    let mut c = at(0x21);
                    c.append(&sl);
                    let mut d = at(0x21);
                    d.delete(&sl);
                    local += 2;
                    if c.raw_value() != 0x21u8.wrapping_add(want_sum) || d.raw_value() != 0x21u8.wrapping_sub(want_sum) {
                        ctx.violation_sized(
                            "acc:run-slice",
                            sl.len() as u64,
                            || format!("slice of {} bytes = {} lead bytes, a run of {} x {:02x}, {} other bytes, a run of {}, 5a: append from 0x21 -> raw {} (expected {}), delete -> raw {} (expected {})", sl.len(), lead, run, rb, trail, run / 2, c.raw_value(), 0x21u8.wrapping_add(want_sum), d.raw_value(), 0x21u8.wrapping_sub(want_sum)),
                            || json!({"op": "append/delete", "lead": lead, "run": run, "run_byte": rb, "trail": trail}),
                        );
                    }
                }
            }
            na.fetch_add(local, std::sync::atomic::Ordering::Relaxed);
        });
        // long runs of SINGLE-BYTE operations on one accumulator (an implementation may batch them in hidden state that
        // raw_value() has to account for): 70 000 add / sink-byte / sub calls per pattern, compared after every call
        {
            let mut local = 0u64;
            for pat in 0..6u8 {
                for mode in 0..4u8 {
                    let mut c = at(0x17);
                    let mut want = 0x17u8;
                    for i in 0..70_000usize {
                        let b = match pat { 0 => 0xff, 1 => 0x80, 2 => 0x01, 3 => 0x7f, 4 => (i * 7 + 3) as u8, _ => crate::util::splitmix(i as u64 / 8).to_le_bytes()[i % 8] };
                        match mode {
                            0 => { c.add(b); want = want.wrapping_add(b); }
                            1 => { acpi_tables::AmlSink::byte(&mut c, b); want = want.wrapping_add(b); }
                            2 => { c.sub(b); want = want.wrapping_sub(b); }
                            _ => {
                                // mostly adds, a sub every 1000th call, a slice every 4099th
                                if i % 4099 == 4098 { c.append(&[b, b, 1]); want = want.wrapping_add(b).wrapping_add(b).wrapping_add(1); }
                                else if i % 1000 == 999 { c.sub(b); want = want.wrapping_sub(b); }
                                else { c.add(b); want = want.wrapping_add(b); }
                            }
                        }
                        local += 1;
                        if c.raw_value() != want || (i % 257 == 0 && c.value() != 0u8.wrapping_sub(want)) {
                            ctx.violation_sized("acc:long-run", i as u64, || format!("after {} single-byte operations (pattern {}, mode {}) on one accumulator: raw {} expected {}", i + 1, pat, mode, c.raw_value(), want), || json!({"op": "long run", "pattern": pat, "mode": mode, "calls": i + 1}));
                            break;
                        }
                    }
                }
            }
            na.fetch_add(local, std::sync::atomic::Ordering::Relaxed);
        }
        // the same buffer handed over twice with different contents (what a caller who patches a structure in place and
        // updates the sum does): append(buf); change bytes of buf; delete(buf) — and append / append, delete / delete
        {
            let mut local = 0u64;
            for len in [1usize, 8, 31, 32, 33, 64, 100, 256, 1000, 4096, 70_000] {
                for first in [0u8, 0x11, 0xff] {
                    let mut bufm: Vec<u8> = (0..len).map(|i| first.wrapping_add((i as u8).wrapping_mul(3))).collect();
                    let s1 = bufm.iter().fold(0u8, |a, b| a.wrapping_add(*b));
                    let mut c = at(0x40);
                    c.append(&bufm);
                    for (i, b) in bufm.iter_mut().enumerate() {
                        if i % 3 == 0 {
                            *b = b.wrapping_add(0x5b);
                        }
                    }
                    let s2 = bufm.iter().fold(0u8, |a, b| a.wrapping_add(*b));
                    c.delete(&bufm);
                    local += 1;
                    let want = 0x40u8.wrapping_add(s1).wrapping_sub(s2);
                    if c.raw_value() != want {
                        ctx.violation_sized("acc:same-buffer:append-mutate-delete", len as u64, || format!("append of a {}-byte buffer, bytes changed in place, delete of the same buffer: raw {} expected {}", len, c.raw_value(), want), || json!({"op": "append/mutate/delete", "slice_len": len, "first": first}));
                    }
                    // append again (same address, new contents) and delete twice
                    let mut d = at(0);
                    d.append(&bufm);
                    bufm[len / 2] = bufm[len / 2].wrapping_add(1);
                    d.append(&bufm);
                    local += 1;
                    let want2 = s2.wrapping_add(s2).wrapping_add(1);
                    if d.raw_value() != want2 {
                        ctx.violation_sized("acc:same-buffer:append-mutate-append", len as u64, || format!("two appends of one {}-byte buffer whose middle byte changed in between: raw {} expected {}", len, d.raw_value(), want2), || json!({"op": "append/mutate/append", "slice_len": len, "first": first}));
                    }
                }
            }
            na.fetch_add(local, std::sync::atomic::Ordering::Relaxed);
        }
        ctx.tr(na.load(std::sync::atomic::Ordering::Relaxed));
        ctx.engine("E3.aligned-slices", json!({"lengths": "0..=1100, 4090..4097, 8191..8193, 65535..65537", "start_offsets": "0..=16 within one buffer", "start_states": 3, "runs": "every run length 0..=300 of 00/ff/80 with 4 lead and 4 trail lengths", "calls": na.load(std::sync::atomic::Ordering::Relaxed)}));
    }

    // ---- E1: stateright closure over the real object: exactly 256 states reachable, model agrees everywhere
    let acts: Vec<Act> = {
        let mut v = Vec::new();
        for b in [0u8, 1, 2, 0x7f, 0x80, 0xfe, 0xff] {
            v.push(Act::Add(b));
            v.push(Act::Sub(b));
            v.push(Act::SinkByte(b));
        }
        v.push(Act::Append(vec![]));
        v.push(Act::Append(vec![0xff, 0xff, 3]));
        v.push(Act::Delete(vec![0x80, 0x81]));
        v.push(Act::SinkVec(vec![9, 8, 7, 6, 5]));
        v.push(Act::SinkWord(0xfffe));
        v.push(Act::SinkDword(0x8040_2010));
        v.push(Act::SinkQword(0xff00_ff00_1234_5678));
        v
    };
    let acts2 = acts.clone();
    let ctxp = ctx;
    let m = FnModel::<St, (), Act> {
        init: vec![Node { key: St { raw: Checksum::default().raw_value(), model: 0 }, aux: (), bad: false }],
        actions: Arc::new(move |_s, out| out.extend(acts2.iter().cloned())),
        step: Arc::new(move |s, a| {
            let mut c = at(s.key.raw);
            apply(&mut c, a);
            let k = St { raw: c.raw_value(), model: model_step(s.key.model, a) };
            let ok = k.raw as u64 == k.model
                || ctxp.violation(
                    "acc:closure",
                    || format!("state {:?} action {:?} -> raw {} but reference sum {}", s.key, a, k.raw, k.model),
                    || json!({"state": format!("{:?}", s.key), "action": format!("{:?}", a)}),
                );
            Some(Node { key: k, aux: (), bad: !ok })
        }),
        boundary: Arc::new(|_| true),
        transitions: Arc::new(AtomicU64::new(0)),
    };
    let o = explore(m, 4, false, 1 << 20, false);
    ctx.st(o.unique);
    ctx.tr(o.transitions);
    ctx.engine(
        "E1.closure",
        json!({"unique_states": o.unique, "generated": o.generated, "max_depth": o.max_depth,
               "transitions": o.transitions, "actions": acts.len(), "closed": !o.capped}),
    );
    if !o.failed && o.unique != 256 {
        ctx.violation(
            "acc:closure-size",
            || format!("closure reached {} states, expected exactly 256", o.unique),
            || json!({}),
        );
    }
    ctx.witness("closure_reached_256_states");
    ctx.evals(0);
}

fn act_name(a: &Act) -> &'static str {
    match a {
        Act::Add(_) => "add",
        Act::Sub(_) => "sub",
        Act::SinkByte(_) => "sink.byte",
        Act::Append(_) => "append",
        Act::Delete(_) => "delete",
        Act::SinkVec(_) => "sink.vec",
        Act::SinkWord(_) => "sink.word",
        Act::SinkDword(_) => "sink.dword",
        Act::SinkQword(_) => "sink.qword",
    }
}

pub const RULE: &str = "every (state, byte, op) triple of the 256x256x3 single-byte relation; every (state, 2-byte slice, form); short slices over {0,1,7f,80,ff}; stateright closure from the default accumulator. distinct = (state,byte,op) triples";
pub const ASSUME: &[&str] = &["the accumulator's whole state is the byte returned by raw_value() (struct has one u8 field)", "64-bit little-endian host"];
