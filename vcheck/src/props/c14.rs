//! C14 — output is deterministic and independent of the receiving sink; raw in-memory form,
//! serialised form and byte-sum helper agree.
use crate::aml::gen;
use crate::aml::tree::{real_with, T};
use crate::ev::Ctx;
use crate::fill::{Ctor, Fill, Op};
use crate::seq::{self, Visit};
use crate::tables::{self, cedt_hest, madt, Table};
use crate::util::{catch, fnv, hex, ser, sum8, ByteOnly, Chunky};
use acpi_tables::aml::PackageBuilder;
use acpi_tables::sdt::Sdt;
use acpi_tables::{u8sum, Aml, Checksum};
use rayon::prelude::*;
use serde_json::{json, Value};
use std::sync::atomic::{AtomicU64, Ordering};
use zerocopy::IntoBytes;

/// serialise `a` into every sink of the matrix and compare the concatenated bytes
pub fn sink_matrix(ctx: &Ctx, who: &str, a: &dyn Aml, replay: &dyn Fn() -> Value) {
    ctx.tr(1);
    let v1 = ser(a);
    ctx.distinct(fnv(&v1));
    let fail = |sink: &str, got: &[u8]| {
        ctx.violation_sized(
            &format!("sink:{}:{}", who, sink),
            v1.len() as u64,
            || format!("{}: bytes delivered to {} differ from the Vec sink ({} vs {} bytes): {} | {}", who, sink, got.len(), v1.len(), hex(&got[..got.len().min(24)]), hex(&v1[..v1.len().min(24)])),
            replay,
        );
    };
    let v2 = ser(a);
    if v2 != v1 {
        fail("Vec (second serialisation)", &v2);
    }
    let mut b = ByteOnly::default();
    a.to_aml_bytes(&mut b);
    if b.0 != v1 {
        fail("byte-only sink", &b.0);
    }
    let mut c = Chunky::default();
    a.to_aml_bytes(&mut c);
    if c.data != v1 {
        fail("all-methods sink", &c.data);
    }
    let mut ck = Checksum::default();
    a.to_aml_bytes(&mut ck);
    if ck.raw_value() != sum8(&v1) {
        fail("Checksum sink", &[ck.raw_value()]);
    }
    if u8sum(a) != sum8(&v1) {
        fail("u8sum helper", &[u8sum(a)]);
    }
    if v1.len() <= 2048 {
        let mut s = Sdt::new(*b"SINK", 36, 1, *b"VERIF1", *b"VERIFTBL", 1);
        a.to_aml_bytes(&mut s);
        if s.as_slice()[36..] != v1[..] {
            fail("Sdt sink", &s.as_slice()[36..]);
        }
    }
    if v1.len() <= 2048 {
        // the generic table as a sink, from a non-initial state: streaming the object must leave the same table as
        // appending its bytes as one slice (only the concatenation matters)
        let mk = || {
            let mut s = Sdt::new(*b"SINK", 40, 1, *b"VERIF1", *b"VERIFTBL", 1);
            s.write_u32(36, 0x0403_0201);
            s.append_slice(&[0xaa, 0x55, 0x01]);
            s.write_u8(35, 0xee);
            s
        };
        let (mut s1, mut s2) = (mk(), mk());
        a.to_aml_bytes(&mut s1);
        s2.append_slice(&v1);
        if s1.as_slice() != s2.as_slice() {
            fail("Sdt sink (after writes) vs append_slice", s1.as_slice());
        }
    }
    // the package-builder sink, however the builder was obtained: new(), Default, and what core::mem::take leaves behind in a
    // builder that was already used (the history principle: a builder's origin is state)
    for origin in 0..3 {
        let mut pb = match origin {
            0 => PackageBuilder::new(),
            1 => PackageBuilder::default(),
            _ => {
                let mut used = PackageBuilder::new();
                used.add_element(&acpi_tables::aml::ONE);
                let _ = core::mem::take(&mut used);
                used
            }
        };
        a.to_aml_bytes(&mut pb);
        let p = ser(&pb);
        // 12 PkgLength 00 <data>
        let w = crate::codecs::pkg_decode(&p[1..]).map(|x| x.1).unwrap_or(1);
        if p.len() < 2 + w || p[1 + w] != 0 || p[2 + w..] != v1[..] {
            fail(["PackageBuilder sink", "PackageBuilder::default() sink", "PackageBuilder sink left by mem::take"][origin], &p[(2 + w).min(p.len())..]);
        }
    }
}

fn raw_forms(ctx: &'static Ctx) -> u64 {
    // every structure type accepted by MADT::add_structure / HEST::add_structure: as_bytes == serialised == what u8sum sees
    let n = AtomicU64::new(0);
    let mut fills: Vec<Fill> = vec![Fill::b(0), Fill::b(1), Fill::b(2), Fill::b(3), Fill::b(crate::fill::EQUAL), Fill::b(crate::fill::LOWER), Fill::b(crate::fill::BLANK)];
    for i in 0..26u8 {
        fills.push(Fill::b(2).with(i, 0));
        fills.push(Fill::b(2).with(i, u64::MAX));
    }
    fills.par_iter().for_each(|f| {
        macro_rules! raw {
            ($name:expr, $v:expr) => {{
                let x = $v;
                let (raw, s) = (x.as_bytes().to_vec(), ser(&x));
                n.fetch_add(1, Ordering::Relaxed);
                ctx.tr(1);
                if raw != s || u8sum(&x) != sum8(&raw) {
                    ctx.violation_sized(&format!("raw:{}", $name), 0, || format!("{}: as_bytes {} ; serialised {} ; u8sum {} vs {}", $name, hex(&raw), hex(&s), u8sum(&x), sum8(&raw)), || json!({"family":"raw-form","type":$name,"fill":f.json()}));
                }
                sink_matrix(ctx, $name, &x, &|| json!({"family":"raw-form","type":$name,"fill":f.json()}));
            }};
        }
        use acpi_tables::hest as h;
        use acpi_tables::madt::*;
        let st = [EnabledStatus::Disabled, EnabledStatus::Enabled, EnabledStatus::DisabledOnlineCapable][f.e(2, 3)];
        raw!("ProcessorLocalApic", ProcessorLocalApic::new(f.u8(0), f.u8(1), st));
        raw!("IoApic", IoApic::new(f.u8(0), f.u32(1), f.u32(2)));
        raw!("Gicc", madt::real_gicc(f, 7));
        raw!("Gicd", Gicd::new(f.u32(0), f.u64(1), GicVersion::GICv3));
        raw!("GicMsi", madt::real_gicmsi(f, 1));
        raw!("Gicr", Gicr::new(f.u64(0), f.u32(1)));
        raw!("GicIts", GicIts::new(f.u32(0), f.u64(1)));
        raw!("RINTC", RINTC::new(HartStatus::Enabled, f.u64(1), f.u32(2), f.u32(3), f.u64(4), f.u32(5)));
        raw!("IMSIC", madt::real_imsic(f));
        raw!("APLIC", APLIC::new(f.u8(0), f.arr::<8>(1), f.u16(2), f.u32(3), f.u64(4), f.u32(5), f.u16(6)));
        raw!("PLIC", PLIC::new(f.u8(0), f.arr::<8>(1), f.u16(2), f.u16(3), f.u32(4), f.u64(5), f.u32(6)));
        raw!("NotificationStructure", cedt_hest::real_notification(f, 10));
        let dev = || h::PciDevice::new(f.u8(1), f.e(2, 32) as u8, f.e(3, 8) as u8);
        raw!("PcieAerRootPort", h::PcieAerRootPort::new_root_port(h::FirmwareFirst::Enabled, dev()).num_records(f.u32(4)).root_error_command(f.u32(11)));
        raw!("PcieAerDevice", h::PcieAerDevice::new_root_port(h::FirmwareFirst::Disabled, dev()).aer_cap_ctrl(f.u32(10)));
        raw!("PcieAerBridge", h::PcieAerBridge::new_bridge(h::FirmwareFirst::Enabled, dev()).secondary_aer_cap_ctrl(f.u32(13)));
        raw!("GenericHardwareSource", h::GenericHardwareSource::new(f.u16(0), h::EnabledStatus::Enabled).error_status_address(tables::real_gas(f, 5)).notification(cedt_hest::real_notification(f, 10)));
        raw!("GenericHardwareSourceV2", h::GenericHardwareSourceV2::new(f.u16(0), h::EnabledStatus::Enabled).read_ack_register(tables::real_gas(f, 19)).read_ack_write(f.u64(25)));
        raw!("GAS", tables::real_gas(f, 0));
        raw!("RintcAffinity", crate::tables::numa::real_rintc_aff(f, 3));
        raw!("MemoryProximityDomain", acpi_tables::hmat::MemoryProximityDomain::new(f.u32(0), f.u32(1)));
        raw!("FACS", acpi_tables::facs::FACS::new());
        raw!("BERT", acpi_tables::bert::BERT::new(*b"VERIF1", *b"VERIFTBL", 1, f.u32(0), f.u64(1)));
        raw!("Rsdp", acpi_tables::rsdp::Rsdp::new(*b"VERIF1", f.u64(0)));
        // the TCPA server table is a packed struct too (it can be handed to add_structure like any other): after every
        // builder step as the LAST step — alone, and after all the other steps
        {
            let c = Ctor::new(2, 0, 2);
            let all: Vec<Op> = (0..10u8).map(|k| Op { k: if k == 9 { 3 } else { k }, shape: 0, fill: if k == 9 { Fill::b(1) } else { *f } }).collect();
            for last in 0..all.len() {
                for with_others in [false, true] {
                    let mut t = acpi_tables::tpm2::TpmServer1_2::new(c.oem_id(), c.oem_table_id(), c.oem_rev());
                    if with_others {
                        for (i, o) in all.iter().enumerate() {
                            if i != last {
                                t = crate::tables::fixed::ts_apply(t, o);
                            }
                        }
                    }
                    t = crate::tables::fixed::ts_apply(t, &all[last]);
                    raw!("TpmServer1_2", t);
                }
            }
        }
    });
    // structures whose fields are public: a caller may set any of them after construction, and the raw form must still be
    // the serialised form for every value (the value principle): each public field of Rsdp, FACS and GAS through all byte
    // values / util::value_set, one field at a time and all of them together
    {
        fn one<X: Aml + IntoBytes + zerocopy::Immutable>(ctx: &Ctx, n: &AtomicU64, name: &str, x: &X, what: String) {
            let (raw, s) = (x.as_bytes().to_vec(), ser(x));
            n.fetch_add(1, Ordering::Relaxed);
            ctx.tr(1);
            if raw != s || u8sum(x) != sum8(&raw) {
                ctx.violation_sized(&format!("raw:{}:public-field", name), 0, || format!("{} with {}: as_bytes {} ; serialised {} ; u8sum {} vs {}", name, what, hex(&raw), hex(&s), u8sum(x), sum8(&raw)), || json!({"family":"raw-form-field","type":name,"set":what}));
            }
        }
        use acpi_tables::facs::FACS;
        use acpi_tables::rsdp::Rsdp;
        let v32 = crate::util::value_set(32, 0x0403_0201, ctx.quick());
        let v64 = crate::util::value_set(64, 0x0807_0605_0403_0201, ctx.quick());
        let rs = || Rsdp::new(*b"VERIF1", 0x0807_0605_0403_0201);
        for v in 0..=255u8 {
            let mut x = rs();
            x.revision = v;
            one(ctx, &n, "Rsdp", &x, format!("revision = {}", v));
            let mut x = rs();
            x.checksum = v;
            one(ctx, &n, "Rsdp", &x, format!("checksum = {}", v));
            let mut x = rs();
            x.extended_checksum = v;
            one(ctx, &n, "Rsdp", &x, format!("extended_checksum = {}", v));
            for i in 0..8 {
                let mut x = rs();
                x.signature[i] = v;
                one(ctx, &n, "Rsdp", &x, format!("signature[{}] = {}", i, v));
            }
            for i in 0..6 {
                let mut x = rs();
                x.oem_id[i] = v;
                one(ctx, &n, "Rsdp", &x, format!("oem_id[{}] = {}", i, v));
            }
            let mut x = rs();
            x.revision = v;
            x.checksum = v;
            x.extended_checksum = !v;
            x.signature = [v; 8];
            x.oem_id = [v; 6];
            x.length = (v as u32 * 0x0101_0101).into();
            x.xsdt_addr = (v as u64 * 0x0101_0101_0101_0101).into();
            one(ctx, &n, "Rsdp", &x, format!("every field = {}", v));
            let mut y = FACS::new();
            y.version = v;
            one(ctx, &n, "FACS", &y, format!("version = {}", v));
            for i in 0..4 {
                let mut y = FACS::new();
                y.signature[i] = v;
                one(ctx, &n, "FACS", &y, format!("signature[{}] = {}", i, v));
            }
            let mut g = tables::real_gas(&Fill::b(2), 0);
            g.register_bit_width = v;
            one(ctx, &n, "GAS", &g, format!("register_bit_width = {}", v));
            let mut g = tables::real_gas(&Fill::b(2), 0);
            g.register_bit_offset = v;
            one(ctx, &n, "GAS", &g, format!("register_bit_offset = {}", v));
        }
        for v in &v32 {
            let v = *v as u32;
            let mut x = rs();
            x.length = v.into();
            one(ctx, &n, "Rsdp", &x, format!("length = {:#x}", v));
            for fi in 0..6 {
                let mut y = FACS::new();
                match fi {
                    0 => y.length = v.into(),
                    1 => y.hardware_signature = v.into(),
                    2 => y.waking = v.into(),
                    3 => y.lock = v.into(),
                    4 => y.flags = v.into(),
                    _ => y.ospm_flags = v.into(),
                }
                one(ctx, &n, "FACS", &y, format!("32-bit field #{} = {:#x}", fi, v));
            }
        }
        for v in &v64 {
            let mut x = rs();
            x.xsdt_addr = (*v).into();
            one(ctx, &n, "Rsdp", &x, format!("xsdt_addr = {:#x}", v));
            let mut y = FACS::new();
            y.x_waking = (*v).into();
            one(ctx, &n, "FACS", &y, format!("x_waking = {:#x}", v));
            let mut g = tables::real_gas(&Fill::b(2), 0);
            g.address = (*v).into();
            one(ctx, &n, "GAS", &g, format!("address = {:#x}", v));
        }
    }
    n.load(Ordering::Relaxed)
}

pub fn run(ctx: &'static Ctx) {
    let quick = ctx.quick();
    // ---- every table state visited by the sequence exploration (depth <= 3)
    let mut rep = vec![];
    for t in tables::all() {
        let t: &dyn Table = t.as_ref();
        let level = 1;
        for c in t.ctors(0) {
            let d = seq::depth_for(t, &c, level, if quick { 8_000 } else { 200_000 }, 3);
            let (nodes, leaves) = seq::dfs(ctx, t, &c, level, d, &|v: &Visit| {
                sink_matrix(ctx, t.name(), v.live, &|| seq::replay_json(v.table, v.ctor, v.all_ops));
            });
            rep.push(json!({"table": t.name(), "depth": d, "states": nodes, "executions": leaves}));
        }
        // one long lane per table as well (a big object exercises the chunking differently)
        let c0 = t.ctors(0)[0];
        for l in seq::lane_set(t, &c0, 300, false).into_iter().take(3) {
            seq::run_lane(ctx, t, &c0, &l, &|k| (k == l.ops.len() || k % 97 == 0, false), &|v| sink_matrix(ctx, t.name(), v.live, &|| seq::lane_replay(v.table, v.ctor, &l.name, v.all_ops)));
        }
    }
    ctx.engine("E2.table-states", json!(rep));

    // ---- a PackageBuilder is a sink with state: serialising it between pushes must not change what it emits later.
    // Every sequence of <= 4 pushes over {byte-wise object, word, dword, qword, buffered object, add_element}, once with a
    // serialisation after every push and once without: the final streams must be equal (and equal when repeated)
    {
        use acpi_tables::aml::{PackageBuilder, ONE};
        let pushes: Vec<(&str, Box<dyn Fn(&mut PackageBuilder) + Send + Sync>)> = vec![
            ("byte-wise object (One)", Box::new(|b| ONE.to_aml_bytes(b))),
            ("byte value 0x42", Box::new(|b| 0x42u8.to_aml_bytes(b))),
            ("word 0x1234", Box::new(|b| 0x1234u16.to_aml_bytes(b))),
            ("dword", Box::new(|b| 0x1234_5678u32.to_aml_bytes(b))),
            ("qword", Box::new(|b| 0x0102_0304_0506_0708u64.to_aml_bytes(b))),
            ("string (vec)", Box::new(|b| "abc".to_aml_bytes(b))),
            ("add_element(One)", Box::new(|b| b.add_element(&ONE))),
            ("60-byte string", Box::new(|b| "123456789012345678901234567890123456789012345678901234567890".to_aml_bytes(b))),
        ];
        let np = pushes.len();
        let mut seqs: Vec<Vec<usize>> = vec![vec![]];
        let mut fr = seqs.clone();
        for _ in 0..(if quick { 3 } else { 4 }) {
            let mut nx = vec![];
            for s0 in &fr {
                for i in 0..np {
                    let mut q = s0.clone();
                    q.push(i);
                    nx.push(q);
                }
            }
            seqs.extend(nx.iter().cloned());
            fr = nx;
        }
        let cnt = seqs.len() as u64;
        seqs.par_iter().for_each(|sq| {
            ctx.tr(1);
            let r = catch(|| {
                let mut a = PackageBuilder::new();
                let mut b = PackageBuilder::new();
                for i in sq {
                    (pushes[*i].1)(&mut a);
                    let _ = ser(&a); // observed in between
                    (pushes[*i].1)(&mut b);
                }
                (ser(&a), ser(&a), ser(&b))
            });
            match r {
                Ok((a1, a2, b1)) => {
                    ctx.distinct(fnv(&b1));
                    if a1 != b1 || a1 != a2 {
                        let names: Vec<&str> = sq.iter().map(|i| pushes[*i].0).collect();
                        ctx.violation_sized("sink:PackageBuilder:serialised-in-between", sq.len() as u64, || format!("PackageBuilder after pushes {:?}: serialised after every push it ends as {} (again: {}); never serialised before, as {}", names, hex(&a1[..a1.len().min(24)]), hex(&a2[..a2.len().min(24)]), hex(&b1[..b1.len().min(24)])), || json!({"family":"builder-history","pushes":names}));
                    }
                }
                Err(m) => {
                    ctx.violation_sized("sink:PackageBuilder:panic", sq.len() as u64, || format!("PackageBuilder push sequence {:?} panicked: {}", sq, m), || json!({"family":"builder-history","pushes":sq}));
                }
            }
        });
        ctx.st(cnt);
        ctx.engine("E2.package-builder-histories", json!({"push_kinds": np, "sequences": cnt, "what": "every push sequence with and without intermediate serialisations"}));
    }

    // ---- raw in-memory form vs serialised form vs byte-sum helper
    let nraw = raw_forms(ctx);
    ctx.st(nraw);
    ctx.engine("E3.raw-forms", json!({"objects": nraw, "types": 23}));
    let nst = crate::props::standalone::sinks(ctx);
    ctx.st(nst);
    ctx.engine("E3.standalone-structures", json!({"objects": nst, "what": "PCI-config GAS, HEST error status block and data entry (with payloads) through the sink matrix"}));

    // ---- AML programs of the C06 families (root object handed to every sink) and C10 descriptors
    let f = gen::fillers();
    let n = AtomicU64::new(0);
    let mut progs: Vec<(String, T)> = vec![];
    for c in gen::fixed_ctors() {
        let kids: Vec<T> = (0..c.slots).map(|i| f[(i * 3 + 1) % f.len()].clone()).collect();
        progs.push((c.name.clone(), (c.build)(&kids)));
        let kids: Vec<T> = (0..c.slots).map(|i| f[(i * 2 + 6) % f.len()].clone()).collect();
        progs.push((c.name.clone(), (c.build)(&kids)));
    }
    let lists = gen::lists3();
    for c in gen::list_ctors() {
        for l in lists.iter().step_by(if quick { 13 } else { 1 }) {
            progs.push((c.name.clone(), (c.build)(l.clone())));
        }
    }
    for (nme, t) in gen::leaves() {
        progs.push((nme, t));
    }
    for w in gen::wrappers() {
        for pad in [0usize, 1, 60, 61, 62, 63, 64, 4000, 4090, 4093, 4094, 4095, 4096, 70_000] {
            progs.push((w.name.clone(), (w.build)(vec![T::Str("p".repeat(pad), true)])));
        }
    }
    for r in crate::props::c10::one_of_each() {
        progs.push((r.kind().to_string(), T::ResTemplate(vec![r.clone()])));
    }
    progs.par_iter().for_each(|(who, t)| {
        n.fetch_add(1, Ordering::Relaxed);
        let r = catch(|| real_with(t, &mut |a| sink_matrix(ctx, who, a, &|| json!({"family":"aml-sink","ctor":who,"program":format!("{:?}", t).chars().take(300).collect::<String>()}))));
        if let Err(m) = r {
            ctx.violation_sized(&format!("sink:{}:panic", who), 0, || format!("{} panicked while serialising into the sink matrix: {}", who, m), || json!({"family":"aml-sink","ctor":who}));
        }
    });
    // bare descriptors
    for r in crate::props::c10::one_of_each() {
        let bytes = r.real();
        ctx.distinct(fnv(&bytes));
    }
    ctx.st(n.load(Ordering::Relaxed));
    ctx.engine("E4.aml-roots", json!({"programs": n.load(Ordering::Relaxed)}));
    ctx.force_sample(json!({"object": "MADT after [ioapic, gicc]", "sinks": ["Vec", "Vec again", "byte-only", "all-methods", "Checksum", "u8sum", "Sdt", "PackageBuilder"]}));
    ctx.force_sample(json!({"object": "Gicc (raw form)", "check": "as_bytes() == serialised bytes; u8sum == arithmetic sum"}));
    let _ = (Ctor::new(0, 0, 0), Op::new(0, 0, 0));
}

pub const RULE: &str = "every table state of the depth<=3 exploration, long-lane states, every add_structure-able type over 56 fillings, and the C06/C10 program roots are each serialised twice into Vec and once into a byte-only sink, an all-methods sink, the Checksum sink, u8sum, the Sdt sink and the PackageBuilder sink; all byte streams must coincide. distinct = distinct objects (by Vec image)";
pub const ASSUME: &[&str] = &["AML children are pre-serialised by the crate, so only the root object's call pattern varies per sink", "Sdt-as-sink is skipped for objects above 2048 bytes (quadratic checksum recomputation)"];
