//! C12 — locality matrices hold, per cell, the last value assigned. Closure (stateright) over
//! the real SLIT and the real HMAT SystemLocality for small shapes; every transition judged.
use crate::ev::Ctx;
use crate::fill::{Ctor, Fill};
use crate::sr::{explore, FnModel, Node};
use crate::tables::numa::{real_sll_new, ref_sll_with, sll_shape};
use crate::util::{catch, hex, rd32, ser, sum8, W};
use acpi_tables::{hmat, slit::SLIT};
use serde_json::json;
use std::sync::atomic::AtomicU64;
use std::sync::Arc;

type SlitOp = (u16, u16, u8);

fn slit_real(l: u32, ops: &[SlitOp]) -> Result<Vec<u8>, String> {
    catch(|| {
        let c = Ctor::new(2, l, 2);
        let mut t = SLIT::new(c.oem_id(), c.oem_table_id(), c.oem_rev(), l);
        for (a, b, v) in ops {
            t.set_distance(*a as usize, *b as usize, *v);
        }
        ser(&t)
    })
}
/// reference: unordered pair -> last value, default 10 (ACPI 6.5 5.2.17: Entry[i][j] at offset 44 + i*L + j)
fn slit_model(l: usize, ops: &[SlitOp]) -> Vec<u8> {
    let mut m = vec![10u8; l * l];
    for (a, b, v) in ops {
        m[*a as usize * l + *b as usize] = *v;
        m[*b as usize * l + *a as usize] = *v;
    }
    m
}

fn slit_closure(ctx: &'static Ctx, l: u32, vals: &'static [u8], cap: usize) -> (u64, u64, bool) {
    let init_img = match slit_real(l, &[]) {
        Ok(i) => i,
        Err(m) => {
            ctx.violation("slit:new:panic", || format!("SLIT::new({}) panicked: {}", l, m), || json!({"family":"slit","L":l,"ops":[]}));
            return (0, 0, false);
        }
    };
    let ll = l as usize;
    let judge = move |ops: &[SlitOp], img: &[u8]| -> bool {
        let want = slit_model(ll, ops);
        let mut ok = true;
        if img.len() != 44 + ll * ll || img[44..] != want[..] {
            ok = ctx.violation_sized(
                if ops.last().map(|o| o.0 == o.1).unwrap_or(false) { "slit:cell:diagonal" } else { "slit:cell" },
                ops.len() as u64,
                || format!("SLIT L={} after {:?}: matrix {} ; last-writer reference {}", l, ops, hex(&img[44.min(img.len())..]), hex(&want)),
                || json!({"family":"slit","L":l,"ops":ops}),
            );
        }
        if sum8(img) != 0 {
            ok = ctx.violation_sized(
                if ops.last().map(|o| o.0 == o.1).unwrap_or(false) { "slit:sum:diagonal" } else { "slit:sum" },
                ops.len() as u64,
                || format!("SLIT L={} after {:?}: image sums to {} mod 256", l, ops, sum8(img)),
                || json!({"family":"slit","L":l,"ops":ops}),
            ) && ok;
        }
        ok
    };
    let ok0 = judge(&[], &init_img);
    let m = FnModel::<Vec<u8>, Vec<SlitOp>, SlitOp> {
        init: vec![Node { key: init_img, aux: vec![], bad: !ok0 }],
        actions: Arc::new(move |_s, out| {
            for a in 0..l as u16 {
                for b in 0..l as u16 {
                    for v in vals {
                        out.push((a, b, *v));
                    }
                }
            }
        }),
        step: Arc::new(move |s, a| {
            let mut ops = s.aux.clone();
            ops.push(*a);
            match slit_real(l, &ops) {
                Ok(img) => {
                    ctx.distinct(crate::util::fnv(&img));
                    let ok = judge(&ops, &img);
                    if a.0 == a.1 {
                        ctx.witness("slit_diagonal_assignment");
                    }
                    if s.aux.iter().any(|o| (o.0, o.1) == (a.1, a.0) && o.0 != o.1) {
                        ctx.witness("slit_mirrored_reassignment");
                    }
                    Some(Node { key: img, aux: ops, bad: !ok })
                }
                Err(msg) => {
                    // every in-range pair must be accepted
                    let ok = ctx.violation_sized("slit:refused", ops.len() as u64, || format!("SLIT L={} refused in-range assignment {:?}: {}", l, a, msg), || json!({"family":"slit","L":l,"ops":ops}));
                    Some(Node { key: vec![], aux: ops, bad: !ok })
                }
            }
        }),
        boundary: Arc::new(|_| true),
        transitions: Arc::new(AtomicU64::new(0)),
    };
    let o = explore(m, 16, false, cap, true);
    if o.capped {
        ctx.cap(format!("SLIT L={} closure stopped at the state cap {}", l, cap));
    }
    (o.unique, o.transitions, !o.capped)
}

#[derive(Clone, Debug, PartialEq)]
enum HOp {
    Cell(u8, u8, u16),
    Init(u8, u32),
    Tgt(u8, u32),
    NonSeq,
    MinXfer,
}

fn hmat_real(f: &Fill, ni: usize, nt: usize, ops: &[HOp]) -> Result<(Vec<u8>, Vec<u8>), String> {
    hmat_real_obs(f, ni, nt, ops, false)
}
/// `observe`: serialise the structure after construction and after every operation (the history principle: an observation
/// between two assignments must not change what the later one does - a cache filled by serialising is state)
fn hmat_real_obs(f: &Fill, ni: usize, nt: usize, ops: &[HOp], observe: bool) -> Result<(Vec<u8>, Vec<u8>), String> {
    catch(|| {
        let f = &f.with(crate::fill::SZ, ni as u64).with(crate::fill::SX, nt as u64);
        let mut s = real_sll_new(f, sll_shape(0, 0, 0));
        if observe {
            let _ = ser(&s);
        }
        for o in ops {
            match o {
                HOp::Cell(i, j, v) => s.set_entry_value(*i as usize, *j as usize, *v),
                HOp::Init(i, v) => s.set_initiator_value(*i as usize, *v),
                HOp::Tgt(j, v) => s.set_target_value(*j as usize, *v),
                HOp::NonSeq => s.non_sequential_transfers(),
                HOp::MinXfer => s.minimum_transfer_size_required(),
            }
            if observe {
                let _ = ser(&s);
            }
        }
        let img = ser(&s);
        let c = Ctor::new(2, 0, 2);
        let mut t = hmat::HMAT::new(c.oem_id(), c.oem_table_id(), c.oem_rev());
        if observe {
            // ... and the table it goes into already holds another structure (a latency and a bandwidth matrix in one
            // HMAT is the ordinary case): "the table checksum stays valid throughout" is judged on that table too
            let other = real_sll_new(&f.with(crate::fill::SZ, 1).with(crate::fill::SX, 2), sll_shape(0, 0, 0));
            t.add_system_locality(other);
            t.add_system_locality(s);
            let table = ser(&t);
            if sum8(&table) != 0 || !table.ends_with(&img) || rd32(&table, 4) as usize != table.len() {
                panic!("as the SECOND structure of an HMAT: table sums to {} mod 256, Length {} of {} bytes, structure bytes at the end: {}", sum8(&table), rd32(&table, 4), table.len(), table.ends_with(&img));
            }
            return (img, table);
        }
        t.add_system_locality(s);
        (img, ser(&t))
    })
}
/// same as hmat_real / hmat_model, with the shape in the shape bits (leaves all three overrides of `f` to the caller)
fn hmat_real_f(f: &Fill, ni: usize, nt: usize, ops: &[HOp]) -> Result<(Vec<u8>, Vec<u8>), String> {
    catch(|| {
        let mut s = real_sll_new(f, sll_shape(ni, nt, 0));
        for o in ops {
            match o {
                HOp::Cell(i, j, v) => s.set_entry_value(*i as usize, *j as usize, *v),
                HOp::Init(i, v) => s.set_initiator_value(*i as usize, *v),
                HOp::Tgt(j, v) => s.set_target_value(*j as usize, *v),
                HOp::NonSeq => s.non_sequential_transfers(),
                HOp::MinXfer => s.minimum_transfer_size_required(),
            }
        }
        let img = ser(&s);
        let c = Ctor::new(2, 0, 2);
        let mut t = hmat::HMAT::new(c.oem_id(), c.oem_table_id(), c.oem_rev());
        t.add_system_locality(s);
        (img, ser(&t))
    })
}
fn hmat_model_f(f: &Fill, ni: usize, nt: usize, ops: &[HOp]) -> Vec<u8> {
    let mut cells = vec![0xffffu16; ni * nt];
    let mut inits = vec![0u32; ni];
    let mut tgts = vec![0u32; nt];
    let mut opts = 0u16;
    for o in ops {
        match o {
            HOp::Cell(i, j, v) => cells[*i as usize * nt + *j as usize] = *v,
            HOp::Init(i, v) => inits[*i as usize] = *v,
            HOp::Tgt(j, v) => tgts[*j as usize] = *v,
            HOp::NonSeq => opts |= 1,
            HOp::MinXfer => opts |= 2,
        }
    }
    let mut w = W::new();
    ref_sll_with(&mut w, f, sll_shape(ni, nt, opts), &inits, &tgts, &cells);
    w.0
}
/// reference: row-major cell (i, j) with stride = number of targets, default 0xFFFF; lists default 0
fn hmat_model(f: &Fill, ni: usize, nt: usize, ops: &[HOp]) -> Vec<u8> {
    let mut cells = vec![0xffffu16; ni * nt];
    let mut inits = vec![0u32; ni];
    let mut tgts = vec![0u32; nt];
    let mut opts = 0u16;
    for o in ops {
        match o {
            HOp::Cell(i, j, v) => cells[*i as usize * nt + *j as usize] = *v,
            HOp::Init(i, v) => inits[*i as usize] = *v,
            HOp::Tgt(j, v) => tgts[*j as usize] = *v,
            HOp::NonSeq => opts |= 1,
            HOp::MinXfer => opts |= 2,
        }
    }
    let mut w = W::new();
    let f = &f.with(crate::fill::SZ, ni as u64).with(crate::fill::SX, nt as u64);
    ref_sll_with(&mut w, f, sll_shape(0, 0, opts), &inits, &tgts, &cells);
    w.0
}

fn hmat_closure(ctx: &'static Ctx, ni: usize, nt: usize, acts: Vec<HOp>, label: &'static str, cap: usize) -> (u64, u64) {
    let f = Fill::b(2);
    let judge = move |ops: &[HOp], img: &[u8], table: &[u8]| -> bool {
        let want = hmat_model(&f, ni, nt, ops);
        let mut ok = true;
        if img != &want[..] {
            ok = ctx.violation_sized(
                &format!("hmat:cell:{}", if ni == nt { "square" } else { "non-square" }),
                ops.len() as u64,
                || format!("HMAT locality {}x{} after {:?}: structure {} ; reference (stride = targets) {}", ni, nt, ops, hex(img), hex(&want)),
                || json!({"family":"hmat-sll","initiators":ni,"targets":nt,"ops":format!("{:?}", ops)}),
            );
        }
        if sum8(table) != 0 || table.len() != 40 + img.len() || table[40..] != img[..] {
            ok = ctx.violation_sized("hmat:table", ops.len() as u64, || format!("HMAT holding that structure: sum {} len {}", sum8(table), table.len()), || json!({"family":"hmat-sll","initiators":ni,"targets":nt,"ops":format!("{:?}", ops)})) && ok;
        }
        ok
    };
    let (i0, t0) = match hmat_real(&f, ni, nt, &[]) {
        Ok(x) => x,
        Err(m) => {
            ctx.violation("hmat:new:panic", || format!("SystemLocality::new({}x{}) panicked: {}", ni, nt, m), || json!({"family":"hmat-sll","initiators":ni,"targets":nt}));
            return (0, 0);
        }
    };
    let ok0 = judge(&[], &i0, &t0);
    let acts2 = acts.clone();
    let m = FnModel::<Vec<u8>, Vec<HOp>, HOp> {
        init: vec![Node { key: i0, aux: vec![], bad: !ok0 }],
        actions: Arc::new(move |_s, out| out.extend(acts2.iter().cloned())),
        step: Arc::new(move |s, a| {
            let mut ops = s.aux.clone();
            ops.push(a.clone());
            match hmat_real(&f, ni, nt, &ops) {
                Ok((img, table)) => {
                    ctx.distinct(crate::util::fnv(&img));
                    let mut ok = judge(&ops, &img, &table);
                    // the same history with the structure serialised after every step
                    match hmat_real_obs(&f, ni, nt, &ops, true) {
                        Ok((img2, _)) if img2 == img => {}
                        other => {
                            ok = ctx.violation_sized(
                                "hmat:observed",
                                ops.len() as u64,
                                || format!("HMAT locality {}x{} after {:?}: serialising the structure between the operations changes the result: {}", ni, nt, ops, match &other { Ok((i2, _)) => format!("{} | {}", hex(i2), hex(&img)), Err(m) => format!("panicked: {}", m) }),
                                || json!({"family":"hmat-sll","initiators":ni,"targets":nt,"observed":true,"ops":format!("{:?}", ops)}),
                            ) && ok;
                        }
                    }
                    if ni != nt {
                        ctx.witness("hmat_non_square_shape");
                    }
                    Some(Node { key: img, aux: ops, bad: !ok })
                }
                Err(msg) => {
                    let ok = ctx.violation_sized(
                        &format!("hmat:refused:{}", if ni == nt { "square" } else { "non-square" }),
                        ops.len() as u64,
                        || format!("HMAT locality {}x{} refused in-range operation {:?} after {:?}: {}", ni, nt, a, s.aux, msg),
                        || json!({"family":"hmat-sll","initiators":ni,"targets":nt,"ops":format!("{:?}", ops)}),
                    );
                    Some(Node { key: vec![], aux: ops, bad: !ok })
                }
            }
        }),
        boundary: Arc::new(|_| true),
        transitions: Arc::new(AtomicU64::new(0)),
    };
    let o = explore(m, 16, false, cap, true);
    if o.capped {
        ctx.cap(format!("HMAT {}x{} {} closure stopped at the state cap {}", ni, nt, label, cap));
    }
    (o.unique, o.transitions)
}

pub fn run(ctx: &'static Ctx) {
    let quick = ctx.quick();
    // ---- SLIT closures
    let mut slit = vec![];
    let lmax = if quick { 3 } else { 4 };
    for l in 1..=lmax {
        // L=4 with three values closes at 3^10 = 59049 states
        let (u, t, closed) = slit_closure(ctx, l, &[10, 20, 0xff], 200_000_000);
        ctx.st(u);
        ctx.tr(t);
        slit.push(json!({"L": l, "values": [10, 20, 255], "unique_states": u, "transitions": t, "closed": closed, "expected_states": 3u64.pow(l * (l + 1) / 2)}));
        let want = 3u64.pow(l * (l + 1) / 2);
        if closed && !ctx.failed() && u != want {
            ctx.violation("slit:closure-size", || format!("SLIT L={} closure has {} states, the reference map has {}", l, u, want), || json!({"L": l}));
        }
    }
    if !quick {
        let (u, t, closed) = slit_closure(ctx, 5, &[10, 0xfe], 200_000_000);
        ctx.st(u);
        ctx.tr(t);
        slit.push(json!({"L": 5, "values": [10, 254], "unique_states": u, "transitions": t, "closed": closed, "expected_states": 1u64 << 15}));
    }
    ctx.engine("E1.slit-closures", json!(slit));

    // ---- HMAT closures: cells with the lists fixed; lists/options with the cells fixed; and both together on small shapes
    let shapes: Vec<(usize, usize)> = if quick { vec![(1, 1), (1, 2), (2, 1), (2, 2), (3, 2), (2, 3), (1, 3), (3, 1)] } else { vec![(1, 1), (1, 2), (2, 1), (2, 2), (3, 2), (2, 3), (1, 3), (3, 1), (3, 3), (4, 3), (3, 4)] };
    let mut hm = vec![];
    for (ni, nt) in shapes {
        let vals: &[u16] = if ni * nt > 9 { &[0, 0x1234] } else { &[0, 0x1234, 0xffff] };
        let mut cell_acts = vec![];
        for i in 0..ni {
            for j in 0..nt {
                for v in vals {
                    cell_acts.push(HOp::Cell(i as u8, j as u8, *v));
                }
            }
        }
        let (u, t) = hmat_closure(ctx, ni, nt, cell_acts.clone(), "cells", 200_000_000);
        ctx.st(u);
        ctx.tr(t);
        hm.push(json!({"shape": [ni, nt], "alphabet": "cells", "unique_states": u, "transitions": t}));
        let mut list_acts = vec![HOp::NonSeq, HOp::MinXfer];
        for i in 0..ni {
            for v in [0x1111_1111u32, 0xffff_fffe] {
                list_acts.push(HOp::Init(i as u8, v));
            }
        }
        for j in 0..nt {
            for v in [0x2222_2222u32, 0x8000_0001] {
                list_acts.push(HOp::Tgt(j as u8, v));
            }
        }
        let (u, t) = hmat_closure(ctx, ni, nt, list_acts.clone(), "lists+options", 200_000_000);
        ctx.st(u);
        ctx.tr(t);
        hm.push(json!({"shape": [ni, nt], "alphabet": "lists+options", "unique_states": u, "transitions": t}));
        if ni * nt <= 4 {
            // everything together: cells x lists x options
            let mut all = list_acts.clone();
            all.extend(cell_acts.iter().filter(|c| !matches!(c, HOp::Cell(_, _, 0xffff))).cloned());
            let (u, t) = hmat_closure(ctx, ni, nt, all, "all", 200_000_000);
            ctx.st(u);
            ctx.tr(t);
            hm.push(json!({"shape": [ni, nt], "alphabet": "cells+lists+options", "unique_states": u, "transitions": t}));
        }
    }
    ctx.engine("E1.hmat-closures", json!(hm));

    // ---- constructor arguments x untouched cells (E3): every locality type x data type x minimum transfer size on a 2x3
    // structure with (a) no cell assigned, (b) one cell assigned, (c) all but one assigned: a cell never assigned holds
    // 0xFFFF whatever the structure describes
    {
        let mut n = 0u64;
        for lt in 0..4u64 {
            for dt in 0..6u64 {
                for mt in 0..12u64 {
                    let f = Fill::b(2).with(0, lt).with(1, dt).with(2, mt);
                    let progs: Vec<Vec<HOp>> = vec![
                        vec![],
                        vec![HOp::Cell(1, 2, 0x1234)],
                        vec![HOp::Cell(0, 0, 1), HOp::Cell(0, 1, 2), HOp::Cell(0, 2, 3), HOp::Cell(1, 0, 4), HOp::Cell(1, 1, 5)],
                        vec![HOp::Init(0, 7), HOp::Tgt(2, 9), HOp::NonSeq],
                    ];
                    for ops in progs {
                        n += 1;
                        ctx.tr(1);
                        // hmat_real/hmat_model add the size overrides themselves: only one override slot is left, so the
                        // shape travels in the fill's size fields and the enum arguments in the three overrides above
                        let want = hmat_model_f(&f, 2, 3, &ops);
                        match hmat_real_f(&f, 2, 3, &ops) {
                            Ok((img, table)) => {
                                ctx.distinct(crate::util::fnv(&img));
                                if img != want || sum8(&table) != 0 {
                                    let d = crate::util::first_diff(&img, &want).unwrap_or(0);
                                    ctx.violation_sized(
                                        "hmat:cell:constructor-arguments",
                                        ops.len() as u64,
                                        || format!("HMAT locality 2x3 (locality type {}, data type {}, min transfer {}) after {:?}: differs from the last-writer reference at byte {}: {} | {}", lt, dt, mt, ops, d, hex(&img[d.min(img.len())..(d + 8).min(img.len())]), hex(&want[d.min(want.len())..(d + 8).min(want.len())])),
                                        || json!({"family":"hmat-sll-args","locality_type":lt,"data_type":dt,"min_transfer":mt,"ops":format!("{:?}", ops)}),
                                    );
                                }
                            }
                            Err(m) => {
                                ctx.violation_sized("hmat:refused:constructor-arguments", ops.len() as u64, || format!("HMAT locality 2x3 (type {}, data {}, transfer {}) refused {:?}: {}", lt, dt, mt, ops, m), || json!({"family":"hmat-sll-args","locality_type":lt,"data_type":dt,"min_transfer":mt}));
                            }
                        }
                    }
                }
            }
        }
        ctx.st(n);
        ctx.engine("E3.hmat-constructor-arguments", json!({"programs": n, "what": "4 locality types x 6 data types x 12 transfer sizes x {untouched, one cell, all but one cell, lists+option} on a 2x3 structure"}));
    }

    // ---- cell values (E3, the value principle): every 16-bit value in a cell of a fresh structure; followed by an ordinary
    // value in another cell; preceded by one; overwritten by its neighbour value — a storage scheme that treats one value
    // specially (a sentinel, a narrow representation) is met at that value. Initiator / target ids through util::value_set.
    {
        use rayon::prelude::*;
        let f = Fill::b(2);
        let n = AtomicU64::new(0);
        let shapes: [(usize, usize); 3] = [(1, 1), (2, 2), (2, 3)];
        (0..=0xffffu32).into_par_iter().for_each(|v| {
            let v = v as u16;
            for (ni, nt) in shapes {
                let (li, lj) = ((ni - 1) as u8, (nt - 1) as u8);
                let mut progs: Vec<Vec<HOp>> = vec![vec![HOp::Cell(0, 0, v)], vec![HOp::Cell(0, 0, v), HOp::Cell(0, 0, v ^ 1)], vec![HOp::Cell(0, 0, v ^ 1), HOp::Cell(0, 0, v)]];
                if ni * nt > 1 {
                    progs.push(vec![HOp::Cell(0, 0, v), HOp::Cell(li, lj, 0x1234)]);
                    progs.push(vec![HOp::Cell(li, lj, 0x1234), HOp::Cell(0, 0, v)]);
                    progs.push(vec![HOp::Cell(li, lj, v), HOp::Cell(0, 0, 0x00fe), HOp::Cell(0, lj, 0x0100)]);
                }
                for ops in progs {
                    n.fetch_add(1, std::sync::atomic::Ordering::Relaxed);
                    let want = hmat_model(&f, ni, nt, &ops);
                    if v % 257 == 0 || v < 300 {
                        let observed = hmat_real_obs(&f, ni, nt, &ops, true).map(|x| x.0).unwrap_or_default();
                        if observed != want {
                            ctx.violation_sized("hmat:observed", v as u64, || format!("HMAT locality {}x{} after {:?} with the structure serialised after every step: differs from the last-writer reference (or panicked)", ni, nt, ops), || json!({"family":"hmat-sll","initiators":ni,"targets":nt,"observed":true,"ops":format!("{:?}", ops)}));
                        }
                    }
                    match hmat_real(&f, ni, nt, &ops) {
                        Ok((img, table)) => {
                            if img != want || sum8(&table) != 0 {
                                let d = crate::util::first_diff(&img, &want).unwrap_or(0);
                                ctx.violation_sized(
                                    "hmat:cell:value",
                                    v as u64,
                                    || format!("HMAT locality {}x{} after {:?}: differs from the last-writer reference at byte {}: {} | {}", ni, nt, ops, d, hex(&img[d.min(img.len())..(d + 8).min(img.len())]), hex(&want[d.min(want.len())..(d + 8).min(want.len())])),
                                    || json!({"family":"hmat-sll","initiators":ni,"targets":nt,"ops":format!("{:?}", ops)}),
                                );
                            }
                        }
                        Err(m) => {
                            ctx.violation_sized("hmat:refused:value", v as u64, || format!("HMAT locality {}x{} refused {:?}: {}", ni, nt, ops, m), || json!({"family":"hmat-sll","initiators":ni,"targets":nt,"ops":format!("{:?}", ops)}));
                        }
                    }
                }
            }
        });
        let ids = crate::util::value_set(32, 0x0403_0201, quick);
        ids.par_iter().for_each(|v| {
            let v = *v as u32;
            for ops in [vec![HOp::Init(0, v)], vec![HOp::Tgt(1, v)], vec![HOp::Init(1, v), HOp::Tgt(0, v), HOp::Cell(1, 1, v as u16)], vec![HOp::Init(0, v), HOp::Init(0, !v), HOp::Tgt(1, !v), HOp::Tgt(1, v)]] {
                n.fetch_add(1, std::sync::atomic::Ordering::Relaxed);
                let want = hmat_model(&f, 2, 2, &ops);
                match hmat_real(&f, 2, 2, &ops) {
                    Ok((img, table)) if img == want && sum8(&table) == 0 => {}
                    other => {
                        ctx.violation_sized("hmat:list:value", v as u64, || format!("HMAT locality 2x2 after {:?}: {}", ops, match &other { Ok((img, _)) => format!("structure {} ; reference {}", hex(img), hex(&want)), Err(m) => format!("refused: {}", m) }), || json!({"family":"hmat-sll","initiators":2,"targets":2,"ops":format!("{:?}", ops)}));
                    }
                }
            }
        });
        // SLIT: every distance value in a cell, alone, overwritten, and beside every other value in the mirrored pair
        let sn = AtomicU64::new(0);
        (0..=255u16).into_par_iter().for_each(|v| {
            let v = v as u8;
            for w in 0..=255u8 {
                for (l, ops) in [(2u32, vec![(0u16, 1u16, v), (1, 0, w)]), (3, vec![(0, 2, v), (1, 1, w), (2, 0, w)]), (3, vec![(1, 2, v), (1, 2, w), (0, 0, v)])] {
                    sn.fetch_add(1, std::sync::atomic::Ordering::Relaxed);
                    let want = slit_model(l as usize, &ops);
                    match slit_real(l, &ops) {
                        Ok(img) if img.len() == 44 + want.len() && img[44..] == want[..] && sum8(&img) == 0 => {}
                        other => {
                            ctx.violation_sized("slit:cell:value", v as u64 * 256 + w as u64, || format!("SLIT L={} after {:?}: {}", l, ops, match &other { Ok(img) => format!("matrix {} ; reference {}", hex(&img[44.min(img.len())..]), hex(&want)), Err(m) => format!("refused: {}", m) }), || json!({"family":"slit","L":l,"ops":format!("{:?}", ops)}));
                        }
                    }
                }
            }
        });
        let total = n.load(std::sync::atomic::Ordering::Relaxed) + sn.load(std::sync::atomic::Ordering::Relaxed);
        ctx.st(total);
        ctx.tr(total);
        ctx.engine("E3.cell-values", json!({"hmat_programs": n.load(std::sync::atomic::Ordering::Relaxed), "slit_programs": sn.load(std::sync::atomic::Ordering::Relaxed), "hmat_cell_values": "all 65536 on 1x1, 2x2, 2x3 in six program forms", "hmat_ids": ids.len(), "slit_values": "all 256 x 256 pairs in three program forms"}));
    }

    // ---- shape sweeps (E3): every shape of a grid, one program each: every cell assigned a distinct value in
    // row-major, column-major or reverse order, then three cells overwritten; the whole matrix is compared after the
    // fill and after the overwrites. Sizes and cell counts cross 256, 512 and 1024.
    {
        use rayon::prelude::*;
        let g: usize = if quick { 34 } else { 64 };
        let shapes: Vec<(usize, usize)> = (1..=g).flat_map(|i| (1..=g).map(move |t| (i, t))).filter(|(i, t)| !quick || *i <= 6 || *t <= 6 || (i * t) % 3 == 2 || (250..=290).contains(&(i * t)) || (500..=530).contains(&(i * t)) || (1010..=1040).contains(&(i * t))).collect();
        let n = AtomicU64::new(0);
        shapes.par_iter().for_each(|(ni, nt)| {
            let (ni, nt) = (*ni, *nt);
            let f = Fill::b(2);
            // orders 3 and 4: the same value in consecutive assignments (all cells one value, row- and column-major)
            for order in 0..5 {
                let mut cells: Vec<(usize, usize)> = (0..ni).flat_map(|i| (0..nt).map(move |j| (i, j))).collect();
                match order {
                    1 | 4 => cells.sort_by_key(|(i, j)| (*j, *i)),
                    2 => cells.reverse(),
                    _ => {}
                }
                if order > 0 && ni * nt > 300 && (ni + nt) % 4 != 0 {
                    continue;
                }
                let mut ops: Vec<HOp> = cells.iter().map(|(i, j)| HOp::Cell(*i as u8, *j as u8, if order >= 3 { 0x1234 } else { ((i * nt + j) as u16).wrapping_mul(0x0101).wrapping_add(1) })).collect();
                for cut in [ops.len(), usize::MAX] {
                    if cut == usize::MAX {
                        ops.push(HOp::Cell(0, 0, 0xabcd));
                        ops.push(HOp::Cell((ni - 1) as u8, (nt - 1) as u8, 0));
                        ops.push(HOp::Cell((ni / 2) as u8, (nt / 2) as u8, 0xffff));
                        ops.push(HOp::Init((ni - 1) as u8, 0x0403_0201));
                        ops.push(HOp::Tgt((nt - 1) as u8, 0x0807_0605));
                    }
                    n.fetch_add(1, std::sync::atomic::Ordering::Relaxed);
                    ctx.tr(ops.len() as u64);
                    let want = hmat_model(&f, ni, nt, &ops);
                    match hmat_real(&f, ni, nt, &ops) {
                        Ok((img, table)) => {
                            ctx.distinct(crate::util::fnv(&img));
                            if img != want {
                                let d = crate::util::first_diff(&img, &want).unwrap_or(0);
                                ctx.violation_sized(
                                    "hmat:cell:large-shape",
                                    (ni * nt) as u64,
                                    || format!("HMAT locality {}x{} with every cell assigned (order {}): structure differs from the last-writer reference at byte {} ({} vs {} bytes)", ni, nt, order, d, img.len(), want.len()),
                                    || json!({"family":"hmat-sll-sweep","initiators":ni,"targets":nt,"order":order}),
                                );
                            }
                            if sum8(&table) != 0 || table.len() != 40 + img.len() {
                                ctx.violation_sized("hmat:table:large-shape", (ni * nt) as u64, || format!("HMAT holding a {}x{} structure: sum {} len {} (structure {})", ni, nt, sum8(&table), table.len(), img.len()), || json!({"family":"hmat-sll-sweep","initiators":ni,"targets":nt,"order":order}));
                            }
                        }
                        Err(m) => {
                            ctx.violation_sized("hmat:refused:large-shape", (ni * nt) as u64, || format!("HMAT locality {}x{} refused an in-range assignment: {}", ni, nt, m), || json!({"family":"hmat-sll-sweep","initiators":ni,"targets":nt,"order":order}));
                        }
                    }
                }
            }
        });
        // very large shapes (the cell count passes 65535 although neither dimension is extreme; and extreme x 1): accepted,
        // every cell assigned, compared
        let big: Vec<(usize, usize)> = if quick { vec![(256, 256), (300, 300), (255, 257), (1, 65_536), (65_537, 1), (2, 40_000)] } else { vec![(256, 256), (300, 300), (255, 257), (1, 65_536), (65_537, 1), (2, 40_000), (1000, 1000), (3, 70_000)] };
        big.par_iter().for_each(|(ni, nt)| {
            let (ni, nt) = (*ni, *nt);
            let f = Fill::b(2);
            n.fetch_add(1, std::sync::atomic::Ordering::Relaxed);
            let r = catch(|| {
                let ff = f.with(crate::fill::SZ, ni as u64).with(crate::fill::SX, nt as u64);
                let mut s = real_sll_new(&ff, sll_shape(0, 0, 0));
                let mut cells = vec![0xffffu16; ni * nt];
                for i in (0..ni).step_by(1 + ni / 300) {
                    for j in (0..nt).step_by(1 + nt / 300) {
                        let v = ((i * 31 + j * 7) as u16) | 1;
                        s.set_entry_value(i, j, v);
                        cells[i * nt + j] = v;
                    }
                }
                s.set_entry_value(ni - 1, nt - 1, 0x1234);
                cells[ni * nt - 1] = 0x1234;
                let img = ser(&s);
                let mut w = W::new();
                ref_sll_with(&mut w, &ff, sll_shape(0, 0, 0), &vec![0u32; ni], &vec![0u32; nt], &cells);
                let c = Ctor::new(2, 0, 2);
                let mut t = hmat::HMAT::new(c.oem_id(), c.oem_table_id(), c.oem_rev());
                t.add_system_locality(s);
                let table = ser(&t);
                (img == w.0, crate::util::first_diff(&img, &w.0), sum8(&table), table.len() == 40 + img.len())
            });
            ctx.tr((ni * nt) as u64 / 64);
            match r {
                Ok((true, _, 0, true)) => {}
                Ok((same, d, sum, lenok)) => {
                    ctx.violation_sized("hmat:cell:very-large-shape", (ni * nt) as u64, || format!("HMAT locality {}x{}: structure equals the reference: {} (first difference {:?}); table sum {} ; table length consistent: {}", ni, nt, same, d, sum, lenok), || json!({"family":"hmat-sll-sweep","initiators":ni,"targets":nt}));
                }
                Err(m) => {
                    ctx.violation_sized("hmat:refused:very-large-shape", (ni * nt) as u64, || format!("HMAT locality {}x{} (a shape whose size fits the 32-bit length field) was refused: {}", ni, nt, m), || json!({"family":"hmat-sll-sweep","initiators":ni,"targets":nt}));
                }
            }
        });
        ctx.st(n.load(std::sync::atomic::Ordering::Relaxed));
        ctx.engine("E3.hmat-shape-sweep", json!({"grid": g, "shapes": shapes.len(), "programs": n.load(std::sync::atomic::Ordering::Relaxed), "orders": ["row-major", "column-major", "reverse", "one value row-major", "one value column-major"]}));
        // SLIT: every L up to the grid size: all cells of the upper triangle assigned distinct values (both argument orders), then compared
        let lmax: u32 = if quick { 40 } else { 100 };
        let m = AtomicU64::new(0);
        let ls: Vec<u32> = (1..=lmax).chain([128, 200, 254, 255, 256, 257, 300, 400]).collect();
        ls.into_par_iter().for_each(|l| {
            // orders 2..4: the SAME value in consecutive assignments (all cells one value; one value column by column; runs of
            // three equal values): a "this repeats the previous call" shortcut keyed to a narrowed pair shows only then
            for order in 0..5 {
                let mut ops: Vec<SlitOp> = vec![];
                let mut idx = 0u32;
                for a in 0..l {
                    for b in a..l {
                        let v = match order {
                            0 | 1 => (11 + (a * 7 + b * 3) % 240) as u8,
                            2 => 20,
                            3 => 0xfe,
                            _ => (11 + (idx / 3) % 200) as u8,
                        };
                        idx += 1;
                        ops.push(if order == 0 || order == 2 { (a as u16, b as u16, v) } else { (b as u16, a as u16, v) });
                    }
                }
                if order == 3 {
                    // column by column instead of row by row
                    ops.sort_by_key(|(a, b, _)| (*b.min(a), *a.max(b)));
                }
                if order == 1 {
                    ops.reverse();
                    ops.push((0, 0, 10));
                    ops.push(((l - 1) as u16, 0, 0xfe));
                }
                m.fetch_add(1, std::sync::atomic::Ordering::Relaxed);
                ctx.tr(ops.len() as u64);
                let want = slit_model(l as usize, &ops);
                match slit_real(l, &ops) {
                    Ok(img) => {
                        ctx.distinct(crate::util::fnv(&img));
                        if img.len() != 44 + want.len() || img[44..] != want[..] {
                            ctx.violation_sized("slit:cell:large", l as u64, || format!("SLIT L={} with every pair assigned (order {}): matrix differs from the last-writer reference at {:?}", l, order, crate::util::first_diff(&img[44.min(img.len())..], &want)), || json!({"family":"slit-sweep","L":l,"order":order}));
                        }
                        if sum8(&img) != 0 {
                            ctx.violation_sized("slit:sum:large", l as u64, || format!("SLIT L={} with every pair assigned: image sums to {}", l, sum8(&img)), || json!({"family":"slit-sweep","L":l,"order":order}));
                        }
                    }
                    Err(msg) => {
                        ctx.violation_sized("slit:refused:large", l as u64, || format!("SLIT L={} refused an in-range assignment: {}", l, msg), || json!({"family":"slit-sweep","L":l,"order":order}));
                    }
                }
            }
        });
        ctx.st(m.load(std::sync::atomic::Ordering::Relaxed));
        ctx.engine("E3.slit-size-sweep", json!({"L": format!("1..={} and 128, 200, 254..257, 300, 400", lmax), "programs": m.load(std::sync::atomic::Ordering::Relaxed)}));
    }
    ctx.force_sample(json!({"slit": {"L": 3, "ops": [[1, 1, 20], [0, 2, 255], [2, 0, 10]]}, "expected_matrix": "0a 0a 0a / 0a 14 0a / 0a 0a 0a"}));
    ctx.force_sample(json!({"hmat": {"shape": [3, 2], "ops": ["Cell(2,1,0x1234)", "Cell(1,0,0)"]}, "expected_cells": "ffff ffff 0000 ffff ffff 1234"}));
    ctx.set("bound", json!("closures (no depth bound) for the listed shapes and value sets; every transition judged"));
}

pub const RULE: &str = "stateright closure per shape: SLIT L=1..3 (4 and 5 thorough) over every ordered pair incl. diagonal x {10,20,255}; HMAT shapes incl. 1xn, nx1, non-square, over every cell x {0,0x1234,0xFFFF}, list setters and option setters; plus shape sweeps: every HMAT shape of a grid (quick 34x34 subset, thorough 64x64) and every SLIT size up to 40 (100) with every cell assigned and some overwritten. Every transition is executed on the real object and compared with a last-writer reference map; the structure is also added to an HMAT whose checksum is checked. distinct = unique canonical states";
pub const ASSUME: &[&str] = &["larger shapes and other values are not enumerated", "behaviour for out-of-range indices is not judged (the property speaks of in-range pairs)"];
