//! C06 — emitted AML parses back to exactly the term tree the caller built.
use crate::aml::gen;
use crate::aml::parse::{parse_all, N};
use crate::aml::tree::{arities, expect, has_builder, real, real_from_origin, T};
use crate::ev::Ctx;
use crate::util::{catch, fnv, hex};
use rayon::prelude::*;
use serde_json::json;
use std::sync::atomic::{AtomicU64, Ordering};

/// machine-readable program for replays (omitted for very large programs)
pub fn tjson(t: &T) -> serde_json::Value {
    match serde_json::to_value(t) {
        Ok(v) if v.to_string().len() < 200_000 => v,
        _ => serde_json::Value::Null,
    }
}
fn short(t: &T) -> String {
    let s = format!("{:?}", t);
    if s.len() > 300 {
        format!("{}...", &s[..300])
    } else {
        s
    }
}

fn ok(t: &T) -> bool {
    let bytes = match catch(|| real(t)) {
        Ok(b) => b,
        Err(_) => return false,
    };
    let mut ar = vec![];
    arities(t, &mut ar);
    matches!(parse_all(&bytes, &ar), Ok(ns) if ns.len() == 1 && ns[0] == expect(t))
}
/// innermost sub-term that fails on its own (so one defective constructor yields one key, not one per parent)
fn blame(t: &T) -> &T {
    for c in t.children() {
        if !ok(c) {
            return blame(c);
        }
    }
    t
}

/// build with the crate, parse with the oracle, compare with the prescribed tree
pub fn check(ctx: &Ctx, who: &str, family: &'static str, t: &T) {
    if !ok(t) {
        let b = blame(t);
        if !std::ptr::eq(b, t) {
            return check_one(ctx, &b.ctor_name(), family, b);
        }
    }
    check_one(ctx, who, family, t)
}
fn check_one(ctx: &Ctx, who: &str, family: &'static str, t: &T) {
    ctx.tr(1);
    let bytes = match catch(|| real(t)) {
        Ok(b) => b,
        Err(m) => {
            ctx.violation_sized(&format!("aml:{}:panic", who), 0, || format!("{} [{}]: building/serialising panicked: {} ; program {}", who, family, m, short(t)), || json!({"family":"aml","ctor":who,"program":short(t),"t":tjson(t)}));
            return;
        }
    };
    ctx.distinct(fnv(&bytes));
    let mut ar = vec![];
    arities(t, &mut ar);
    let want = expect(t);
    let size = bytes.len() as u64;
    if has_builder(t) {
        // the normaliser principle for builders: a builder obtained through `Default` (or left behind by `core::mem::take`)
        // is a builder, and the term it builds is the same term
        for (origin, how) in [(1u8, "PackageBuilder::default()"), (2, "a builder left behind by core::mem::take")] {
            ctx.tr(1);
            let got = catch(|| real_from_origin(t, origin));
            if got.as_ref().ok() != Some(&bytes) {
                ctx.violation_sized(
                    &format!("aml:{}:builder-origin{}", who, origin),
                    size,
                    || format!("{} [{}]: built through {} the term serialises differently: {} vs {} ; program {}", who, family, how, match &got { Ok(g) => hex(&g[..g.len().min(48)]), Err(m) => format!("panic: {}", m) }, hex(&bytes[..bytes.len().min(48)]), short(t)),
                    || json!({"family":"aml","ctor":who,"program":short(t),"t":tjson(t),"builder_origin":origin}),
                );
            }
        }
    }
    match parse_all(&bytes, &ar) {
        Err(why) => {
            ctx.violation_sized(
                &format!("aml:{}:parse", who),
                size,
                || format!("{} [{}]: emitted bytes do not parse: {} ; bytes {} ; program {}", who, family, why, hex(&bytes[..bytes.len().min(48)]), short(t)),
                || json!({"family":"aml","ctor":who,"program":short(t),"t":tjson(t),"bytes":hex(&bytes[..bytes.len().min(256)])}),
            );
        }
        Ok(ns) => {
            if ns.len() != 1 || ns[0] != want {
                ctx.violation_sized(
                    &format!("aml:{}:tree", who),
                    size,
                    || {
                        let got = format!("{:?}", ns);
                        let w = format!("{:?}", want);
                        format!("{} [{}]: parsed tree differs from the program: got {} want {} ; bytes {}", who, family, &got[..got.len().min(300)], &w[..w.len().min(300)], hex(&bytes[..bytes.len().min(48)]))
                    },
                    || json!({"family":"aml","ctor":who,"program":short(t),"t":tjson(t),"bytes":hex(&bytes[..bytes.len().min(256)])}),
                );
            }
        }
    }
}

fn product(f: &[T], slots: usize) -> Vec<Vec<T>> {
    let mut out: Vec<Vec<T>> = vec![vec![]];
    for _ in 0..slots {
        let mut next = vec![];
        for p in &out {
            for x in f {
                let mut q = p.clone();
                q.push(x.clone());
                next.push(q);
            }
        }
        out = next;
    }
    out
}

/// every sequence of up to 3 (thorough: 4) field entries over {named, reserved} x widths on both sides of every PkgLength
/// class boundary: an entry's encoding must not depend on the entries before it
pub fn field_sequences(ctx: &'static Ctx) -> u64 {
    let widths: [usize; 8] = [1, 62, 63, 64, 192, 4095, 4096, 0x10_0000];
    let mut alpha: Vec<(Option<[u8; 4]>, usize)> = vec![];
    for (i, w) in widths.iter().enumerate() {
        alpha.push((None, *w));
        alpha.push((Some([b'F', b'A' + i as u8, b'_', b'0' + i as u8]), *w));
    }
    let depth = if ctx.quick() { 3 } else { 4 };
    let mut seqs: Vec<Vec<(Option<[u8; 4]>, usize)>> = vec![vec![]];
    let mut frontier = seqs.clone();
    for _ in 0..depth {
        let mut next = vec![];
        for s in &frontier {
            for a in &alpha {
                let mut q = s.clone();
                q.push(*a);
                next.push(q);
            }
        }
        seqs.extend(next.iter().cloned());
        frontier = next;
    }
    // long runs (an accumulated quantity - the running bit position, the entry count, the list's byte length - crossing
    // 2^8, 2^16, 2^31, 2^32 and beyond): n entries of one width, n = 1..=40 and around 255 / 256 / 4096, for widths from 1 bit
    // to the largest legal one, named and reserved, followed by a named and a reserved entry of ordinary width
    for w in [1usize, 8, 255, 256, 65_535, 65_536, 1 << 20, 1 << 24, 1 << 27, (1 << 28) - 1] {
        for n in (1..=40usize).chain([127, 128, 255, 256, 257, 300, 4095, 4096, 4097]) {
            for named in [false, true] {
                if n > 300 && named {
                    continue;
                }
                let mut q: Vec<(Option<[u8; 4]>, usize)> = (0..n).map(|i| (if named { Some([b'R', b'A' + (i / 36 % 26) as u8, b'A' + (i % 26) as u8, b'0' + (i / 26 % 10) as u8]) } else { None }, w)).collect();
                q.push((Some(*b"CTL0"), 32));
                q.push((None, 8));
                q.push((Some(*b"CTL1"), w));
                seqs.push(q);
            }
        }
    }
    let n = seqs.len() as u64;
    seqs.par_iter().enumerate().for_each(|(i, es)| {
        check(ctx, "Field", "entry sequences", &T::Field(if i % 2 == 0 { "FLD0".into() } else { "\\_SB_.FLD1".into() }, (i % 6) as u8, (i % 2) as u8, (i % 3) as u8, es.clone()));
    });
    n
}

pub fn run(ctx: &'static Ctx) {
    let f = gen::fillers();
    let quick = ctx.quick();
    // ---- family (i): every constructor at the root, every child slot over F
    let n1 = AtomicU64::new(0);
    let fixed = gen::fixed_ctors();
    fixed.par_iter().for_each(|c| {
        for kids in product(&f, c.slots) {
            check(ctx, &c.name, "root x F^slots", &(c.build)(&kids));
            n1.fetch_add(1, Ordering::Relaxed);
        }
    });
    let lists = gen::lists3();
    let lcs = gen::list_ctors();
    lcs.par_iter().for_each(|c| {
        for l in &lists {
            check(ctx, &c.name, "root x lists(F, <=3)", &(c.build)(l.clone()));
            n1.fetch_add(1, Ordering::Relaxed);
        }
    });
    // longer child lists: k copies of a filler for k up to 16 and at 64, 254, 255 (Package counts one byte)
    lcs.par_iter().for_each(|c| {
        for k in (4..=16usize).chain([64, 254, 255]) {
            for x in [&f[1], &f[5], &f[7]] {
                check(ctx, &c.name, "root x k copies", &(c.build)(vec![x.clone(); k]));
                n1.fetch_add(1, Ordering::Relaxed);
            }
        }
    });
    // containers whose child count has no field of its own (everything but Package / PackageBuilder): 256, 257, 300
    // and 1000 children are as legal as 255
    lcs.par_iter().filter(|c| !c.name.starts_with("Package")).for_each(|c| {
        for k in [256usize, 257, 300, 1000] {
            check(ctx, &c.name, "root x k copies", &(c.build)(vec![f[1].clone(); k]));
            n1.fetch_add(1, Ordering::Relaxed);
        }
    });
    let leaves = gen::leaves();
    for (n, t) in &leaves {
        check(ctx, n, "leaf variants", t);
        n1.fetch_add(1, Ordering::Relaxed);
    }
    ctx.engine("E4.roots", json!({"fixed_ctors": fixed.len(), "list_ctors": lcs.len(), "leaf_variants": leaves.len(), "programs": n1.load(Ordering::Relaxed), "fillers": f.len()}));

    // ---- family (ii): every ordered (parent, slot, child) constructor pair
    let canon = gen::canon();
    let n2 = AtomicU64::new(0);
    fixed.par_iter().for_each(|c| {
        for s in 0..c.slots {
            for (cn, child) in &canon {
                let mut kids: Vec<T> = (0..c.slots).map(|_| f[0].clone()).collect();
                kids[s] = child.clone();
                check(ctx, &c.name, "parent/slot/child pairs", &(c.build)(&kids));
                let _ = cn;
                n2.fetch_add(1, Ordering::Relaxed);
            }
        }
    });
    lcs.par_iter().for_each(|c| {
        for (_, child) in &canon {
            for pos in 0..2 {
                let kids = if pos == 0 { vec![child.clone(), f[1].clone()] } else { vec![f[1].clone(), child.clone()] };
                check(ctx, &c.name, "parent/slot/child pairs", &(c.build)(kids));
                n2.fetch_add(1, Ordering::Relaxed);
            }
        }
    });
    ctx.engine("E4.pairs", json!({"canonical_children": canon.len(), "programs": n2.load(Ordering::Relaxed)}));

    // ---- family (ii-b): depth-3 chains parent / child constructor / canonical grandchild (quick: every 9th grandchild)
    let step3 = if quick { 9 } else { 1 };
    {
        let n2b = AtomicU64::new(0);
        let mids: Vec<(usize, usize)> = (0..fixed.len()).flat_map(|c| (0..fixed[c].slots).map(move |s| (c, s))).collect();
        fixed.par_iter().for_each(|p| {
            for ps in 0..p.slots {
                for (mc, ms) in &mids {
                    let m = &fixed[*mc];
                    for (_, g) in canon.iter().step_by(step3) {
                        let mut mk: Vec<T> = (0..m.slots).map(|_| f[0].clone()).collect();
                        mk[*ms] = g.clone();
                        let mut pk: Vec<T> = (0..p.slots).map(|_| f[4].clone()).collect();
                        pk[ps] = (m.build)(&mk);
                        check(ctx, &p.name, "depth-3 chains", &(p.build)(&pk));
                        n2b.fetch_add(1, Ordering::Relaxed);
                    }
                }
            }
        });
        lcs.par_iter().for_each(|p| {
            for (mc, ms) in &mids {
                let m = &fixed[*mc];
                for (_, g) in canon.iter().step_by(step3) {
                    let mut mk: Vec<T> = (0..m.slots).map(|_| f[0].clone()).collect();
                    mk[*ms] = g.clone();
                    check(ctx, &p.name, "depth-3 chains", &(p.build)(vec![f[2].clone(), (m.build)(&mk)]));
                    n2b.fetch_add(1, Ordering::Relaxed);
                }
            }
        });
        ctx.st(n2b.load(Ordering::Relaxed));
        ctx.engine("E4.depth3", json!({"programs": n2b.load(Ordering::Relaxed)}));
    }

    // ---- family (iii): every nesting triple of the length-prefixed kinds (depth-3 pairs in thorough: with every canonical leaf inside)
    let wr = gen::wrappers();
    let n3 = AtomicU64::new(0);
    let nw = wr.len();
    let idx: Vec<(usize, usize, usize)> = (0..nw).flat_map(|a| (0..nw).flat_map(move |b| (0..nw).map(move |c| (a, b, c)))).collect();
    idx.par_iter().for_each(|(a, b, c)| {
        let inner: Vec<T> = if quick { vec![f[1].clone()] } else { vec![f[1].clone(), f[5].clone(), f[8].clone()] };
        for x in inner {
            let t = (wr[*a].build)(vec![(wr[*b].build)(vec![(wr[*c].build)(vec![x])])]);
            check(ctx, &wr[*a].name, "nesting triples", &t);
            n3.fetch_add(1, Ordering::Relaxed);
        }
    });
    ctx.engine("E4.nesting", json!({"kinds": wr.len(), "programs": n3.load(Ordering::Relaxed)}));

    // ---- family (iv): every length-prefixed kind with every body size 0..=4200 and around 2^20
    let mut pads: Vec<usize> = (0..=4200).collect();
    for d in 0..=16usize {
        pads.push((1 << 20) - 12 + d);
    }
    if !quick {
        // both sides of 2^20 for two nested levels as well
        for d in 0..=16usize {
            pads.push((1 << 20) - 30 + d);
        }
    }
    let n4 = AtomicU64::new(0);
    let work: Vec<(usize, usize)> = (0..nw).flat_map(|k| pads.iter().map(move |p| (k, *p))).collect();
    work.par_iter().for_each(|(k, pad)| {
        let s = T::Str("S".repeat(*pad), true);
        let t = (wr[*k].build)(vec![s.clone()]);
        check(ctx, &wr[*k].name, "body size sweep", &t);
        n4.fetch_add(1, Ordering::Relaxed);
        if *pad >= 4000 && (*pad <= 4200 || !quick) {
            // nested: the outer object's width changes while the inner one's does not (and vice versa)
            let t2 = (wr[(*k + 1) % wr.len()].build)(vec![(wr[*k].build)(vec![s])]);
            check(ctx, &wr[(*k + 1) % wr.len()].name, "body size sweep (nested)", &t2);
            n4.fetch_add(1, Ordering::Relaxed);
        }
    });
    // BufferData and Field have their own padding
    pads.par_iter().for_each(|pad| {
        check(ctx, "BufferData", "body size sweep", &T::BufferData(vec![0x5a; *pad]));
        n4.fetch_add(1, Ordering::Relaxed);
        if *pad <= 4200 {
            let es = (0..*pad).map(|i| if i % 2 == 0 { (None, i % 70) } else { (Some(*b"F___"), 1 + i % 5000) }).collect();
            check(ctx, "Field", "body size sweep", &T::Field("FLD0".into(), 1, 0, 0, es));
            n4.fetch_add(1, Ordering::Relaxed);
        }
    });
    let nfs = field_sequences(ctx);
    n4.fetch_add(nfs, Ordering::Relaxed);
    // resource templates whose last (and only, and first) descriptor ends in every possible byte pair: an IO descriptor ends
    // in (alignment, length), a Memory32Fixed in the two high bytes of its length - small and large item alike; plus the
    // framing look-alikes of C10 in every position
    {
        use crate::aml::res::R;
        let nt = AtomicU64::new(0);
        (0..=0xffffu32).into_par_iter().for_each(|pair| {
            let (a, b) = ((pair >> 8) as u8, pair as u8);
            let io = R::Io(0x3f8, 0x3ff, a, b);
            let mem = R::Mem32Fixed(true, 0xfed0_0000, (pair << 16) | 0x1000);
            for t in [vec![io.clone()], vec![mem.clone()], vec![mem.clone(), io.clone()], vec![io.clone(), mem.clone()]] {
                check(ctx, "ResourceTemplate", "last descriptor ends in every byte pair", &T::ResTemplate(t));
            }
            nt.fetch_add(4, Ordering::Relaxed);
        });
        let la = crate::props::c10::lookalikes();
        let base = crate::props::c10::one_of_each();
        for x in &la {
            for y in &base {
                for t in [vec![x.clone()], vec![y.clone(), x.clone()], vec![x.clone(), y.clone()], vec![y.clone(), x.clone(), y.clone()], vec![x.clone(), x.clone()]] {
                    check(ctx, "ResourceTemplate", "framing look-alike descriptors", &T::ResTemplate(t));
                    nt.fetch_add(1, Ordering::Relaxed);
                }
            }
        }
        ctx.engine("E4.template-tails", json!({"templates": nt.load(Ordering::Relaxed), "what": "IO(alignment, length) over all 65536 pairs and Memory32Fixed length high bytes over all 65536 pairs, alone / first / last; C10's look-alikes in every position"}));
    }
    ctx.engine("E4.field-entry-sequences", json!({"sequences": nfs, "entry_alphabet": "named/reserved x widths {1,62,63,64,192,4095,4096,2^20}", "max_length": if quick { 3 } else { 4 }}));
    ctx.engine("E4.sizes", json!({"kinds": wr.len() + 2, "pads": pads.len(), "programs": n4.load(Ordering::Relaxed)}));
    let total = n1.load(Ordering::Relaxed) + n2.load(Ordering::Relaxed) + n3.load(Ordering::Relaxed) + n4.load(Ordering::Relaxed);
    ctx.st(total);
    ctx.force_sample(json!({"program": "Add(target=Local3, a=0x42, b=\\_SB_.PCI0)", "expected_parse": "Op(Add,[Int(66), Name(\\_SB_.PCI0), Local(3)])"}));
    ctx.force_sample(json!({"program": short(&(fixed[0].build)(&[f[6].clone()]))}));
    ctx.force_sample(json!({"program": "Device(Scope::raw(Method(Str x 4093)))", "family": "body size sweep (nested)"}));
    let _ = N::Ones;
}

pub const RULE: &str = "families: (i) each constructor at the root with every slot over the 9 fillers / every child list of length <=3; every leaf variant; (ii) every (parent, slot, canonical child) pair; (iii) every nesting triple of the 14 length-prefixed kinds; (iv) each length-prefixed kind with every body size 0..4200 and around 2^20. distinct = distinct byte streams";
pub const ASSUME: &[&str] = &["children are handed to parents pre-serialised by the crate's own serialiser (a parent can only call to_aml_bytes on a child)", "the parser accepts a superset grammar: any object where a term is expected", "all trees of the stated families, not all trees"];
