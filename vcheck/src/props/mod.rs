pub mod c04;
pub mod c06;
pub mod c07;
pub mod c08;
pub mod c09;
pub mod c10;
pub mod c11;
pub mod c12;
pub mod c13;
pub mod c14;
pub mod c15;
pub mod c16;
pub mod c17;
pub mod c18;
pub mod replays;
pub mod standalone;
pub mod tseq;

/// replayers for families other than table sequences
pub fn replay_other(v: &serde_json::Value) -> i32 {
    replays::replay(v)
}
