pub mod c17;
