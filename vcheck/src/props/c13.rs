//! C13 — the generic table behaves as a byte vector with a self-maintaining header.
//! stateright search over operation sequences on the real Sdt against a plain Vec<u8> model.
use crate::ev::Ctx;
use crate::sr::{explore, FnModel, Node};
use crate::util::{catch, first_diff, fnv, hex, ser, sum8};
use acpi_tables::sdt::Sdt;
use acpi_tables::AmlSink;
use serde_json::json;
use std::sync::atomic::AtomicU64;
use std::sync::Arc;

#[derive(Clone, Debug, PartialEq)]
pub enum SOp {
    AppendU8(u8),
    AppendU16(u16),
    AppendU32(u32),
    AppendU64(u64),
    AppendSlice(Vec<u8>),
    WriteU8(usize, u8),
    WriteU16(usize, u16),
    WriteU32(usize, u32),
    WriteU64(usize, u64),
    WriteBytes(usize, Vec<u8>),
    SinkByte(u8),
    SinkWord(u16),
    SinkDword(u32),
    SinkQword(u64),
    SinkVec(Vec<u8>),
    /// update_checksum(): on a table whose checksum is maintained it changes nothing
    UpdateChecksum,
    /// append(GenericAddress::mmio_address::<u16>(v)): a 12-byte packed value through the generic append
    AppendGa(u64),
    /// write(offset, GenericAddress::io_port_address::<u32>(v)): a 12-byte packed value through the generic write
    WriteGa(usize, u16),
    /// write_u32(4, current length + k): the Length field set by the caller to what a later append will make it
    WriteLenPlus(u32),
    /// write_bytes(0, header of another finished table whose Length is current length + k): a copied header
    CopyHeader(u32),
}
fn other_header(len: u32) -> Vec<u8> {
    let mut m = Model::new(36);
    m.0[0..4].copy_from_slice(b"OTHR");
    m.0[4..8].copy_from_slice(&len.to_le_bytes());
    m.fix();
    m.0
}
fn ga_mmio(v: u64) -> [u8; 12] {
    let mut b = [0u8; 12];
    b[1] = 16;
    b[3] = 2;
    b[4..].copy_from_slice(&v.to_le_bytes());
    b
}
fn ga_io(v: u16) -> [u8; 12] {
    let mut b = [0u8; 12];
    b[0] = 1;
    b[1] = 32;
    b[3] = 3;
    b[4..6].copy_from_slice(&v.to_le_bytes());
    b
}

fn apply(t: &mut Sdt, op: &SOp) {
    match op {
        SOp::AppendU8(v) => t.append(*v),
        SOp::AppendU16(v) => t.append(*v),
        SOp::AppendU32(v) => t.append(*v),
        SOp::AppendU64(v) => t.append(*v),
        SOp::AppendSlice(v) => t.append_slice(v),
        SOp::WriteU8(o, v) => t.write_u8(*o, *v),
        SOp::WriteU16(o, v) => t.write_u16(*o, *v),
        SOp::WriteU32(o, v) => t.write_u32(*o, *v),
        SOp::WriteU64(o, v) => t.write_u64(*o, *v),
        SOp::WriteBytes(o, v) => t.write_bytes(*o, v),
        SOp::SinkByte(v) => AmlSink::byte(t, *v),
        SOp::SinkWord(v) => AmlSink::word(t, *v),
        SOp::SinkDword(v) => AmlSink::dword(t, *v),
        SOp::SinkQword(v) => AmlSink::qword(t, *v),
        SOp::SinkVec(v) => AmlSink::vec(t, v),
        SOp::UpdateChecksum => t.update_checksum(),
        SOp::AppendGa(v) => t.append(acpi_tables::sdt::GenericAddress::mmio_address::<u16>(*v)),
        SOp::WriteGa(o, v) => t.write(*o, acpi_tables::sdt::GenericAddress::io_port_address::<u32>(*v)),
        SOp::WriteLenPlus(k) => {
            let n = t.len() as u32 + *k;
            t.write_u32(4, n)
        }
        SOp::CopyHeader(k) => {
            let h = other_header(t.len() as u32 + *k);
            t.write_bytes(0, &h)
        }
    }
}

fn new_sdt(len: u32) -> Sdt {
    Sdt::new(*b"TEST", len, 7, *b"VERIF1", *b"VERIFTBL", 0x0403_0201)
}

/// the boring reference: a byte vector; appends rewrite Length; byte 9 recomputed after every operation;
/// a write that would extend past the end is refused and changes nothing
pub struct Model(pub Vec<u8>);
impl Model {
    pub fn new(len: u32) -> Model {
        let mut v = vec![];
        v.extend_from_slice(b"TEST");
        v.extend_from_slice(&len.to_le_bytes());
        v.push(7);
        v.push(0);
        v.extend_from_slice(b"VERIF1");
        v.extend_from_slice(b"VERIFTBL");
        v.extend_from_slice(&0x0403_0201u32.to_le_bytes());
        v.extend_from_slice(b"RVAT");
        v.extend_from_slice(&[0, 0, 0, 1]);
        v.resize(len as usize, 0);
        let mut m = Model(v);
        m.fix();
        m
    }
    fn fix(&mut self) {
        self.0[9] = 0;
        self.0[9] = 0u8.wrapping_sub(sum8(&self.0));
    }
    fn append(&mut self, b: &[u8]) {
        self.0.extend_from_slice(b);
        let n = self.0.len() as u32;
        self.0[4..8].copy_from_slice(&n.to_le_bytes());
        self.fix();
    }
    /// returns false when refused
    fn write(&mut self, off: usize, b: &[u8]) -> bool {
        match off.checked_add(b.len()) {
            Some(end) if end <= self.0.len() => {
                self.0[off..end].copy_from_slice(b);
                self.fix();
                true
            }
            _ => false,
        }
    }
    pub fn step(&mut self, op: &SOp) -> bool {
        match op {
            SOp::AppendU8(v) | SOp::SinkByte(v) => self.append(&[*v]),
            SOp::AppendU16(v) | SOp::SinkWord(v) => self.append(&v.to_le_bytes()),
            SOp::AppendU32(v) | SOp::SinkDword(v) => self.append(&v.to_le_bytes()),
            SOp::AppendU64(v) | SOp::SinkQword(v) => self.append(&v.to_le_bytes()),
            SOp::AppendSlice(v) => self.append(v),
            // the sink interface pushes byte by byte: an empty slice pushes nothing (no Length rewrite)
            SOp::SinkVec(v) => {
                for b in v {
                    self.append(&[*b]);
                }
            }
            SOp::WriteU8(o, v) => return self.write(*o, &[*v]),
            SOp::WriteU16(o, v) => return self.write(*o, &v.to_le_bytes()),
            SOp::WriteU32(o, v) => return self.write(*o, &v.to_le_bytes()),
            SOp::WriteU64(o, v) => return self.write(*o, &v.to_le_bytes()),
            SOp::WriteBytes(o, v) => return self.write(*o, v),
            SOp::UpdateChecksum => self.fix(),
            SOp::AppendGa(v) => self.append(&ga_mmio(*v)),
            SOp::WriteGa(o, v) => return self.write(*o, &ga_io(*v)),
            SOp::WriteLenPlus(k) => {
                let n = self.0.len() as u32 + *k;
                return self.write(4, &n.to_le_bytes());
            }
            SOp::CopyHeader(k) => {
                let h = other_header(self.0.len() as u32 + *k);
                return self.write(0, &h);
            }
        }
        true
    }
}

fn kind(op: &SOp) -> &'static str {
    match op {
        SOp::AppendU8(_) | SOp::AppendU16(_) | SOp::AppendU32(_) | SOp::AppendU64(_) => "append",
        SOp::AppendSlice(_) => "append_slice",
        SOp::WriteBytes(..) => "write_bytes",
        SOp::WriteU8(..) | SOp::WriteU16(..) | SOp::WriteU32(..) | SOp::WriteU64(..) | SOp::WriteGa(..) | SOp::WriteLenPlus(_) => "write",
        SOp::CopyHeader(_) => "write_bytes",
        SOp::AppendGa(_) => "append",
        SOp::UpdateChecksum => "update_checksum",
        _ => "sink",
    }
}

/// replay `ops` on a fresh real table; the last op runs under catch_unwind. Returns (image, refused?)
fn real_run(len: u32, ops: &[SOp]) -> Result<(Vec<u8>, bool, usize), String> {
    catch(|| {
        let mut t = new_sdt(len);
        // earlier refused operations are part of the history too: each one runs under its own catch_unwind
        let mut refused = false;
        for op in ops {
            refused = catch(|| apply(&mut t, op)).is_err();
        }
        // three observation points must agree: as_slice, len, serialisation
        let img = t.as_slice().to_vec();
        let s = ser(&t);
        if s != img || t.len() != img.len() {
            panic!("as_slice/len/serialisation disagree: {} vs {} vs {}", img.len(), t.len(), s.len());
        }
        (img, refused, t.len())
    })
}

fn alphabet(len: usize, full: bool) -> Vec<SOp> {
    let mut v = vec![
        SOp::AppendU8(0xa5),
        SOp::AppendU8(0),
        SOp::AppendU16(0xbeef),
        SOp::AppendU16(0x00ff),
        SOp::AppendU32(0xdead_beef),
        SOp::AppendU32(1),
        SOp::AppendU64(0x0102_0304_0506_0708),
        SOp::AppendU64(u64::MAX),
        SOp::AppendSlice(vec![]),
        SOp::AppendSlice(vec![0x11]),
        SOp::AppendSlice(vec![0x21, 0x22, 0x23]),
        SOp::AppendSlice((1..=9).collect()),
        SOp::AppendSlice(vec![0; 4]),
        SOp::AppendU32(0),
        SOp::AppendU64(0),
        SOp::SinkByte(0),
        SOp::SinkByte(0x5a),
        SOp::SinkWord(0x1234),
        SOp::SinkDword(0x89ab_cdef),
        SOp::SinkQword(0xf0e0_d0c0_b0a0_9080),
        SOp::SinkVec(vec![]),
        SOp::SinkVec(vec![1, 2, 3]),
        SOp::UpdateChecksum,
        SOp::AppendGa(0x1122_3344_5566_7788),
        // the Length field set by hand to the length a following append reaches (1, 3, 4, 9, 12 bytes ahead), or left equal
        SOp::WriteLenPlus(0),
        SOp::WriteLenPlus(1),
        SOp::WriteLenPlus(3),
        SOp::WriteLenPlus(4),
        SOp::WriteLenPlus(9),
        SOp::WriteLenPlus(12),
        SOp::CopyHeader(9),
        SOp::CopyHeader(0),
    ];
    let offs: Vec<usize> = if full {
        let mut o: Vec<usize> = (0..=len + 1).collect();
        o.push(usize::MAX);
        o
    } else {
        let mut o = vec![0usize, 4, 7, 8, 9, 10, 35];
        for w in [1usize, 2, 4, 8, 3] {
            if len >= w {
                o.push(len - w);
                o.push(len - w + 1);
            }
        }
        o.push(len);
        o.push(len + 1);
        o.push(usize::MAX);
        o.sort();
        o.dedup();
        o
    };
    for o in offs {
        v.push(SOp::WriteU8(o, 0xc3));
        v.push(SOp::WriteU16(o, 0x55aa));
        v.push(SOp::WriteU32(o, 0x7766_5544));
        v.push(SOp::WriteU64(o, 0x8877_6655_4433_2211));
        v.push(SOp::WriteBytes(o, vec![]));
        v.push(SOp::WriteBytes(o, vec![0xee]));
        v.push(SOp::WriteBytes(o, vec![0x31, 0x32, 0x33]));
        v.push(SOp::WriteGa(o, 0x0cf8));
        if !full {
            v.push(SOp::WriteBytes(o, (0x41..=0x49).collect()));
            v.push(SOp::WriteU8(o, 0));
        }
    }
    v
}

fn search(ctx: &'static Ctx, len: u32, depth: usize, full: bool, cap: usize) -> (u64, u64) {
    let init = match real_run(len, &[]) {
        Ok(x) => x.0,
        Err(m) => {
            ctx.violation("sdt:new", || format!("Sdt::new({}) failed: {}", len, m), || json!({"family":"sdt","len":len,"ops":[]}));
            return (0, 0);
        }
    };
    let m0 = Model::new(len);
    let ok0 = init == m0.0 || ctx.violation("sdt:new:image", || format!("Sdt::new({}) image differs from the vector model at {:?}", len, first_diff(&init, &m0.0)), || json!({"family":"sdt","len":len,"ops":[]}));
    let model = FnModel::<(Vec<u8>, usize), Vec<SOp>, SOp> {
        init: vec![Node { key: (init, 0), aux: vec![], bad: !ok0 }],
        actions: Arc::new(move |s, out| {
            if s.aux.len() < depth {
                out.extend(alphabet(s.key.0.len(), full))
            }
        }),
        step: Arc::new(move |s, a| {
            let mut ops = s.aux.clone();
            ops.push(a.clone());
            let mut m = Model::new(len);
            let mut accepted = true;
            for o in &ops {
                accepted = m.step(o);
            }
            let k = kind(a);
            let rep = || json!({"family":"sdt","len":len,"ops":format!("{:?}", ops)});
            match real_run(len, &ops) {
                Err(msg) => {
                    let ok = ctx.violation_sized(&format!("sdt:{}:observe", k), ops.len() as u64, || format!("Sdt({}) after {:?}: {}", len, ops, msg), rep);
                    Some(Node { key: (vec![], ops.len()), aux: ops, bad: !ok })
                }
                Ok((img, refused, _)) => {
                    ctx.distinct(fnv(&img) ^ ops.len() as u64);
                    let mut ok = true;
                    if refused == accepted {
                        ok = ctx.violation_sized(
                            &format!("sdt:{}:{}", k, if refused { "refused-in-range" } else { "accepted-out-of-range" }),
                            ops.len() as u64,
                            || format!("Sdt({}) after {:?}: last operation {} but the vector model says {}", len, ops, if refused { "panicked" } else { "was accepted" }, if accepted { "in range" } else { "out of range" }),
                            rep,
                        );
                    }
                    // an empty slice pushed through the sink pushes no byte: whether that still counts as an append
                    // (Length rewritten) is not fixed by the property, so both outcomes are accepted
                    let alt_ok = matches!(a, SOp::SinkVec(v) if v.is_empty()) && {
                        let mut m2 = Model(m.0.clone());
                        m2.append(&[]);
                        img == m2.0
                    };
                    if img != m.0 && !alt_ok {
                        ok = ctx.violation_sized(
                            &format!("sdt:{}:{}", k, if refused { "refusal-changed-table" } else { "image" }),
                            ops.len() as u64,
                            || {
                                let d = first_diff(&img, &m.0).unwrap_or(0);
                                format!("Sdt({}) after {:?}: differs from the vector model at offset {} (len {} vs {}): {} | {}", len, ops, d, img.len(), m.0.len(), hex(&img[d.min(img.len())..(d + 8).min(img.len())]), hex(&m.0[d.min(m.0.len())..(d + 8).min(m.0.len())]))
                            },
                            rep,
                        ) && ok;
                    }
                    if refused {
                        ctx.witness("out_of_range_write_refused");
                    }
                    if matches!(a, SOp::WriteU8(9, _) | SOp::WriteBytes(9, _)) {
                        ctx.witness("write_over_checksum_byte");
                    }
                    if s.aux.iter().any(|o| matches!(o, SOp::WriteU32(4, _) | SOp::WriteU8(4, _) | SOp::WriteU16(4, _))) && k.starts_with("append") {
                        ctx.witness("append_after_write_into_length_field");
                    }
                    Some(Node { key: (img, ops.len()), aux: ops, bad: !ok })
                }
            }
        }),
        boundary: Arc::new(move |s| s.aux.len() <= depth),
        transitions: Arc::new(AtomicU64::new(0)),
    };
    let o = explore(model, 16, true, cap, false);
    if o.capped {
        ctx.cap(format!("Sdt({}) depth {} search stopped at the state cap {}", len, depth, cap));
    }
    (o.unique, o.transitions)
}

pub fn run(ctx: &'static Ctx) {
    let quick = ctx.quick();
    let mut runs = vec![];
    // full alphabet (every offset 0..=len+1 and usize::MAX) to depth 2
    for len in [36u32, 37, 40] {
        let (u, t) = search(ctx, len, 2, true, 400_000_000);
        ctx.st(u);
        ctx.tr(t);
        runs.push(json!({"initial_length": len, "alphabet": "full (every offset)", "depth": 2, "unique_states": u, "transitions": t}));
    }
    // reduced-offset alphabet deeper
    let d = if quick { 3 } else { 4 };
    for len in [36u32, 40] {
        let (u, t) = search(ctx, len, d, false, 400_000_000);
        ctx.st(u);
        ctx.tr(t);
        runs.push(json!({"initial_length": len, "alphabet": "reduced offsets {0,4,7,8,9,10,35,len-w,len-w+1,len,len+1,MAX}", "depth": d, "unique_states": u, "transitions": t}));
    }
    // lengths where an append carries the Length field across 256 and 65536
    for len in [255u32, 65_534] {
        let (u, t) = search(ctx, len, 2, false, 400_000_000);
        ctx.st(u);
        ctx.tr(t);
        runs.push(json!({"initial_length": len, "alphabet": "reduced offsets", "depth": 2, "unique_states": u, "transitions": t}));
    }
    // declared length < 36 must be refused
    for len in [0u32, 1, 35] {
        ctx.tr(1);
        if catch(|| new_sdt(len)).is_ok() {
            ctx.violation("sdt:new:short", || format!("Sdt::new with declared length {} accepted", len), || json!({"family":"sdt","len":len}));
        }
    }
    ctx.engine("E1.sdt", json!(runs));

    // ---- E3: large tables, real object and vector model in lockstep, compared after every operation: every slice size
    // 0..=1100 and around 4096 / 65536 in three byte patterns (all-ones, text, zeros) followed by small operations of every
    // entry point; every initial length 36..=1100; growth byte by byte to 5000 bytes through each entry point
    {
        use rayon::prelude::*;
        let lock = |name: String, len: u32, ops: Vec<SOp>, every: usize| -> u64 {
            let r = catch(|| {
                let mut t = new_sdt(len);
                let mut m = Model::new(len);
                let mut n = 0u64;
                for (i, op) in ops.iter().enumerate() {
                    let refused = catch(|| apply(&mut t, op)).is_err();
                    let accepted = m.step(op);
                    n += 1;
                    let last = i + 1 == ops.len();
                    if refused == accepted || ((i % every == 0 || last || ops.len() - i < 4) && (t.as_slice() != &m.0[..] || t.len() != m.0.len())) {
                        let d = first_diff(t.as_slice(), &m.0).unwrap_or(0);
                        let what = format!("Sdt({}) program {:?}: after operation #{} ({}) {} (len {} vs {}; first difference at {}; checksum byte {:#04x} vs {:#04x})", len, name, i + 1, kind(op), if refused == accepted { "refusal disagrees with the vector model" } else { "the table differs from the vector model" }, t.len(), m.0.len(), d, t.as_slice().get(9).copied().unwrap_or(0), m.0[9]);
                        ctx.violation_sized(&format!("sdt:{}:large", kind(op)), (i + 1) as u64, || what, || json!({"family":"sdt-large","program":name,"len":len,"at":i + 1}));
                        return n;
                    }
                }
                n
            });
            match r {
                Ok(n) => n,
                Err(msg) => {
                    ctx.violation(&"sdt:new:large".to_string(), || format!("Sdt({}) program {:?} panicked: {}", len, name, msg), || json!({"family":"sdt-large","program":name,"len":len}));
                    0
                }
            }
        };
        let tail = || vec![SOp::AppendU8(0xa5), SOp::WriteU8(36, 0x11), SOp::SinkByte(0x5a), SOp::AppendSlice(vec![1, 2, 3]), SOp::WriteU32(4, 0), SOp::AppendU16(0xbeef), SOp::UpdateChecksum, SOp::SinkQword(0x0102_0304_0506_0708)];
        // values (the value principle): every typed append / sink / write with its value over util::value_set (bytes: all
        // 256; words thorough: all 65536), writes at four offsets of a 64-byte table, each followed by the small tail
        {
            let q = ctx.quick();
            let v8: Vec<u64> = (0..256).collect();
            let v16 = crate::util::value_set(16, 0x0201, q);
            let v32 = crate::util::value_set(32, 0x0403_0201, q);
            let v64 = crate::util::value_set(64, 0x0807_0605_0403_0201, q);
            let mut progs: Vec<(String, SOp)> = vec![];
            for v in &v8 {
                let v = *v as u8;
                progs.push((format!("append_u8 {:#x}", v), SOp::AppendU8(v)));
                progs.push((format!("sink byte {:#x}", v), SOp::SinkByte(v)));
                for o in [9usize, 10, 36, 63] {
                    progs.push((format!("write_u8 {:#x} at {}", v, o), SOp::WriteU8(o, v)));
                }
            }
            for v in &v16 {
                let v = *v as u16;
                progs.push((format!("append_u16 {:#x}", v), SOp::AppendU16(v)));
                progs.push((format!("sink word {:#x}", v), SOp::SinkWord(v)));
                for o in [10usize, 36, 37, 62] {
                    progs.push((format!("write_u16 {:#x} at {}", v, o), SOp::WriteU16(o, v)));
                }
                progs.push((format!("write GenericAddress io {:#x} at 40", v), SOp::WriteGa(40, v)));
            }
            for v in &v32 {
                let v = *v as u32;
                progs.push((format!("append_u32 {:#x}", v), SOp::AppendU32(v)));
                progs.push((format!("sink dword {:#x}", v), SOp::SinkDword(v)));
                for o in [10usize, 36, 37, 60] {
                    progs.push((format!("write_u32 {:#x} at {}", v, o), SOp::WriteU32(o, v)));
                }
            }
            for v in &v64 {
                progs.push((format!("append_u64 {:#x}", v), SOp::AppendU64(*v)));
                progs.push((format!("sink qword {:#x}", v), SOp::SinkQword(*v)));
                progs.push((format!("append GenericAddress mmio {:#x}", v), SOp::AppendGa(*v)));
                progs.push((format!("append_slice of {:#x}", v), SOp::AppendSlice(v.to_le_bytes().to_vec())));
                progs.push((format!("sink vec of {:#x}", v), SOp::SinkVec(v.to_le_bytes().to_vec())));
                for o in [10usize, 36, 37, 56] {
                    progs.push((format!("write_u64 {:#x} at {}", v, o), SOp::WriteU64(o, *v)));
                    progs.push((format!("write_bytes of {:#x} at {}", v, o), SOp::WriteBytes(o, v.to_le_bytes().to_vec())));
                }
            }
            let steps0: u64 = progs
                .par_iter()
                .map(|(name, op)| {
                    let mut ops = vec![op.clone()];
                    ops.extend(tail());
                    lock(format!("value: {}", name), 64, ops, 1) + lock(format!("value after growth: {}", name), 36, vec![SOp::AppendU32(0x0101_0101), SOp::AppendU32(0), op.clone(), SOp::AppendU8(1)].into_iter().filter(|o| !matches!(o, SOp::WriteU8(..) | SOp::WriteU16(..) | SOp::WriteU32(..) | SOp::WriteU64(..) | SOp::WriteBytes(..) | SOp::WriteGa(..))).collect(), 1)
                })
                .sum();
            ctx.tr(steps0);
            ctx.engine("E3.value-programs", json!({"programs": 2 * progs.len(), "value_set_sizes": {"u8": 256, "u16": v16.len(), "u32": v32.len(), "u64": v64.len()}, "write_offsets": [9, 10, 36, 37, 56, 60, 62, 63]}));
        }
        // signatures (the value principle for a four-byte identifier): every signature the ACPI specification and its
        // companions define, as the constructor's signature and written over "TEST" in place (bytes / one dword), each
        // followed by the small tail: the generic table treats every signature alike
        {
            const SIGS: &[&[u8; 4]] = &[
                b"APIC", b"BERT", b"BGRT", b"CPEP", b"DSDT", b"ECDT", b"EINJ", b"ERST", b"FACP", b"FACS", b"FPDT", b"GTDT", b"HEST", b"MSCT", b"MPST", b"NFIT", b"PCCT", b"PHAT", b"PMTT", b"PPTT", b"RASF", b"RAS2", b"RSDT",
                b"SBST", b"SDEV", b"SLIT", b"SRAT", b"SSDT", b"XSDT", b"AEST", b"BDAT", b"CEDT", b"CRAT", b"CSRT", b"DBGP", b"DBG2", b"DMAR", b"DRTM", b"ETDT", b"HPET", b"IBFT", b"IORT", b"IVRS", b"LPIT", b"MCFG", b"MCHI",
                b"MPAM", b"MSDM", b"PRMT", b"RGRT", b"SDEI", b"SLIC", b"SPCR", b"SPMI", b"STAO", b"SWFT", b"TCPA", b"TPM2", b"UEFI", b"WAET", b"WDAT", b"WDDT", b"WDRT", b"WPBT", b"WSMT", b"XENV", b"VIOT", b"RHCT", b"RIMT",
                b"RQSC", b"MADT", b"FADT", b"RSD ", b"OEM1", b"\0\0\0\0", b"    ", b"\xff\xff\xff\xff", b"facs", b"Facs", b"FACs", b"_SB_",
            ];
            let nsig = AtomicU64::new(0);
            SIGS.par_iter().for_each(|sig| {
                for len in [36u32, 40, 64] {
                    let r = catch(|| {
                        let mut t = Sdt::new(**sig, len, 7, *b"VERIF1", *b"VERIFTBL", 0x0403_0201);
                        let mut m = Model::new(len);
                        m.0[0..4].copy_from_slice(&sig[..]);
                        m.fix();
                        let mut first = true;
                        for (i, op) in std::iter::once(SOp::UpdateChecksum).chain(tail()).enumerate() {
                            if !first || t.as_slice() == &m.0[..] {
                                let refused = catch(|| apply(&mut t, &op)).is_err();
                                let accepted = m.step(&op);
                                if refused == accepted || t.as_slice() != &m.0[..] {
                                    return Some((i, kind(&op)));
                                }
                            } else {
                                return Some((0, "new"));
                            }
                            first = false;
                        }
                        None
                    });
                    nsig.fetch_add(1, std::sync::atomic::Ordering::Relaxed);
                    let name = String::from_utf8_lossy(&sig[..]).to_string();
                    match r {
                        Ok(None) => {}
                        Ok(Some((i, k))) => {
                            ctx.violation_sized(&format!("sdt:{}:signature", k), i as u64, || format!("Sdt with signature {:?} and length {}: after step #{} ({}) the table differs from the vector model", name, len, i, k), || json!({"family":"sdt-signature","signature":name,"len":len,"at":i}));
                        }
                        Err(msg) => {
                            ctx.violation("sdt:new:signature", || format!("Sdt with signature {:?} and length {} panicked: {}", name, len, msg), || json!({"family":"sdt-signature","signature":name,"len":len}));
                        }
                    }
                }
                // written in place over another signature
                for via in 0..2 {
                    let w = if via == 0 { SOp::WriteBytes(0, sig.to_vec()) } else { SOp::WriteU32(0, u32::from_le_bytes(**sig)) };
                    let mut ops = vec![SOp::AppendU32(0x0102_0304), w];
                    ops.extend(tail());
                    lock(format!("signature {:?} written in place ({})", String::from_utf8_lossy(&sig[..]), if via == 0 { "bytes" } else { "dword" }), 40, ops, 1);
                    nsig.fetch_add(1, std::sync::atomic::Ordering::Relaxed);
                }
            });
            ctx.tr(nsig.load(std::sync::atomic::Ordering::Relaxed) * 9);
            ctx.engine("E3.signatures", json!({"signatures": SIGS.len(), "programs": nsig.load(std::sync::atomic::Ordering::Relaxed)}));
        }
        let sizes: Vec<usize> = (0..=1100usize).chain([2047, 2048, 2049, 4095, 4096, 4097, 8192, 16_384, 32_768, 65_499, 65_500, 65_535, 65_536, 65_537, 70_000, 300_000]).collect();
        let steps: u64 = sizes
            .par_iter()
            .map(|n| {
                let mut c = 0;
                for (pi, pat) in [0xffu8, 0x61, 0x00].iter().enumerate() {
                    let data: Vec<u8> = (0..*n).map(|i| if *pat == 0x61 { b'a' + (i % 26) as u8 } else { *pat }).collect();
                    for via in 0..3 {
                        if via > 0 && *n > 5000 && pi > 0 {
                            continue;
                        }
                        let first = match via {
                            0 => SOp::AppendSlice(data.clone()),
                            1 => SOp::SinkVec(data.clone()),
                            _ => SOp::AppendSlice(data.clone()),
                        };
                        let mut ops = if via == 2 { vec![SOp::AppendU8(7), first] } else { vec![first] };
                        ops.extend(tail());
                        c += lock(format!("slice of {} x {:#04x} via {}", n, pat, ["append_slice", "sink vec", "append then append_slice"][via]), 36, ops, 1);
                    }
                }
                c
            })
            .sum();
        ctx.tr(steps);
        let lens: Vec<u32> = (36..=1100u32).chain([4095, 4096, 65_535, 65_536, 70_000]).collect();
        let steps2: u64 = lens.par_iter().map(|l| lock(format!("initial length {}", l), *l, tail(), 1)).sum();
        ctx.tr(steps2);
        let growers: Vec<(&str, Box<dyn Fn(usize) -> SOp + Send + Sync>)> = vec![
            ("append u8", Box::new(|i| SOp::AppendU8((i * 31 + 7) as u8 | 0x80))),
            ("sink byte", Box::new(|i| SOp::SinkByte(0xff - (i % 3) as u8))),
            ("append u64", Box::new(|i| SOp::AppendU64(u64::MAX - i as u64))),
            ("sink dword", Box::new(|i| SOp::SinkDword(0xffff_ff00 | i as u32))),
            ("append_slice of 9", Box::new(|i| SOp::AppendSlice(vec![0xf0 | (i % 16) as u8; 9]))),
            ("write then append", Box::new(|i| if i % 2 == 0 { SOp::WriteU8(36usize.min(35 + i), 0xee) } else { SOp::AppendU16(0xffff) })),
        ];
        let steps3: u64 = growers
            .par_iter()
            .map(|(name, g)| {
                let count = if name.contains("u64") || name.contains("slice") { 1200 } else { 5000 };
                lock(format!("growth by {} x {}", count, name), 36, (0..count).map(|i| g(i)).collect(), 1)
            })
            .sum();
        ctx.tr(steps3);
        // writes of every width straddling the 4096-, 8192- and 65536-byte marks of tables of 9000, 20000 and 70000 bytes
        // (an implementation that keeps per-block state must refresh every block a write touches)
        let marks: Vec<(u32, usize)> = vec![(9_000, 4096), (9_000, 8192), (20_000, 4096), (20_000, 8192), (20_000, 16_384), (70_000, 4096), (70_000, 65_536), (70_000, 32_768)];
        let steps4: u64 = marks
            .par_iter()
            .map(|(total, mark)| {
                let mut ops = vec![SOp::AppendSlice((0..(*total as usize - 36)).map(|i| (i as u8).wrapping_mul(29) | 1).collect())];
                for d in 0..=12usize {
                    let o = mark - 9 + d;
                    ops.push(SOp::WriteU8(o, 0xc3));
                    ops.push(SOp::WriteU16(o, 0x55aa));
                    ops.push(SOp::WriteU32(o, 0x7766_5544));
                    ops.push(SOp::WriteU64(o, 0x8877_6655_4433_2211));
                    ops.push(SOp::WriteBytes(o, (0x41..=0x49).collect()));
                    ops.push(SOp::WriteGa(o, 0x0cf8));
                }
                ops.push(SOp::AppendU8(1));
                ops.push(SOp::SinkQword(2));
                lock(format!("writes across byte {} of a {}-byte table", mark, total), 36, ops, 1)
            })
            .sum();
        ctx.tr(steps4);
        ctx.st(steps + steps2 + steps3 + steps4);
        ctx.engine("E3.sdt-block-straddling-writes", json!({"tables": [9000, 20000, 70000], "marks": [4096, 8192, 16384, 32768, 65536], "offsets": "mark-9 ..= mark+3", "operations_compared": steps4}));
        ctx.engine("E3.sdt-large", json!({"slice_sizes": "0..=1100, 2047..2049, 4095..4097, 8192, 16384, 32768, 65499..65537, 70000, 300000", "patterns": ["ff", "text", "00"], "initial_lengths": "36..=1100, 4095, 4096, 65535, 65536, 70000", "growth_programs": growers.len(), "operations_compared": steps + steps2 + steps3}));
    }
    ctx.force_sample(json!({"len": 40, "ops": ["WriteU8(9, 0xc3)", "AppendU16(0xbeef)", "WriteU32(38, ..) -> in range", "WriteU32(39, ..) -> refused"]}));
    ctx.set("bound", json!(format!("full alphabet to depth {}, reduced-offset alphabet to depth {}", 2, d)));
}

pub const RULE: &str = "stateright DFS over all operation sequences (appends of every width, slices incl. empty, typed/slice writes at every offset incl. header, checksum byte, last valid, first invalid and usize::MAX, sink pushes) within the stated depth; plus lockstep programs on large tables (every slice size 0..1100 and around 4096/65536 in three byte patterns, every initial length 36..1100, byte-by-byte growth to 5000 bytes); each transition replays the history on a fresh real Sdt and compares as_slice/len/serialisation with a Vec<u8> model; state key = (image, depth). distinct = distinct (image, depth) pairs";
pub const ASSUME: &[&str] = &["values are two per width; offsets are exhaustive only in the full-alphabet runs", "a write into the Length field is a plain write (the model does not restore it until the next append)"];
