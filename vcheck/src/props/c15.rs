//! C15 — alternative construction paths for the same object emit identical bytes.
use crate::aml::gen;
use crate::aml::tree::{real, Carrier, T};
use crate::ev::Ctx;
use crate::util::{catch, first_diff, fnv, hex, splitmix};
use rayon::prelude::*;
use serde_json::json;
use std::sync::atomic::{AtomicU64, Ordering};

fn same(ctx: &Ctx, key: &str, size: u64, a: &T, b: &T, what: impl Fn() -> String) {
    ctx.tr(2);
    let (ra, rb) = (catch(|| real(a)), catch(|| real(b)));
    match (ra, rb) {
        (Ok(x), Ok(y)) => {
            ctx.distinct(fnv(&x));
            if x != y {
                let d = first_diff(&x, &y).unwrap_or(0);
                ctx.violation_sized(
                    key,
                    size,
                    || format!("{}: the two construction paths differ at offset {} ({} vs {} bytes): {} | {}", what(), d, x.len(), y.len(), hex(&x[d.saturating_sub(4)..(d + 12).min(x.len())]), hex(&y[d.saturating_sub(4)..(d + 12).min(y.len())])),
                    || json!({"family":"alt-paths","what":what(),"t":crate::props::c06::tjson(a),"t2":crate::props::c06::tjson(b)}),
                );
            }
        }
        (x, y) => {
            ctx.violation_sized(&format!("{}:panic", key), size, || format!("{}: one path panicked ({:?} / {:?})", what(), x.err(), y.err()), || json!({"family":"alt-paths","what":what()}));
        }
    }
}

pub fn run(ctx: &'static Ctx) {
    let quick = ctx.quick();
    // ---- Scope::raw vs Scope::new
    let paths = ["_SB_", "\\_SB_", "_SB_.PCI0", "\\_SB_.PCI0", "_SB_.PCI0.LNKA", "\\_SB_.PCI0.LNKA"];
    let mut pads: Vec<usize> = (0..=4200).collect();
    for d in 0..=16usize {
        pads.push((1 << 20) - 24 + d);
        pads.push((1 << 20) - 4 + d);
    }
    let n = AtomicU64::new(0);
    let work: Vec<(usize, usize)> = (0..paths.len()).flat_map(|p| pads.iter().map(move |x| (p, *x))).collect();
    work.par_iter().for_each(|(pi, pad)| {
        if *pad > 5000 && quick && *pi % 3 != 1 {
            return;
        }
        let kids = vec![T::Str("x".repeat(*pad), true)];
        let p = paths[*pi].to_string();
        same(ctx, "alt:scope-raw:size", *pad as u64, &T::ScopeRaw(p.clone(), kids.clone()), &T::Scope(p, kids), || format!("Scope {} with a body of one {}-character string", paths[*pi], pad));
        n.fetch_add(1, Ordering::Relaxed);
    });
    // exact body sizes 0..=80 and around 4090 built from BufferData so that sizes below 2 occur too
    for body in (0..=80usize).chain(4080..=4100) {
        // body bytes = BufferData(len d): 1 + pkglen + int + d ; simply use an empty child list and a raw-string child
        let kids: Vec<T> = if body == 0 { vec![] } else { vec![T::BufferData(vec![7; body])] };
        for p in paths {
            same(ctx, "alt:scope-raw:size", body as u64, &T::ScopeRaw(p.to_string(), kids.clone()), &T::Scope(p.to_string(), kids.clone()), || format!("Scope {} with BufferData({})", p, body));
            n.fetch_add(1, Ordering::Relaxed);
        }
    }
    let lists = gen::lists3();
    lists.par_iter().for_each(|l| {
        same(ctx, "alt:scope-raw:lists", l.len() as u64, &T::ScopeRaw("\\_SB_.PCI0".into(), l.clone()), &T::Scope("\\_SB_.PCI0".into(), l.clone()), || format!("Scope with children {:?}", l));
        n.fetch_add(1, Ordering::Relaxed);
    });
    // many children: Scope has no element-count field, so 256 and more children are as legal as 255
    for k in [254usize, 255, 256, 257, 300, 1000] {
        for x in [T::One, T::Int(0x1234, Carrier::U16)] {
            let kids = vec![x.clone(); k];
            same(ctx, "alt:scope-raw:child-count", k as u64, &T::ScopeRaw("\\_SB_".into(), kids.clone()), &T::Scope("\\_SB_".into(), kids), || format!("Scope with {} children", k));
            n.fetch_add(1, Ordering::Relaxed);
        }
    }
    ctx.engine("E4.scope-raw", json!({"pairs": n.load(Ordering::Relaxed), "paths": paths, "body_sizes": "0..=4200 and around 2^20, plus every child list of length <=3 over the fillers"}));
    // large bodies x spare capacity of the caller's vector (two hidden arguments at once: the size decides the path, the
    // capacity whether an in-place variant of it is taken): every body size 0..=70 000 (quick: 0..=12 000 and around 16 K,
    // 32 K, 64 K) and some up to 2^20, with exact capacity and with 1, 7, 64 and 4096 spare bytes
    {
        use acpi_tables::aml::Scope;
        let sizes: Vec<usize> = if quick { (0..=12_000usize).chain(16_370..=16_400).chain(32_750..=32_790).chain(65_500..=65_560).collect() } else { (0..=70_000usize).chain([131_072, 262_143, 262_144, 1_000_000, (1 << 20) - 8, (1 << 20) - 7, (1 << 20) - 6]).collect() };
        let big = AtomicU64::new(0);
        sizes.par_iter().for_each(|size| {
            let body: Vec<u8> = (0..*size).map(|i| (i * 7 + 1) as u8).collect();
            let child = crate::amlobj::Bytes(body.clone());
            for (pi, p) in ["_SB_", "\\_SB_.PCI0.LNKA"].into_iter().enumerate() {
                if pi == 1 && size % 3 != 0 {
                    continue;
                }
                let want = match catch(|| crate::util::ser(&Scope::new(p.into(), vec![&child as &dyn acpi_tables::Aml]))) {
                    Ok(w) => w,
                    Err(_) => continue,
                };
                for extra in [0usize, 1, 7, 64, 4096] {
                    let mut v = Vec::with_capacity(size + extra);
                    v.extend_from_slice(&body);
                    big.fetch_add(1, Ordering::Relaxed);
                    match catch(|| Scope::raw(p.into(), v)) {
                        Ok(got) if got == want => {}
                        other => {
                            ctx.violation_sized(
                                "alt:scope-raw:capacity",
                                *size as u64,
                                || format!("Scope::raw({}, body of {} bytes in a vector with {} spare bytes) differs from Scope::new: {}", p, size, extra, match &other { Ok(g) => format!("{} vs {} bytes, heads {} | {}", g.len(), want.len(), hex(&g[..g.len().min(12)]), hex(&want[..want.len().min(12)])), Err(m) => format!("panicked: {}", m) }),
                                || json!({"family":"alt-paths","what":format!("Scope::raw {} body {} spare {}", p, size, extra)}),
                            );
                        }
                    }
                }
            }
        });
        ctx.tr(big.load(Ordering::Relaxed));
        ctx.engine("E3.scope-raw-capacity", json!({"objects": big.load(Ordering::Relaxed), "sizes": sizes.len(), "spare": [0, 1, 7, 64, 4096]}));
    }

    // ---- PackageBuilder vs Package
    let m = AtomicU64::new(0);
    lists.par_iter().for_each(|l| {
        same(ctx, "alt:package:lists", l.len() as u64, &T::PackageBuilder(l.clone()), &T::Package(l.clone()), || format!("package of {:?}", l));
        // nested
        let inner_b = T::PackageBuilder(l.clone());
        let inner_p = T::Package(l.clone());
        same(ctx, "alt:package:nested", l.len() as u64, &T::PackageBuilder(vec![inner_b.clone(), T::One]), &T::Package(vec![inner_p.clone(), T::One]), || format!("package of package of {:?}", l));
        m.fetch_add(2, Ordering::Relaxed);
    });
    let f = gen::fillers();
    (0..=255usize).into_par_iter().for_each(|k| {
        for x in &f {
            let l = vec![x.clone(); k];
            same(ctx, "alt:package:count", k as u64, &T::PackageBuilder(l.clone()), &T::Package(l), || format!("package of {} copies of {:?}", k, x));
            m.fetch_add(1, Ordering::Relaxed);
        }
    });
    // integer elements of every width and carrier, alone and between other elements (the builder is fed through its sink interface)
    let ints: Vec<T> = [0u64, 1, 0xff, 0x100, 0xffff, 0x1_0000, 0xffff_ffff, 0x1_0000_0000, 0x1122_3344_5566_7788, 0x8000_0000_0000_0001, u64::MAX]
        .iter()
        .flat_map(|v| [T::Int(*v, Carrier::U64), T::Int(*v, Carrier::Usize)])
        .chain([T::Int(0x12, Carrier::U8), T::Int(0x1234, Carrier::U16), T::Int(0x1234_5678, Carrier::U32), T::Eisa("PNP0A03".into()), T::Uuid("01234567-89ab-cdef-fedc-ba9876543210".into()), T::Str("s".into(), false)])
        .collect();
    for x in &ints {
        for l in [vec![x.clone()], vec![T::One, x.clone(), T::Zero], vec![x.clone(), x.clone()]] {
            same(ctx, "alt:package:ints", l.len() as u64, &T::PackageBuilder(l.clone()), &T::Package(l.clone()), || format!("package of {:?}", l));
            m.fetch_add(1, Ordering::Relaxed);
        }
    }
    // a builder obtained through Default, and one reused after core::mem::take (what is left behind is a Default value):
    // both must behave like PackageBuilder::new()
    {
        use crate::aml::tree::{raw_of, real};
        use acpi_tables::aml::PackageBuilder;
        let mut extra = 0u64;
        for l in lists.iter().filter(|l| l.len() <= 2).chain(std::iter::once(&vec![T::One; 255])) {
            let want = catch(|| real(&T::Package(l.clone())));
            let kids: Vec<_> = l.iter().map(raw_of).collect();
            let via_default = catch(|| {
                let mut b = PackageBuilder::default();
                for k in &kids {
                    b.add_element(k);
                }
                crate::util::ser(&b)
            });
            let via_take = catch(|| {
                let mut b = PackageBuilder::new();
                b.add_element(&acpi_tables::aml::ONES);
                let first = core::mem::take(&mut b);
                let _ = crate::util::ser(&first);
                for k in &kids {
                    b.add_element(k);
                }
                crate::util::ser(&b)
            });
            // a builder that is serialised after every add_element (a snapshot, a size probe) and then goes on
            let via_observed = catch(|| {
                let mut b = PackageBuilder::new();
                let _ = crate::util::ser(&b);
                for k in &kids {
                    b.add_element(k);
                    let _ = crate::util::ser(&b);
                }
                crate::util::ser(&b)
            });
            for (how, got) in [("PackageBuilder::default()", via_default), ("a builder reused after core::mem::take", via_take), ("a builder serialised after every add_element", via_observed)] {
                extra += 1;
                ctx.tr(1);
                if got != want {
                    ctx.violation_sized(
                        "alt:package:default-builder",
                        l.len() as u64,
                        || format!("package of {:?} through {}: {:?} ; Package::new gives {:?}", l.iter().take(3).collect::<Vec<_>>(), how, got.as_ref().map(|b| hex(&b[..b.len().min(16)])), want.as_ref().map(|b| hex(&b[..b.len().min(16)]))),
                        || json!({"family":"alt-paths","what":how,"t":crate::props::c06::tjson(&T::Package(l.clone()))}),
                    );
                }
            }
        }
        m.fetch_add(extra, Ordering::Relaxed);
    }
    // an element that serialises to no bytes at all (an empty field name, a user object that is switched off): it is
    // still an element, in the list-built package and in the builder alike
    {
        use acpi_tables::aml::{Name, Package, PackageBuilder, ONE, ZERO};
        struct Nothing;
        impl acpi_tables::Aml for Nothing {
            fn to_aml_bytes(&self, _sink: &mut dyn acpi_tables::AmlSink) {}
        }
        let empty_name = Name::new_field_name("");
        let empties: [(&str, &dyn acpi_tables::Aml); 2] = [("an object that emits nothing", &Nothing), ("Name::new_field_name(\"\")", &empty_name)];
        for (what, e) in empties {
            for pos in 0..3usize {
                for total in 1..=3usize {
                    if pos >= total {
                        continue;
                    }
                    let kids: Vec<&dyn acpi_tables::Aml> = (0..total).map(|i| if i == pos { e } else if i % 2 == 0 { &ONE as &dyn acpi_tables::Aml } else { &ZERO }).collect();
                    let a = catch(|| crate::util::ser(&Package::new(kids.clone())));
                    let b = catch(|| {
                        let mut pb = PackageBuilder::new();
                        for k in &kids {
                            pb.add_element(*k);
                        }
                        crate::util::ser(&pb)
                    });
                    m.fetch_add(1, Ordering::Relaxed);
                    ctx.tr(2);
                    if a != b {
                        ctx.violation_sized("alt:package:empty-element", total as u64, || format!("package of {} elements with {} at position {}: Package::new gives {:?}, PackageBuilder gives {:?}", total, what, pos, a.as_ref().map(|x| hex(x)), b.as_ref().map(|x| hex(x))), || json!({"family":"alt-paths","what":what,"position":pos,"elements":total}));
                    }
                }
            }
        }
    }
    ctx.engine("E4.package-builder", json!({"pairs": m.load(Ordering::Relaxed), "element_counts": "0..=255 x 9 fillers; all lists <=3; nested"}));

    // ---- borrowed vs owned strings, every length 0..=300 (and a long one)
    let mut s = 0u64;
    for len in (0..=300usize).chain([4093, 4094, 65_535, 65_536]) {
        for ch in ["a", "Z"] {
            let st = ch.repeat(len);
            same(ctx, "alt:string", len as u64, &T::Str(st.clone(), false), &T::Str(st.clone(), true), || format!("string of {} x {:?}", len, ch));
            s += 1;
        }
    }
    // values that coincide with the string encoding's own framing or with characters a normalising helper would
    // touch: NUL / whitespace / quote / non-ASCII at the start, in the middle and at the end, alone and doubled
    let specials = ["\0", "\0\0", " ", "  ", "\n", "\t", "\r\n", "\"", "'", "\\", "\u{7f}", "\u{e9}", "\u{a0}", "\u{2028}", "\u{1f600}"];
    for body_len in [0usize, 1, 2, 3, 7, 62, 63, 64, 255] {
        let body = "b".repeat(body_len);
        for sp in specials {
            for st in [format!("{}{}", body, sp), format!("{}{}", sp, body), format!("{}{}{}", body, sp, body), format!("{}{}{}", sp, body, sp)] {
                let what = format!("{:?}", st.chars().take(12).collect::<String>());
                same(ctx, "alt:string:special", st.len() as u64, &T::Str(st.clone(), false), &T::Str(st.clone(), true), || format!("string {} ({} bytes)", what, st.len()));
                // and as a Name value / package element, where the string sits inside another object
                same(ctx, "alt:string:special-nested", st.len() as u64, &T::Package(vec![T::Str(st.clone(), false), T::One]), &T::Package(vec![T::Str(st.clone(), true), T::One]), || format!("package holding string {}", what));
                s += 2;
            }
        }
    }
    // every character (the value principle): each ASCII character and each two-byte UTF-8 character (U+0000..U+07FF), plus a
    // selection beyond, at the head, at the tail, inside and alone; every pair of ASCII characters at the head - a rule keyed
    // to one particular character (a legacy prefix, a quote, an escape) on one of the two carriers is met at that character
    let mut chars: Vec<char> = (0u32..0x800).filter_map(char::from_u32).collect();
    chars.extend(['\u{800}', '\u{fffd}', '\u{ffff}', '\u{10000}', '\u{10ffff}', '\u{2028}', '\u{feff}']);
    let mut sc = 0u64;
    for c in &chars {
        for st in [c.to_string(), format!("{}PNP0A03", c), format!("AB{}", c), format!("AB{}CD", c), format!("{}{}", c, c)] {
            let what = format!("{:?}", st);
            same(ctx, "alt:string:character", *c as u64, &T::Str(st.clone(), false), &T::Str(st.clone(), true), || format!("string {}", what));
            sc += 1;
        }
        let st = format!("{}X", c);
        same(ctx, "alt:string:character-nested", *c as u64, &T::Package(vec![T::Str(st.clone(), false), T::One]), &T::Package(vec![T::Str(st.clone(), true), T::One]), || format!("package holding string {:?}", st));
        sc += 1;
    }
    for a in 0u8..128 {
        for b in 0u8..128 {
            let st = format!("{}{}ID", a as char, b as char);
            same(ctx, "alt:string:character-pair", (a as u64) << 8 | b as u64, &T::Str(st.clone(), false), &T::Str(st.clone(), true), || format!("string {:?}", st));
            sc += 1;
        }
    }
    s += sc;
    ctx.engine("E4.string-characters", json!({"pairs": sc, "characters": chars.len(), "forms": ["alone", "head", "tail", "inside", "doubled", "nested in a package"], "ascii_head_pairs": 128 * 128}));
    ctx.engine("E4.strings", json!({"pairs": s, "special_values": specials.len()}));

    // ---- usize vs u64 over the C08 structured set
    let mut vals: Vec<u64> = vec![];
    for b in [0u64, 1 << 8, 1 << 16, 1 << 32] {
        for d in 0..=2 {
            vals.push(b.wrapping_sub(d));
            vals.push(b + d);
        }
    }
    for i in 0..64 {
        vals.push(1u64 << i);
        vals.push(!(1u64 << i));
    }
    for fb in 0..=255u64 {
        vals.push(fb * 0x0101_0101_0101_0101);
        for k in 0..8 {
            vals.push(fb << (8 * k));
        }
    }
    for i in 0..64 {
        vals.push(splitmix(ctx.seed.wrapping_mul(31).wrapping_add(i)));
    }
    vals.sort();
    vals.dedup();
    for v in &vals {
        same(ctx, "alt:usize-u64", *v, &T::Int(*v, Carrier::Usize), &T::Int(*v, Carrier::U64), || format!("integer {}", v));
    }
    ctx.engine("E4.usize-u64", json!({"values": vals.len()}));
    ctx.st(n.load(Ordering::Relaxed) + m.load(Ordering::Relaxed) + s + vals.len() as u64);
    ctx.force_sample(json!({"pair": "Scope::raw(\\_SB_.PCI0, bytes(Str x 4086)) vs Scope::new(...)", "note": "body crosses the 2-byte/3-byte PkgLength boundary"}));
    ctx.force_sample(json!({"pair": "PackageBuilder x 255 elements vs Package::new(255 elements)"}));
}

pub const RULE: &str = "Scope::raw vs Scope::new: 6 paths x every body size 0..4200 and around 2^20 + every child list <=3 over the fillers; PackageBuilder vs Package: all lists <=3, nested, k copies for k=0..=255 x 9 fillers; &str vs String for every length 0..=300; usize vs u64 over the structured integer set. distinct = distinct byte streams";
pub const ASSUME: &[&str] = &["byte equality of the two paths only; that the bytes are also correct is C06/C07"];
