//! C11 — option builders set exactly their own specification bit, independently.
//! One stateright closure per option-bearing structure: state = serialised structure,
//! actions = every option builder; every transition compared with a spec-derived reference
//! of the whole structure (so nothing outside the governed field may move).
use crate::ev::Ctx;
use crate::fill::{Ctor, Fill, Op};
use crate::sr::{explore, FnModel, Node};
use crate::tables::{cedt_hest, fixed, madt, numa, topo};
use crate::util::{catch, first_diff, fnv, hex, rd32, ser, W};
use acpi_tables::{fadt, hmat, pptt, tpm2};
use rayon::prelude::*;
use serde_json::json;
use std::sync::atomic::{AtomicU64, Ordering};
use std::sync::Arc;

pub struct Subject {
    pub name: &'static str,
    pub actions: Vec<&'static str>,
    /// apply the option sequence (action indices) to a fresh real builder and serialise
    pub real: Box<dyn Fn(&[u8]) -> Vec<u8> + Send + Sync>,
    /// what the specification prescribes after that sequence
    pub reference: Box<dyn Fn(&[u8]) -> Vec<u8> + Send + Sync>,
    /// groups of actions that are alternative values of one enumerated option: once one of a group was invoked, the
    /// others are not offered (whether a later value replaces or joins an earlier one is not fixed by the property)
    pub exclusive: Vec<Vec<u8>>,
    /// byte offsets not judged (constants pinned to the baseline, and the checksum that depends on them)
    pub unjudged: Vec<usize>,
}

thread_local! {
    /// when set, the option loops serialise the object after every option (an observation between two options must not
    /// change what a later option does: a cache filled by serialising is state like any other)
    static OBSERVE: std::cell::Cell<bool> = std::cell::Cell::new(false);
}
fn obs(a: &dyn acpi_tables::Aml) {
    if OBSERVE.with(|o| o.get()) {
        let _ = ser(a);
    }
}
fn mask_of(seq: &[u8], bit_of: &[u16]) -> u16 {
    seq.iter().fold(0, |m, a| m | bit_of[*a as usize])
}

fn subjects() -> Vec<Subject> {
    let f = Fill::b(2);
    let mut v: Vec<Subject> = vec![];
    // SRAT memory affinity: enabled bit0, hot pluggable bit1, non-volatile bit2
    v.push(Subject {
        exclusive: vec![],
        unjudged: vec![],
        name: "srat.MemoryAffinity",
        actions: vec!["enabled", "hotpluggable", "nonvolatile"],
        real: Box::new(move |s| {
            let mut m = numa::real_mem(&f, 0);
            for a in s {
                m = match a {
                    0 => m.enabled(),
                    1 => m.hotpluggable(),
                    _ => m.nonvolatile(),
                };
                obs(&m);
            }
            ser(&m)
        }),
        reference: Box::new(move |s| {
            let mut w = W::new();
            numa::srat_ref_entry(&mut w, &Op { k: numa::S_MEM, shape: mask_of(s, &[1, 2, 4]), fill: f });
            w.0
        }),
    });
    for k in [numa::S_GI_ACPI, numa::S_GI_PCI] {
        v.push(Subject {
        exclusive: vec![],
        unjudged: vec![],
            name: if k == numa::S_GI_ACPI { "srat.GenericInitiator(acpi)" } else { "srat.GenericInitiator(pci)" },
            actions: vec!["enabled", "architectural"],
            real: Box::new(move |s| {
                let mut g = numa::real_gi(k, &f, 0);
                for a in s {
                    g = if *a == 0 { g.enabled() } else { g.architectural() };
                    obs(&g);
                }
                ser(&g)
            }),
            reference: Box::new(move |s| {
                let mut w = W::new();
                numa::srat_ref_entry(&mut w, &Op { k, shape: mask_of(s, &[1, 2]), fill: f });
                w.0
            }),
        });
    }
    v.push(Subject {
        exclusive: vec![],
        unjudged: vec![],
        name: "srat.RintcAffinity",
        actions: vec!["enabled", "proximity_domain(a)", "proximity_domain(b)"],
        real: Box::new(move |s| {
            let mut r = numa::real_rintc_aff(&f, 0);
            for a in s {
                r = match a {
                    0 => r.enabled(),
                    1 => r.proximity_domain(f.u32(2)),
                    _ => r.proximity_domain(!f.u32(2)),
                };
                obs(&r);
            }
            ser(&r)
        }),
        reference: Box::new(move |s| {
            let mut w = W::new();
            let last = s.iter().rev().find(|a| **a != 0);
            let fill = match last {
                Some(2) => f.with(2, !f.u32(2) as u64),
                _ => f,
            };
            numa::srat_ref_entry(&mut w, &Op { k: numa::S_RINTC, shape: mask_of(s, &[1, 2, 2]), fill });
            w.0
        }),
    });
    // PPTT processor node flags: physical 0, valid 1, thread 2, leaf 3, identical 4
    v.push(Subject {
        exclusive: vec![],
        unjudged: vec![],
        name: "pptt.ProcessorNode",
        actions: vec!["physical", "valid", "thread", "leaf", "identical"],
        real: Box::new(move |s| {
            let mut p = pptt::ProcessorNode::new(None, f.u32(0));
            for a in s {
                p = topo::real_proc_opts(p, 1 << *a);
                obs(&p);
            }
            ser(&p)
        }),
        reference: Box::new(move |s| {
            let m = mask_of(s, &[1, 2, 4, 8, 16]);
            let mut w = W::new();
            w.u8(0).u8(20).u16(0).u32(m as u32).u32(0).u32(f.u32(0)).u32(0);
            w.0
        }),
    });
    // the same node under a parent (a handle value of 936): an option changes its own flag bit, never the parent field
    v.push(Subject {
        exclusive: vec![],
        unjudged: vec![],
        name: "pptt.ProcessorNode[with parent]",
        actions: vec!["physical", "valid", "thread", "leaf", "identical"],
        real: Box::new(move |s| {
            let parent = topo::foreign_parent();
            let mut p = pptt::ProcessorNode::new(Some(&parent), f.u32(0));
            for a in s {
                p = topo::real_proc_opts(p, 1 << *a);
                obs(&p);
            }
            ser(&p)
        }),
        reference: Box::new(move |s| {
            let m = mask_of(s, &[1, 2, 4, 8, 16]);
            let mut w = W::new();
            w.u8(0).u8(20).u16(0).u32(m as u32).u32(topo::FOREIGN_PARENT_OFFSET).u32(f.u32(0)).u32(0);
            w.0
        }),
    });
    // PPTT cache node: 8 setters; the enum-valued ones over all variants (repeated enum setters OR together: union semantics)
    {
        let acts = vec![
            "size(a)", "size(b)", "sets", "associativity", "alloc(Read)", "alloc(Write)", "alloc(Both)", "type(Data)", "type(Instruction)", "type(Unified)", "policy(Writeback)",
            "policy(Writethrough)", "line_size", "id",
        ];
        v.push(Subject {
        exclusive: vec![vec![4, 5, 6], vec![7, 8, 9], vec![10, 11]],
        unjudged: vec![],
            name: "pptt.CacheNodeBuilder",
            actions: acts,
            real: Box::new(move |s| {
                use pptt::{AllocationType as A, CacheType as C, WritePolicy as P};
                let mut b = pptt::CacheNodeBuilder::default();
                for a in s {
                    b = match a {
                        0 => b.size(f.u32(0)),
                        1 => b.size(!f.u32(0)),
                        2 => b.sets(f.u32(1)),
                        3 => b.associativity(f.u8(2)),
                        4 => b.allocation_type(A::Read),
                        5 => b.allocation_type(A::Write),
                        6 => b.allocation_type(A::Both),
                        7 => b.cache_type(C::Data),
                        8 => b.cache_type(C::Instruction),
                        9 => b.cache_type(C::Unified),
                        10 => b.write_policy(P::Writeback),
                        11 => b.write_policy(P::Writethrough),
                        12 => b.line_size(f.u16(6)),
                        _ => b.id(f.u32(7)),
                    };
                }
                ser(&b.to_node())
            }),
            reference: Box::new(move |s| {
                // flags: bit0 size, 1 sets, 2 associativity, 3 allocation type, 4 cache type, 5 write policy, 6 line size, 7 id
                let flag_of = [1u32, 1, 2, 4, 8, 8, 8, 16, 16, 16, 32, 32, 64, 128];
                let attr_of = [0u8, 0, 0, 0, 0, 1, 2, 0, 1 << 2, 2 << 2, 0, 1 << 4, 0, 0];
                let flags = s.iter().fold(0u32, |m, a| m | flag_of[*a as usize]);
                let attr = s.iter().fold(0u8, |m, a| m | attr_of[*a as usize]);
                let size = match s.iter().rev().find(|a| **a <= 1) {
                    Some(0) => f.u32(0),
                    Some(_) => !f.u32(0),
                    None => 0,
                };
                let has = |i: u8| s.contains(&i);
                let mut w = W::new();
                w.u8(1).u8(28).u16(0).u32(flags).u32(0).u32(size).u32(if has(2) { f.u32(1) } else { 0 });
                w.u8(if has(3) { f.u8(2) } else { 0 }).u8(attr).u16(if has(12) { f.u16(6) } else { 0 }).u32(if has(13) { f.u32(7) } else { 0 });
                w.0
            }),
        });
    }
    // the cache-node setters called with ZERO arguments: an option marks its property valid whatever value it is given
    // (cache id 0, for the first cache of a system numbered from 0, is an ordinary value)
    v.push(Subject {
        exclusive: vec![],
        unjudged: vec![],
        name: "pptt.CacheNodeBuilder[zero arguments]",
        actions: vec!["size(0)", "sets(0)", "associativity(0)", "line_size(0)", "id(0)", "size(x)", "id(x)"],
        real: Box::new(move |s| {
            let mut b = pptt::CacheNodeBuilder::default();
            for a in s {
                b = match a {
                    0 => b.size(0),
                    1 => b.sets(0),
                    2 => b.associativity(0),
                    3 => b.line_size(0),
                    4 => b.id(0),
                    5 => b.size(f.u32(0)),
                    _ => b.id(f.u32(7)),
                };
            }
            ser(&b.to_node())
        }),
        reference: Box::new(move |s| {
            // flags: bit0 size, 1 sets, 2 associativity, 6 line size, 7 id — set by the call, not by the value
            let flag_of = [1u32, 2, 4, 64, 128, 1, 128];
            let flags = s.iter().fold(0u32, |m, a| m | flag_of[*a as usize]);
            let size = match s.iter().rev().find(|a| **a == 0 || **a == 5) {
                Some(5) => f.u32(0),
                _ => 0,
            };
            let id = match s.iter().rev().find(|a| **a == 4 || **a == 6) {
                Some(6) => f.u32(7),
                _ => 0,
            };
            let mut w = W::new();
            w.u8(1).u8(28).u16(0).u32(flags).u32(0).u32(size).u32(0).u8(0).u8(0).u16(0).u32(id);
            w.0
        }),
    });
    // CEDT fixed memory window restrictions, for every interleave-ways value x arithmetic x a granularity (an option must
    // set its own bit whatever the window it is applied to looks like)
    for wi in 0..8usize {
        for ar in 0..2usize {
            let gr = (wi * 2 + ar) % 7;
            v.push(Subject {
                exclusive: vec![],
                unjudged: vec![],
                name: Box::leak(format!("cedt.CxlFixedMemory[{} ways, arithmetic {}, granularity {}]", cedt_hest::WAYS[wi].1, ar, gr).into_boxed_str()),
                actions: vec!["cxl_type_2_memory", "cxl_type_3_memory", "volatile", "persistent", "fixed_configuration"],
                real: Box::new(move |s| {
                    use acpi_tables::cedt::{CxlFixedMemory, InterleaveArithmetic as A, InterleaveGranularity as G, InterleaveWays as Wy};
                    let ways = [Wy::Ways1, Wy::Ways2, Wy::Ways4, Wy::Ways8, Wy::Ways16, Wy::Ways3, Wy::Ways6, Wy::Ways12][wi];
                    let g = [G::Granularity256b, G::Granularity512b, G::Granularity1kb, G::Granularity2kb, G::Granularity4kb, G::Granularity8kb, G::Granularity16kb][gr];
                    let mut m = CxlFixedMemory::new(f.u64(0), f.u64(1), [A::Modulo, A::ModuloXor][ar], g, ways, f.u16(4));
                    for a in s {
                        m = cedt_hest::real_cfmws_opts(m, 1 << *a);
                    }
                    for t in 0..cedt_hest::WAYS[wi].1 {
                        m.add_target([1 + t as u8, 2, 3, 4]);
                    }
                    ser(&m)
                }),
                reference: Box::new(move |s| {
                    let m = mask_of(s, &[1, 2, 4, 8, 16]);
                    let n = cedt_hest::WAYS[wi].1;
                    let mut w = W::new();
                    w.u8(1).u8(0).u16((36 + 4 * n) as u16).u32(0).u64(f.u64(0)).u64(f.u64(1)).u8(cedt_hest::WAYS[wi].0).u8(ar as u8).u16(0).u32(gr as u32).u16(m).u16(f.u16(4));
                    for t in 0..n {
                        w.b(&[1 + t as u8, 2, 3, 4]);
                    }
                    w.0
                }),
            });
        }
    }
    // TCPA server flags (whole table, so the checksum is covered too); the two address-taking options once with the
    // pattern's address space and once with each of system memory, system I/O, PCI configuration space, functional fixed
    // hardware (an option must set its own bit whatever its argument is)
    for sp in [None, Some(0u64), Some(1), Some(2), Some(12)] {
        let mut ops: Vec<Op> = vec![
            Op::new(1, 0, 2),
            Op::new(2, 0, 2),
            Op::new(3, 0, 2),
            Op::new(3, 0, 1),
            Op::new(4, 0, 2),
            Op::new(5, 0, 2),
            Op::new(6, 0, 2),
            Op::new(8, 0, 2),
            Op::new(0, 0, 2),
            Op::new(7, 0, 2),
        ];
        if let Some(x) = sp {
            for o in ops.iter_mut().filter(|o| o.k >= 7) {
                o.fill = o.fill.with(0, x);
            }
        }
        let ops2 = ops.clone();
        let c = Ctor::new(2, 0, 2);
        v.push(Subject {
            exclusive: vec![],
            unjudged: vec![56, 57, 9],
            name: match sp {
                None => "tpm2.TpmServer1_2",
                Some(0) => "tpm2.TpmServer1_2[addresses in system memory]",
                Some(1) => "tpm2.TpmServer1_2[addresses in system I/O]",
                Some(2) => "tpm2.TpmServer1_2[addresses in PCI configuration space]",
                _ => "tpm2.TpmServer1_2[addresses in functional fixed hardware]",
            },
            actions: vec!["active_low", "edge_triggered", "sci_gpe(a)", "sci_gpe(b)", "gsi", "bus_is_pnp", "pci_sbdf", "config_addr", "log_area", "base_addr"],
            real: Box::new(move |s| {
                let mut t = tpm2::TpmServer1_2::new(c.oem_id(), c.oem_table_id(), c.oem_rev());
                for a in s {
                    t = fixed::ts_apply(t, &ops[*a as usize]);
                    obs(&t);
                }
                ser(&t)
            }),
            reference: Box::new(move |s| {
                let seq: Vec<Op> = s.iter().map(|a| ops2[*a as usize]).collect();
                fixed::ts_reference(&c, &seq)
            }),
        });
    }
    // GICC: 3 statuses x performance/maintenance interrupt with either trigger (edge sets its bit; union semantics)
    for st in 0..3usize {
        let fs = f.with(0, st as u64);
        v.push(Subject {
        exclusive: vec![vec![0, 1], vec![2, 3]],
        unjudged: vec![],
            name: ["madt.Gicc(Disabled)", "madt.Gicc(Enabled)", "madt.Gicc(OnlineCapable)"][st],
            actions: vec!["performance_interrupt(edge)", "performance_interrupt(level)", "maintenance_interrupt(edge)", "maintenance_interrupt(level)"],
            real: Box::new(move |s| {
                use acpi_tables::madt::Trigger;
                let mut g = madt::real_gicc(&fs, 0);
                for a in s {
                    g = match a {
                        0 => g.performance_interrupt(fs.u32(4), Trigger::Edge),
                        1 => g.performance_interrupt(fs.u32(4), Trigger::Level),
                        2 => g.maintenance_interrupt(fs.u32(10), Trigger::Edge),
                        _ => g.maintenance_interrupt(fs.u32(10), Trigger::Level),
                    };
                    obs(&g);
                }
                ser(&g)
            }),
            reference: Box::new(move |s| {
                let mut w = W::new();
                let shape = (if s.iter().any(|a| *a <= 1) { 2 } else { 0 }) | (if s.iter().any(|a| *a >= 2) { 4 } else { 0 });
                // edge bit set iff an edge-triggered call was made
                let ff = fs.with(5, if s.contains(&0) { 0 } else { 1 }).with(11, if s.contains(&2) { 0 } else { 1 });
                madt::ref_gicc(&mut w, &ff, shape);
                w.0
            }),
        });
    }
    v.push(Subject {
        exclusive: vec![],
        unjudged: vec![],
        name: "madt.GicMsi",
        actions: vec!["spi_count_and_base(a)", "spi_count_and_base(b)", "gic_msi_frame_id", "base_addr"],
        real: Box::new(move |s| {
            let mut g = acpi_tables::madt::GicMsi::new();
            for a in s {
                g = match a {
                    0 => g.spi_count_and_base(f.u16(2), f.u16(3)),
                    1 => g.spi_count_and_base(0, 0),
                    2 => g.gic_msi_frame_id(f.u32(0)),
                    _ => g.base_addr(f.u64(1)),
                };
                obs(&g);
            }
            ser(&g)
        }),
        reference: Box::new(move |s| {
            // the select flag is set exactly when count/base were supplied (even if the supplied values are 0)
            let supplied = s.iter().any(|a| *a <= 1);
            let (cnt, base) = match s.iter().rev().find(|a| **a <= 1) {
                Some(0) => (f.u16(2), f.u16(3)),
                _ => (0, 0),
            };
            let mut w = W::new();
            w.u8(0xd).u8(24).u16(0).u32(if s.contains(&2) { f.u32(0) } else { 0 }).u64(if s.contains(&3) { f.u64(1) } else { 0 }).u32(supplied as u32).u16(cnt).u16(base);
            w.0
        }),
    });
    // HMAT locality flags: 4 locality types x the two access-attribute options
    for lt in 0..4usize {
        let fl = f.with(0, lt as u64);
        v.push(Subject {
        exclusive: vec![],
        unjudged: vec![],
            name: ["hmat.SystemLocality(Memory)", "hmat.SystemLocality(L1)", "hmat.SystemLocality(L2)", "hmat.SystemLocality(L3)"][lt],
            actions: vec!["non_sequential_transfers", "minimum_transfer_size_required"],
            real: Box::new(move |s| {
                let mut x: hmat::SystemLocality = numa::real_sll_new(&fl, numa::sll_shape(1, 2, 0));
                for a in s {
                    if *a == 0 {
                        x.non_sequential_transfers()
                    } else {
                        x.minimum_transfer_size_required()
                    }
                    obs(&x);
                }
                ser(&x)
            }),
            reference: Box::new(move |s| {
                let mut w = W::new();
                numa::ref_sll_with(&mut w, &fl, numa::sll_shape(1, 2, mask_of(s, &[1, 2])), &[0], &[0, 0], &[0xffff, 0xffff]);
                w.0
            }),
        });
    }
    v
}

fn closure(ctx: &'static Ctx, sub: Subject) -> (u64, u64) {
    let sub = Arc::new(sub);
    let name = sub.name;
    let na = sub.actions.len() as u8;
    let judge = {
        let sub = sub.clone();
        move |seq: &[u8], img: &[u8]| -> bool {
            let want = (sub.reference)(seq);
            if img == &want[..] {
                return true;
            }
            if !sub.unjudged.is_empty() && img.len() == want.len() {
                let (mut a, mut b) = (img.to_vec(), want.clone());
                for o in &sub.unjudged {
                    a[*o] = 0;
                    b[*o] = 0;
                }
                if a == b {
                    return true;
                }
            }
            let names: Vec<&str> = seq.iter().map(|a| sub.actions[*a as usize]).collect();
            let last = names.last().copied().unwrap_or("new");
            ctx.violation_sized(
                &format!("opt:{}:{}", name, last),
                seq.len() as u64,
                || {
                    let d = first_diff(img, &want).unwrap_or(0);
                    format!("{} after [{}]: differs from the specification at offset {}: got {} want {}", name, names.join(", "), d, hex(&img[d.min(img.len())..(d + 8).min(img.len())]), hex(&want[d.min(want.len())..(d + 8).min(want.len())]))
                },
                || json!({"family":"options","structure":name,"sequence":names}),
            )
        }
    };
    let init = match catch(|| (sub.real)(&[])) {
        Ok(i) => i,
        Err(m) => {
            ctx.violation(&format!("opt:{}:new", name), || format!("{} construction panicked: {}", name, m), || json!({"family":"options","structure":name,"sequence":[]}));
            return (0, 0);
        }
    };
    let ok0 = judge(&[], &init);
    let (s2, j2) = (sub.clone(), judge.clone());
    let m = FnModel::<Vec<u8>, Vec<u8>, u8> {
        init: vec![Node { key: init, aux: vec![], bad: !ok0 }],
        actions: Arc::new({
            let sx = sub.clone();
            move |s, out| {
                for a in 0..na {
                    // an alternative of an enumerated option already invoked with another value is not offered
                    let blocked = sx.exclusive.iter().any(|g| g.contains(&a) && s.aux.iter().any(|h| g.contains(h) && *h != a));
                    if !blocked {
                        out.push(a);
                    }
                }
            }
        }),
        step: Arc::new(move |s, a| {
            let mut seq = s.aux.clone();
            seq.push(*a);
            // the same sequence once more with a serialisation after every option
            let observed = catch(|| {
                OBSERVE.with(|o| o.set(true));
                let r = (s2.real)(&seq);
                OBSERVE.with(|o| o.set(false));
                r
            });
            OBSERVE.with(|o| o.set(false));
            match catch(|| (s2.real)(&seq)) {
                Ok(img) => {
                    ctx.distinct(fnv(&img) ^ fnv(name.as_bytes()));
                    let mut ok = j2(&seq, &img);
                    if observed.as_ref().ok() != Some(&img) {
                        let names: Vec<&str> = seq.iter().map(|a| s2.actions[*a as usize]).collect();
                        ok = ctx.violation_sized(
                            &format!("opt:{}:observed-in-between", name),
                            seq.len() as u64,
                            || format!("{} after [{}]: serialising the object after every option changes the final bytes: {:?} instead of {}", name, names.join(", "), observed.as_ref().map(|b| hex(&b[..b.len().min(24)])), hex(&img[..img.len().min(24)])),
                            || json!({"family":"options","structure":name,"sequence":names,"observed_between":true}),
                        ) && ok;
                    }
                    if s.aux.contains(a) {
                        ctx.witness("option_repeated");
                    }
                    Some(Node { key: img, aux: seq, bad: !ok })
                }
                Err(msg) => {
                    let ok = ctx.violation_sized(&format!("opt:{}:panic", name), seq.len() as u64, || format!("{} option {} panicked: {}", name, s2.actions[*a as usize], msg), || json!({"family":"options","structure":name,"sequence":seq}));
                    Some(Node { key: vec![], aux: seq, bad: !ok })
                }
            }
        }),
        boundary: Arc::new(|_| true),
        transitions: Arc::new(AtomicU64::new(0)),
    };
    let o = explore(m, 8, false, 50_000_000, false);
    if o.capped {
        ctx.cap(format!("{} closure stopped at the state cap", name));
    }
    (o.unique, o.transitions)
}

// ---------------------------------------------------------------- FADT
fn fadt_image(c: &Ctor, ops: &[Op]) -> Vec<u8> {
    let mut b = fadt::FADTBuilder::new(c.oem_id(), c.oem_table_id(), c.oem_rev());
    for o in ops {
        b = fixed::fadt_apply(b, o);
    }
    ser(&b.finalize())
}

/// closure over a window of flags: state = the 32-bit flags field read from the real image; the builder has no hidden
/// state, so it is rebuilt canonically from the set bits (DESIGN.md C11)
fn fadt_flag_closure(ctx: &'static Ctx, window: Vec<u16>, label: &str) -> (u64, u64) {
    let c = Ctor::new(2, 0, 2);
    let win = Arc::new(window);
    let w2 = win.clone();
    let tr = Arc::new(AtomicU64::new(0));
    let m = FnModel::<u32, (), u16> {
        init: vec![Node { key: 0, aux: (), bad: false }],
        actions: Arc::new(move |s, out| {
            for a in w2.iter() {
                // flags 23 and 24 are alternative values of the 2-bit persistent-CPU-caches field
                let blocked = (*a == 23 && s.key & (1 << 23) != 0) || (*a == 24 && s.key & (1 << 22) != 0);
                if !blocked {
                    out.push(*a);
                }
            }
        }),
        step: Arc::new(move |s, a| {
            // canonical history: one flag() call per bit already set (ascending), then the action
            let mut ops: Vec<Op> = vec![];
            for i in 0..22u16 {
                if s.key & (1 << i) != 0 {
                    ops.push(Op::new(fixed::F_FLAG, i, 2));
                }
            }
            if s.key & (1 << 22) != 0 {
                ops.push(Op::new(fixed::F_FLAG, 23, 2));
            }
            if s.key & (1 << 23) != 0 {
                ops.push(Op::new(fixed::F_FLAG, 24, 2));
            }
            ops.push(Op::new(fixed::F_FLAG, *a, 2));
            let img = fadt_image(&c, &ops);
            let want = fixed::fadt_reference(&c, &ops);
            let ok = crate::tables::eq_judged(&fixed::Fadt, &ops, &img, &want)
                || ctx.violation_sized(
                    &format!("opt:fadt:flag:{}", a),
                    ops.len() as u64,
                    || format!("FADT flags {:#x} then flag #{}: image differs from the specification at {:?}; flags field {:#x} want {:#x}", s.key, a, first_diff(&img, &want), rd32(&img, 112), rd32(&want, 112)),
                    || json!({"family":"options","structure":"fadt","flags_before": s.key, "flag_index": a}),
                );
            Some(Node { key: rd32(&img, 112), aux: (), bad: !ok })
        }),
        boundary: Arc::new(|_| true),
        transitions: tr.clone(),
    };
    let o = explore(m, 16, true, 1_000_000_000, false);
    if o.capped {
        ctx.cap(format!("FADT flag closure {} stopped at the state cap", label));
    }
    (o.unique, o.transitions)
}

fn fadt_mode_closure(ctx: &'static Ctx) -> (u64, u64) {
    let c = Ctor::new(2, 0, 2);
    let mut acts: Vec<Op> = vec![];
    for i in 0..9 {
        acts.push(Op::new(fixed::F_PROFILE, i, 2));
    }
    for k in [fixed::F_ENABLE, fixed::F_DISABLE] {
        acts.push(Op::new(k, 0, 2));
    }
    for k in [fixed::F_DSDT32, fixed::F_DSDT64, fixed::F_FW32, fixed::F_FW64] {
        acts.push(Op::new(k, 0, 2));
        acts.push(Op::new(k, 0, 3));
    }
    for i in [0u16, 4, 12, 20, 21, 23] {
        acts.push(Op::new(fixed::F_FLAG, i, 2));
    }
    let a2 = acts.clone();
    let m = FnModel::<Vec<u8>, Vec<Op>, Op> {
        init: vec![Node { key: fadt_image(&c, &[]), aux: vec![], bad: false }],
        actions: Arc::new(move |_s, out| out.extend(a2.iter().cloned())),
        step: Arc::new(move |s, a| {
            let mut ops = s.aux.clone();
            ops.push(*a);
            let img = fadt_image(&c, &ops);
            let want = fixed::fadt_reference(&c, &ops);
            ctx.distinct(fnv(&img));
            let kinds = fixed::Fadt;
            let ok = crate::tables::eq_judged(&kinds, &ops, &img, &want)
                || ctx.violation_sized(
                    &format!("opt:fadt:{}", crate::tables::Table::kinds(&kinds)[a.k as usize]),
                    ops.len() as u64,
                    || format!("FADT after {} option calls: image differs from the specification at offset {:?}", ops.len(), first_diff(&img, &want)),
                    || crate::seq::replay_json(&kinds, &c, &ops),
                );
            Some(Node { key: img, aux: ops, bad: !ok })
        }),
        boundary: Arc::new(|_| true),
        transitions: Arc::new(AtomicU64::new(0)),
    };
    let o = explore(m, 16, false, 50_000_000, false);
    if o.capped {
        ctx.cap("FADT mode closure stopped at the state cap".into());
    }
    (o.unique, o.transitions)
}

pub fn run(ctx: &'static Ctx) {
    let mut rep = vec![];
    for s in subjects() {
        let (name, na) = (s.name, s.actions.len());
        let (u, t) = closure(ctx, s);
        ctx.st(u);
        ctx.tr(t);
        rep.push(json!({"structure": name, "options": na, "unique_states": u, "transitions": t, "closed": true}));
    }
    ctx.engine("E1.option-closures", json!(rep));

    // FADT: every ordered pair (and every triple flag / builder / flag) of builder operations: a flag option changes its
    // own bit only, and what another builder stores does not depend on the flags already set
    {
        use crate::tables::Table;
        let t = fixed::Fadt;
        let c = Ctor::new(2, 0, 2);
        let al = t.alphabet(&c, &[], 1);
        let judge = |ops: &[Op]| {
            ctx.tr(ops.len() as u64);
            let mut img = vec![];
            match catch(|| t.run(&c, ops, &mut |k, live, _| if k == ops.len() { img = ser(live) })) {
                Err(m) => {
                    ctx.violation_sized("opt:fadt:pair:panic", ops.len() as u64, || format!("FADT builder sequence {:?} panicked: {}", ops.iter().map(|o| t.kinds()[o.k as usize]).collect::<Vec<_>>(), m), || crate::seq::replay_json(&t, &c, ops));
                }
                Ok(()) => {
                    let want = t.reference(&c, ops).image;
                    if !crate::tables::eq_judged(&t, ops, &img, &want) {
                        let names: Vec<&str> = ops.iter().map(|o| t.kinds()[o.k as usize]).collect();
                        ctx.violation_sized(
                            &format!("opt:fadt:pair:{}", names.last().copied().unwrap_or("new")),
                            ops.len() as u64,
                            || format!("FADT after {:?}: image differs from the specification at {:?}", names, first_diff(&img, &want)),
                            || crate::seq::replay_json(&t, &c, ops),
                        );
                    }
                }
            }
        };
        let mut n = 0u64;
        for a in &al {
            for b in &al {
                judge(&[*a, *b]);
                n += 1;
            }
        }
        // flag, builder, another flag (flags = the operations of the first kind in the alphabet's flag group)
        let flags: Vec<Op> = al.iter().filter(|o| t.kinds()[o.k as usize].contains("flag")).cloned().collect();
        let others: Vec<Op> = al.iter().filter(|o| !t.kinds()[o.k as usize].contains("flag")).cloned().collect();
        for f1 in flags.iter().step_by(2) {
            for b in &others {
                for f2 in flags.iter().skip(1).step_by(3) {
                    judge(&[*f1, *b, *f2]);
                    n += 1;
                }
            }
        }
        ctx.st(n);
        ctx.engine("E2.fadt-builder-pairs", json!({"operations": al.len(), "flag_operations": flags.len(), "sequences": n}));
    }

    // constructor-valued enable states and booleans: all tuples (MADT enable states, RIMT booleans, HEST firmware-first / GLOBAL)
    let mut tuples = 0u64;
    {
        use crate::tables::Table;
        let progs: Vec<(Box<dyn Table>, Vec<Op>, Op)> = {
            let mut p: Vec<(Box<dyn Table>, Vec<Op>, Op)> = vec![];
            for st in 0..3u64 {
                p.push((Box::new(madt::Madt), vec![], Op { k: madt::K_LAPIC, shape: 0, fill: Fill::b(2).with(2, st) }));
                p.push((Box::new(madt::Madt), vec![], Op { k: madt::K_RINTC, shape: 0, fill: Fill::b(2).with(0, st) }));
            }
            // RIMT: interrupt wire (level, polarity), IOMMU (pci, proximity present), id mapping (ats, pri, rciep), root complex (ats, pri)
            for bits in 0..4u64 {
                p.push((Box::new(topo::Rimt), vec![], Op { k: topo::I_IOMMU, shape: topo::iommu_shape(1, true, true, true, true), fill: Fill::b(0).with(8, bits & 1).with(9, bits >> 1) }));
                p.push((Box::new(topo::Rimt), vec![], Op { k: topo::I_IOMMU, shape: topo::iommu_shape(0, true, true, bits & 1 != 0, bits & 2 != 0), fill: Fill::b(2) }));
                p.push((Box::new(topo::Rimt), vec![], Op { k: topo::I_RC, shape: topo::map_shape(0, true, 0, 0), fill: Fill::b(0).with(2, bits & 1).with(3, bits >> 1) }));
            }
            for bits in 0..8u64 {
                let pre = vec![Op::new(topo::I_IOMMU, topo::iommu_shape(0, false, false, false, false), 0)];
                // two overrides only: enumerate the three booleans over base fills 0 and 1 with two overridden
                for base in [0u8, 1] {
                    p.push((Box::new(topo::Rimt), pre.clone(), Op { k: topo::I_RC, shape: topo::map_shape(1, true, 0, 0), fill: Fill::b(base).with(7, bits & 1).with(8, (bits >> 1) & 1) }));
                    p.push((Box::new(topo::Rimt), pre.clone(), Op { k: topo::I_RC, shape: topo::map_shape(1, true, 0, 0), fill: Fill::b(base).with(8, (bits >> 1) & 1).with(9, bits >> 2) }));
                }
            }
            for k in 0..3u8 {
                for shape in [0u16, 1] {
                    for ffv in 0..2u64 {
                        p.push((Box::new(cedt_hest::Hest), vec![], Op { k, shape, fill: Fill::b(0).with(0, ffv) }));
                    }
                }
            }
            p
        };
        let c = Ctor::new(2, 0, 2);
        for (t, pre, op) in progs {
            let mut ops = pre.clone();
            ops.push(op);
            tuples += 1;
            ctx.tr(1);
            let mut img = vec![];
            let r = catch(|| t.run(&Ctor { p: if t.name() == "madt" { 1 } else { 0 }, ..c }, &ops, &mut |_k, live, _h| img = ser(live)));
            let cc = Ctor { p: if t.name() == "madt" { 1 } else { 0 }, ..c };
            let want = t.reference(&cc, &ops).image;
            if r.is_err() || !crate::tables::eq_judged(t.as_ref(), &ops, &img, &want) {
                ctx.violation_sized(
                    &format!("opt:{}:{}", t.name(), t.kinds()[op.k as usize]),
                    ops.len() as u64,
                    || format!("{} {}: image differs from the specification at {:?}", t.name(), t.kinds()[op.k as usize], first_diff(&img, &want)),
                    || crate::seq::replay_json(t.as_ref(), &cc, &ops),
                );
            }
            ctx.distinct(fnv(&img));
        }
    }
    ctx.st(tuples);
    ctx.engine("E3.constructor-booleans", json!({"programs": tuples, "covers": "MADT LAPIC/RINTC enable states, RIMT wire/IOMMU/mapping/root-complex booleans, HEST firmware-first and GLOBAL"}));

    // option arguments (the value principle): every option-bearing entry of every table, every shape (the shapes say
    // which options are invoked), every numeric argument through util::value_set crossed with the enumerated / boolean
    // arguments: a flag that depends on the *value* handed to a neighbouring option is seen here
    {
        use crate::tables::Table;
        let quick = ctx.quick();
        let n = AtomicU64::new(0);
        let mut per = vec![];
        for t in crate::tables::all() {
            let t: &dyn Table = t.as_ref();
            let c = t.ctors(0)[0];
            let mut nprogs = 0u64;
            crate::props::tseq::value_programs(t, quick, true, &mut |progs| {
            nprogs += progs.len() as u64;
            progs.par_iter().for_each(|(name, ops)| {
                n.fetch_add(1, Ordering::Relaxed);
                let mut img = vec![];
                crate::seq::refused_reset();
                let r = catch(|| t.run(&c, ops, &mut |k, live, _h| if k == ops.len() { img = ser(live) }));
                // documented refusals offered on purpose are skipped by the driver: the reference is fed what was accepted
                let rf = crate::seq::refused_now();
                let eff: Vec<Op> = ops.iter().enumerate().filter(|(i, _)| !rf.contains(i)).map(|(_, o)| *o).collect();
                let want = t.reference(&c, &eff).image;
                // an image that is exactly the reference with an open known finding applied (a Length matter recorded under
                // C02-C04) is not a flag matter
                if r.is_ok() && crate::props::tseq::quirk_of(t, &c, &eff, &img).is_some() {
                    return;
                }
                if r.is_err() || !crate::tables::eq_judged(t, &eff, &img, &want) {
                    let kind = ops.last().map(|o| t.kinds()[o.k as usize]).unwrap_or("new");
                    ctx.violation_sized(
                        &format!("opt:{}:{}:value", t.name(), kind),
                        ops.len() as u64,
                        || format!("{} {}: image differs from the specification at {:?}{}", t.name(), name, first_diff(&img, &want), r.as_ref().err().map(|m| format!(" (panicked: {})", m)).unwrap_or_default()),
                        || crate::seq::replay_json(t, &c, ops),
                    );
                }
            });
            });
            per.push(json!({"table": t.name(), "programs": nprogs}));
        }
        ctx.st(n.load(Ordering::Relaxed));
        ctx.tr(n.load(Ordering::Relaxed));
        ctx.engine("E3.option-argument-values", json!({"programs": n.load(Ordering::Relaxed), "tables": per}));
    }

    // FADT: (a) flag closure, (b) mode closure
    let mut fa = vec![];
    if ctx.quick() {
        for (i, w) in [(0u16..9).collect::<Vec<u16>>(), (8u16..17).collect(), (16u16..25).collect()].into_iter().enumerate() {
            let (u, t) = fadt_flag_closure(ctx, w.clone(), &format!("window{}", i));
            ctx.st(u);
            ctx.tr(t);
            fa.push(json!({"flags": w, "unique_states": u, "transitions": t}));
        }
        // all sequences of length <= 2 over the full 25-flag alphabet
        let c = Ctor::new(2, 0, 2);
        let pairs: Vec<(u16, u16)> = (0..25u16).flat_map(|a| (0..25u16).map(move |b| (a, b))).filter(|(a, b)| !((*a == 23 && *b == 24) || (*a == 24 && *b == 23))).collect();
        let n = AtomicU64::new(0);
        pairs.par_iter().for_each(|(a, b)| {
            let ops = vec![Op::new(fixed::F_FLAG, *a, 2), Op::new(fixed::F_FLAG, *b, 2)];
            let (img, want) = (fadt_image(&c, &ops), fixed::fadt_reference(&c, &ops));
            n.fetch_add(1, Ordering::Relaxed);
            if !crate::tables::eq_judged(&fixed::Fadt, &ops, &img, &want) {
                ctx.violation_sized(&format!("opt:fadt:flag:{}", b), 2, || format!("FADT flag #{} then #{}: flags {:#x} want {:#x}", a, b, rd32(&img, 112), rd32(&want, 112)), || crate::seq::replay_json(&fixed::Fadt, &c, &ops));
            }
        });
        ctx.tr(n.load(Ordering::Relaxed));
        ctx.st(n.load(Ordering::Relaxed));
        fa.push(json!({"all_pairs_over_25_flags": n.load(Ordering::Relaxed)}));
    } else {
        let (u, t) = fadt_flag_closure(ctx, (0u16..25).collect(), "all-25");
        ctx.st(u);
        ctx.tr(t);
        fa.push(json!({"flags": "all 25", "unique_states": u, "transitions": t, "expected_states": 3u64 << 22}));
    }
    let (u, t) = fadt_mode_closure(ctx);
    ctx.st(u);
    ctx.tr(t);
    fa.push(json!({"mode_closure": {"unique_states": u, "transitions": t}}));
    ctx.engine("E1.fadt", json!(fa));
    ctx.force_sample(json!({"structure": "srat.MemoryAffinity", "sequence": ["nonvolatile", "enabled", "nonvolatile"], "expected_flags": 5}));
    ctx.force_sample(json!({"structure": "cedt.CxlFixedMemory", "sequence": ["cxl_type_3_memory"], "expected_restrictions": 2}));
    ctx.set("bound", json!("closures: every reachable option state of every listed structure, all orders and repetitions"));
}

pub const RULE: &str = "one stateright closure per option-bearing structure (all subsets, orders, repetitions reach a fixed point because options are idempotent), every transition executed on the real builder and compared with the whole-structure reference; all constructor boolean tuples; FADT: flag closure (quick: three 9-flag windows + all pairs; thorough: all 25 flags = 3*2^22 states (the two values of the 2-bit persistent-caches field are alternatives)) and mode closure. distinct = distinct structure images";
pub const ASSUME: &[&str] = &["repeated enum-valued setters OR together (the property's semantics is 'union')", "argument values of valued options range over util::value_set (whole domain up to 8 bits; thorough: up to 16), not all 2^32 / 2^64"];
