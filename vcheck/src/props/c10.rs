//! C10 — resource descriptors and templates: framing and values.
use crate::aml::parse::{parse_all, N};
use crate::aml::res::{walk, AsKind, R};
use crate::aml::tree::{real, T};
use crate::ev::Ctx;
use crate::util::{catch, fnv, hex, splitmix};
use rayon::prelude::*;
use serde_json::json;
use std::sync::atomic::{AtomicU64, Ordering};

fn alpha(bits: u32, seed: u64) -> Vec<u64> {
    let mask = if bits == 64 { u64::MAX } else { (1u64 << bits) - 1 };
    let mut v = vec![0u64, 1, 2, mask, mask - 1, mask >> 1, (mask >> 1) + 1, 0x0807_0605_0403_0201 & mask, 0xf1e2_d3c4_b5a6_9788 & mask];
    for i in 0..bits {
        v.push(1u64 << i);
    }
    v.push(splitmix(seed ^ bits as u64) & mask);
    v.push(splitmix(seed.wrapping_add(77) ^ bits as u64) & mask);
    v.sort();
    v.dedup();
    v
}

fn check_desc(ctx: &Ctx, r: &R) {
    ctx.tr(1);
    let kind = r.kind();
    let got = match catch(|| r.real()) {
        Ok(b) => b,
        Err(m) => {
            ctx.violation_sized(&format!("res:{}:panic", kind), 0, || format!("{:?} panicked: {}", r, m), || json!({"family":"res","desc":format!("{:?}", r),"r":serde_json::to_value(r).unwrap_or_default()}));
            return;
        }
    };
    ctx.distinct(fnv(&got));
    let want = r.reference();
    // framing first: tag, length field == payload that follows
    let mut framed = got.clone();
    framed.extend([0x79, 0]);
    match walk(&framed) {
        Ok(items) if items.len() == 2 && items[0].total == got.len() => {}
        other => {
            ctx.violation_sized(
                &format!("res:{}:frame", kind),
                0,
                || format!("{:?} emits {} ({} bytes) whose own length field does not frame it: {:?}", r, hex(&got), got.len(), other.map(|i| i.iter().map(|x| (x.off, x.tag, x.payload)).collect::<Vec<_>>())),
                || json!({"family":"res","desc":format!("{:?}", r),"r":serde_json::to_value(r).unwrap_or_default()}),
            );
            return;
        }
    }
    if got != want {
        ctx.violation_sized(
            &format!("res:{}:value", kind),
            0,
            || format!("{:?} emits {} ; specification encoding is {}", r, hex(&got), hex(&want)),
            || json!({"family":"res","desc":format!("{:?}", r),"r":serde_json::to_value(r).unwrap_or_default()}),
        );
    }
}

fn check_template(ctx: &Ctx, rs: &[R], why: &'static str) {
    ctx.tr(1);
    let t = T::ResTemplate(rs.to_vec());
    let bytes = match catch(|| real(&t)) {
        Ok(b) => b,
        Err(m) => {
            ctx.violation_sized("res:template:panic", rs.len() as u64, || format!("template of {} descriptors panicked: {}", rs.len(), m), || json!({"family":"res-template","descs":format!("{:?}", &rs[..rs.len().min(4)]),"n":rs.len()}));
            return;
        }
    };
    ctx.distinct(fnv(&bytes));
    let fail = |what: String| {
        ctx.violation_sized(&format!("res:template:{}", why), rs.len() as u64, || format!("template [{}] of {} descriptors: {} ; bytes {}", why, rs.len(), what, hex(&bytes[..bytes.len().min(40)])), || json!({"family":"res-template","descs":format!("{:?}", &rs[..rs.len().min(4)]),"n":rs.len()}));
    };
    let n = match parse_all(&bytes, &[]) {
        Ok(v) if v.len() == 1 => v.into_iter().next().unwrap(),
        Ok(v) => return fail(format!("parsed into {} objects", v.len())),
        Err(e) => return fail(format!("does not parse as a Buffer: {}", e)),
    };
    let (size, data) = match n {
        N::Buffer(s, d) => (s, d),
        other => return fail(format!("not a Buffer: {:?}", other)),
    };
    if *size != N::Int(data.len() as u64) {
        return fail(format!("declared buffer size {:?} but the payload has {} bytes", size, data.len()));
    }
    let items = match walk(&data) {
        Ok(i) => i,
        Err(e) => return fail(format!("walk by the descriptors' own lengths fails: {}", e)),
    };
    if items.len() != rs.len() + 1 {
        return fail(format!("walk finds {} items, {} descriptors + end tag were given", items.len(), rs.len()));
    }
    let mut off = 0;
    for (i, r) in rs.iter().enumerate() {
        let want = r.reference();
        if items[i].off != off || items[i].total != want.len() || data[off..off + want.len()] != want[..] {
            return fail(format!("descriptor #{} ({}) at {}: walk item {:?}, specification encoding {}", i, r.kind(), off, items[i], hex(&want)));
        }
        off += want.len();
    }
    if data[off..] != [0x79, 0x00] {
        return fail(format!("payload does not end with 79 00 but {}", hex(&data[off..])));
    }
}

pub fn one_of_each() -> Vec<R> {
    vec![
        R::Mem32Fixed(true, 0xfed0_0000, 0x1000),
        R::Io(0x3f8, 0x3ff, 1, 8),
        R::Interrupt(true, true, false, true, 0x1234_5678),
        R::Register(1, 32, 0, 3, 0xcf8),
        R::As16(AsKind::Bus, 0, 0xff, None),
        R::As16(AsKind::Io, 0x1000, 0x1fff, Some(0x8000)),
        R::As32(AsKind::Memory(0, true), 0x8000_0000, 0x8fff_ffff, None),
        R::As32(AsKind::Io, 0, 0xffff, Some(0x10)),
        R::As64(AsKind::Memory(3, false), 0x1_0000_0000, 0x1_ffff_ffff, Some(0x4000_0000_0000)),
        R::As64(AsKind::Io, 2, 3, None),
        R::As16(AsKind::Memory(2, true), 0x100, 0x1ff, None),
    ]
}

/// descriptors whose own bytes coincide with the framing constants of the enclosing template:
/// each ends in `79 00` (the end tag + checksum), so a template must not mistake payload for terminator
pub fn lookalikes() -> Vec<R> {
    vec![
        R::Mem32Fixed(true, 0x1000, 0x0079_0000),
        R::Io(0x10, 0x20, 0x79, 0),
        R::Interrupt(true, false, true, false, 0x0079_0000),
        R::Register(0, 8, 0, 1, 0x0079_0000_0000_0000),
        R::As16(AsKind::Io, 0, 0x78, None),
        R::As16(AsKind::Bus, 0x100, 0x178, None),
        R::As32(AsKind::Memory(1, true), 0, 0x0078_ffff, Some(7)),
        R::As64(AsKind::Memory(0, false), 1, 0x0079_0000_0000_0000, None),
        // and ones that merely contain 79 00 inside, or start with it
        R::Io(0x0079, 0x0079, 1, 1),
        R::Interrupt(false, false, false, false, 0x0000_0079),
    ]
}

pub fn run(ctx: &'static Ctx) {
    let seed = ctx.seed;
    let (a8, a16, a32, a64) = (alpha(8, seed), alpha(16, seed), alpha(32, seed), alpha(64, seed));
    let mut ds: Vec<R> = vec![];
    // Memory32Fixed: rw x base x length (full product of the 32-bit alphabets)
    for rw in [false, true] {
        for b in &a32 {
            for l in &a32 {
                ds.push(R::Mem32Fixed(rw, *b as u32, *l as u32));
            }
        }
    }
    // IO: min x max pairs, alignment, length
    for mi in &a16 {
        for ma in &a16 {
            ds.push(R::Io(*mi as u16, *ma as u16, 1, 8));
        }
    }
    for al in &a8 {
        for le in &a8 {
            ds.push(R::Io(0x3f8, 0x3ff, *al as u8, *le as u8));
        }
    }
    // Interrupt: all 16 flag combinations x number alphabet
    for fl in 0..16u8 {
        for n in &a32 {
            ds.push(R::Interrupt(fl & 1 != 0, fl & 2 != 0, fl & 4 != 0, fl & 8 != 0, *n as u32));
        }
    }
    // Register: all 13 address spaces x 5 access sizes x width/offset/address alphabets (one field deviating at a time)
    for sp in 0..13u8 {
        for ac in 0..5u8 {
            ds.push(R::Register(sp, 0x20, 0x08, ac, 0x0102_0304_0506_0708));
        }
    }
    for w in &a8 {
        ds.push(R::Register(1, *w as u8, 0, 3, 0xcf8));
        ds.push(R::Register(0, 8, *w as u8, 1, 0xcf8));
    }
    for a in &a64 {
        ds.push(R::Register(0, 64, 0, 4, *a));
    }
    // address spaces: every (min <= max) pair with a representable size, every translation, every type/flag variant
    let mut kinds = vec![AsKind::Io, AsKind::Bus];
    for c in 0..4u8 {
        for rw in [false, true] {
            kinds.push(AsKind::Memory(c, rw));
        }
    }
    for k in &kinds {
        for mi in &a16 {
            for ma in &a16 {
                if mi <= ma && !(*mi == 0 && *ma == 0xffff) {
                    ds.push(R::As16(*k, *mi as u16, *ma as u16, None));
                }
            }
        }
        for tr in &a16 {
            ds.push(R::As16(*k, 0x1000, 0x1fff, if *k == AsKind::Bus { None } else { Some(*tr as u16) }));
        }
    }
    for k in &kinds {
        for mi in &a32 {
            for ma in &a32 {
                if mi <= ma && !(*mi == 0 && *ma == 0xffff_ffff) {
                    ds.push(R::As32(*k, *mi as u32, *ma as u32, if *k == AsKind::Bus { None } else { Some(0x1122_3344) }));
                }
            }
        }
        for tr in &a32 {
            ds.push(R::As32(*k, 0x1000_0000, 0x1fff_ffff, if *k == AsKind::Bus { None } else { Some(*tr as u32) }));
        }
    }
    let k64: Vec<AsKind> = if ctx.quick() { vec![AsKind::Io, AsKind::Bus, AsKind::Memory(1, true), AsKind::Memory(2, false)] } else { kinds.clone() };
    for k in &k64 {
        for mi in &a64 {
            for ma in &a64 {
                if mi <= ma && !(*mi == 0 && *ma == u64::MAX) {
                    ds.push(R::As64(*k, *mi, *ma, None));
                }
            }
        }
        for tr in &a64 {
            ds.push(R::As64(*k, 0x1_0000_0000, 0x1_ffff_ffff, if *k == AsKind::Bus { None } else { Some(*tr) }));
        }
    }
    let nd = ds.len();
    ds.par_iter().for_each(|r| check_desc(ctx, r));
    ctx.engine("E4.descriptors", json!({"programs": nd, "alphabet_sizes": {"u8": a8.len(), "u16": a16.len(), "u32": a32.len(), "u64": a64.len()}}));

    // ---- value sweeps (the value principle): products of whole byte domains and util::value_set, compared directly with
    // the specification encoding (a difference is then reported through the ordinary descriptor check)
    {
        let quick = ctx.quick();
        let lean = |r: R| {
            match catch(|| r.real()) {
                Ok(b) if b == r.reference() => {}
                _ => check_desc(ctx, &r),
            }
        };
        let nv = AtomicU64::new(0);
        // Register: 13 spaces x every width x offsets (thorough: every offset) x every access size x 3 addresses
        let offs: Vec<u8> = if quick { vec![0, 1, 7, 8, 16, 32, 0xff] } else { (0..=255).collect() };
        (0..13u8).into_par_iter().for_each(|sp| {
            for w in 0..=255u8 {
                for o in &offs {
                    for ac in 0..5u8 {
                        for ad in [0x1014u64, 0, 0x0102_0304_0506_0708] {
                            lean(R::Register(sp, w, *o, ac, ad));
                        }
                    }
                }
            }
            nv.fetch_add(256 * offs.len() as u64 * 15, Ordering::Relaxed);
        });
        // IO: every alignment x every length; every minimum with max = min, min + 7
        (0..=255u8).into_par_iter().for_each(|al| {
            for le in 0..=255u8 {
                lean(R::Io(0x3f8, 0x3ff, al, le));
                lean(R::Io(0, 0xffff, al, le));
            }
            nv.fetch_add(512, Ordering::Relaxed);
        });
        let v16 = crate::util::value_set(16, 0x0201, quick);
        let v32 = crate::util::value_set(32, 0x0403_0201, quick);
        let v64 = crate::util::value_set(64, 0x0807_0605_0403_0201, quick);
        v16.par_iter().for_each(|m| {
            let m = *m as u16;
            lean(R::Io(m, m, 1, 1));
            lean(R::Io(m, m.saturating_add(7), 8, 8));
            lean(R::Io(0, m, 1, 0x10));
            nv.fetch_add(3, Ordering::Relaxed);
        });
        // Memory32Fixed and Interrupt: each value against a few partners, both ways round
        v32.par_iter().for_each(|x| {
            let x = *x as u32;
            for rw in [false, true] {
                for y in [0u32, 1, 0x1000, x, x.wrapping_add(1), !x, 0xffff_ffff] {
                    lean(R::Mem32Fixed(rw, x, y));
                    lean(R::Mem32Fixed(rw, y, x));
                }
            }
            for fl in 0..16u8 {
                lean(R::Interrupt(fl & 1 != 0, fl & 2 != 0, fl & 4 != 0, fl & 8 != 0, x));
            }
            nv.fetch_add(28 + 16, Ordering::Relaxed);
        });
        // address spaces: every minimum of the value set with maxima {min, min+1, min|0xff, min|0xfff, top-1}, every kind;
        // every translation of the value set
        let mut kinds = vec![AsKind::Io, AsKind::Bus];
        for c in 0..4u8 {
            for rw in [false, true] {
                kinds.push(AsKind::Memory(c, rw));
            }
        }
        for k in &kinds {
            let k = *k;
            let tr = |v: u64| if k == AsKind::Bus { None } else { Some(v) };
            v16.par_iter().for_each(|m| {
                let m = *m as u16;
                for ma in [m, m.saturating_add(1), m | 0xff, m | 0xfff, 0xfffe] {
                    if m <= ma && !(m == 0 && ma == 0xffff) {
                        lean(R::As16(k, m, ma, None));
                        lean(R::As16(k, m, ma, tr(m as u64).map(|v| v as u16)));
                    }
                }
                lean(R::As16(k, 0x1000, 0x1fff, tr(m as u64).map(|v| v as u16)));
                nv.fetch_add(11, Ordering::Relaxed);
            });
            v32.par_iter().for_each(|m| {
                let m = *m as u32;
                for ma in [m, m.saturating_add(1), m | 0xff, m | 0xfff, m | 0xffff, 0xffff_fffe] {
                    if m <= ma && !(m == 0 && ma == 0xffff_ffff) {
                        lean(R::As32(k, m, ma, None));
                        lean(R::As32(k, m, ma, tr(m as u64).map(|v| v as u32)));
                    }
                }
                lean(R::As32(k, 0x1000_0000, 0x1fff_ffff, tr(m as u64).map(|v| v as u32)));
                nv.fetch_add(13, Ordering::Relaxed);
            });
            v64.par_iter().for_each(|m| {
                let m = *m;
                for ma in [m, m.saturating_add(1), m | 0xff, m | 0xfff, m | 0xffff_ffff, u64::MAX - 1] {
                    if m <= ma && !(m == 0 && ma == u64::MAX) {
                        lean(R::As64(k, m, ma, None));
                        lean(R::As64(k, m, ma, tr(m)));
                    }
                }
                lean(R::As64(k, 0x1_0000_0000, 0x1_ffff_ffff, tr(m)));
                nv.fetch_add(13, Ordering::Relaxed);
            });
        }
        let n = nv.load(Ordering::Relaxed);
        ctx.st(n);
        ctx.tr(n);
        ctx.engine("E3.descriptor-values", json!({"descriptors": n, "register": format!("13 spaces x 256 widths x {} offsets x 5 access sizes x 3 addresses", offs.len()), "io": "256 alignments x 256 lengths x 2 ranges; value set of minima", "value_set_sizes": {"u16": v16.len(), "u32": v32.len(), "u64": v64.len()}, "address_spaces": "10 kinds x minima of the value set x 5-6 maxima, with and without translation"}));
    }

    // ---- templates: all sequences of <= 3 descriptors over one instance of each of the 11 kinds
    let base = one_of_each();
    let mut seqs: Vec<Vec<R>> = vec![vec![]];
    for a in &base {
        seqs.push(vec![a.clone()]);
        for b in &base {
            seqs.push(vec![a.clone(), b.clone()]);
            for c in &base {
                seqs.push(vec![a.clone(), b.clone(), c.clone()]);
            }
        }
    }
    let ns = seqs.len();
    seqs.par_iter().for_each(|s| check_template(ctx, s, "sequences<=3"));
    // framing look-alikes: alone, and as first / middle / last child next to ordinary descriptors
    let la = lookalikes();
    let mut lseq: Vec<Vec<R>> = vec![];
    for x in &la {
        lseq.push(vec![x.clone()]);
        lseq.push(vec![x.clone(), x.clone()]);
        for a in &base {
            lseq.push(vec![x.clone(), a.clone()]);
            lseq.push(vec![a.clone(), x.clone()]);
            for b in base.iter().step_by(3) {
                lseq.push(vec![a.clone(), x.clone(), b.clone()]);
                lseq.push(vec![a.clone(), b.clone(), x.clone()]);
            }
        }
        for y in &la {
            lseq.push(vec![x.clone(), y.clone()]);
        }
    }
    let nl = lseq.len();
    lseq.par_iter().for_each(|q| check_template(ctx, q, "framing-lookalikes"));
    for x in &la {
        check_desc(ctx, x);
    }
    ctx.st(nl as u64);
    ctx.engine("E4.template-lookalikes", json!({"templates": nl, "what": "descriptors whose bytes end in / contain 79 00 placed alone, first, middle and last"}));
    // k identical descriptors for every k: payload sweeps 0..4200 and the size integer crosses 255/256 and 65535/65536
    let nk = AtomicU64::new(0);
    base.par_iter().for_each(|r| {
        let one = r.reference().len();
        let kmax = 4200 / one + 1;
        for k in 0..=kmax {
            check_template(ctx, &vec![r.clone(); k], "k-identical");
            nk.fetch_add(1, Ordering::Relaxed);
        }
        if !ctx.quick() {
            for k in [65_530 / one, 65_536 / one + 1, (1 << 20) / one - 1, (1 << 20) / one + 1] {
                check_template(ctx, &vec![r.clone(); k], "k-identical");
                nk.fetch_add(1, Ordering::Relaxed);
            }
        }
    });
    // mixed sizes so that every payload length 0..=300 occurs (IO is 8 bytes, Memory32Fixed 12, word space 16, ...)
    for n8 in 0..30 {
        for n12 in 0..3 {
            let mut v = vec![R::Io(1, 2, 3, 4); n8];
            v.extend(vec![R::Mem32Fixed(false, 5, 6); n12]);
            v.push(R::As16(AsKind::Bus, 0, 1, None));
            check_template(ctx, &v, "mixed");
            nk.fetch_add(1, Ordering::Relaxed);
        }
    }
    // every payload size: 8-byte (IO) and 9-byte (Extended Interrupt) descriptors combine to any total >= 56, and to many below
    let mut sizes: Vec<usize> = (2..=1200).collect();
    for c in [4096usize, 65_536, 1 << 20] {
        if c < (1 << 20) || !ctx.quick() {
            for d in 0..=24 {
                sizes.push(c - 12 + d);
            }
        }
    }
    let nsz = AtomicU64::new(0);
    sizes.par_iter().for_each(|p| {
        let body = p - 2;
        // smallest b with (body - 9b) divisible by 8
        if let Some(b) = (0..8).find(|b| body >= 9 * b && (body - 9 * b) % 8 == 0) {
            let a = (body - 9 * b) / 8;
            let mut v = vec![R::Io(0x10, 0x20, 1, 2); a];
            // spread the interrupts through the template
            for i in 0..b {
                v.insert((i * 3).min(v.len()), R::Interrupt(i % 2 == 0, true, false, i % 3 == 0, 0x100 + i as u32));
            }
            check_template(ctx, &v, "payload-size-sweep");
            nsz.fetch_add(1, Ordering::Relaxed);
        }
    });
    ctx.st(nsz.load(Ordering::Relaxed));
    ctx.engine("E4.template-payload-sizes", json!({"templates": nsz.load(Ordering::Relaxed), "payload_sizes": "every size 2..=1200 reachable with 8- and 9-byte descriptors (all >= 58), and +-12 around 4096, 65536 (2^20 thorough)"}));
    ctx.engine("E4.templates", json!({"sequences_le3": ns, "k_identical_and_mixed": nk.load(Ordering::Relaxed)}));
    ctx.st(nd as u64 + ns as u64 + nk.load(Ordering::Relaxed));
    ctx.force_sample(json!({"desc": "QWordMemory(cacheable, rw, 0x1_0000_0000..0x1_ffff_ffff, translation 0)", "expected": "8a 2b00 00 0c 03 <gran 0> <min> <max> <tra> <len 0x1_0000_0000>"}));
    ctx.force_sample(json!({"template": ["Memory32Fixed", "IO", "Interrupt"], "expected_payload_len": 12 + 8 + 9 + 2}));
    ctx.force_sample(json!({"desc": format!("{:?}", ds[ds.len() / 2])}));
}

pub const RULE: &str = "every descriptor kind over per-field alphabets (0,1,2,max,max-1,mid,mid+1,2 distinct patterns, all single bits, 2 seed values): full products for 2-field kinds, all min<=max pairs with representable size for address spaces, all 16 interrupt flag sets, 13 spaces x 5 access sizes; templates: all sequences of <=3 over 11 kinds, k identical for every k up to payload 4200. distinct = distinct byte streams";
pub const ASSUME: &[&str] = &["values range over the stated alphabets and util::value_set (Register: full product of widths x offsets x access sizes x spaces), not the full 2^32 / 2^64 per field", "min <= max and max-min+1 representable (other inputs belong to C18)"];
