//! Run context: counters, evidence file, violation/known-finding reporting.
use serde_json::{json, Map, Value};
use std::collections::{BTreeMap, HashSet};
use std::sync::atomic::{AtomicU64, Ordering};
use std::sync::Mutex;
use std::time::Instant;

pub const VERIF_DIR: &str = "/verif";

#[derive(Clone, Copy, PartialEq, Eq, Debug)]
pub enum Tier {
    Quick,
    Thorough,
}

pub struct Known {
    pub property: String,
    pub key: String,
    pub status: String, // "open" | "fixed"
    pub what: String,
}

pub struct Ctx {
    pub prop: String,
    pub tier: Tier,
    pub seed: u64,
    pub start: Instant,
    pub states: AtomicU64,
    pub transitions: AtomicU64,
    pub evaluations: AtomicU64,
    shards: Vec<Mutex<HashSet<u64>>>,
    samples: Mutex<Vec<Value>>,
    sample_tick: AtomicU64,
    extra: Mutex<Map<String, Value>>,
    engines: Mutex<BTreeMap<String, Value>>,
    witnesses: Mutex<BTreeMap<String, u64>>,
    violations: Mutex<BTreeMap<String, Value>>, // key -> first witness
    known_hits: Mutex<BTreeMap<String, u64>>,
    known: Vec<Known>,
    pub caps: Mutex<Vec<String>>,
    pub exhaustive: std::sync::atomic::AtomicBool,
}

impl Ctx {
    pub fn new(prop: &str, tier: Tier) -> Self {
        let seed = std::env::var("VERIF_SEED")
            .ok()
            .and_then(|s| s.parse::<u64>().ok())
            .unwrap_or(0);
        let mut known = Vec::new();
        if let Ok(s) = std::fs::read_to_string(format!("{}/known_findings.json", VERIF_DIR)) {
            if let Ok(v) = serde_json::from_str::<Value>(&s) {
                if let Some(a) = v.get("findings").and_then(|x| x.as_array()) {
                    for f in a {
                        known.push(Known {
                            property: f["property"].as_str().unwrap_or("").to_string(),
                            key: f["key"].as_str().unwrap_or("").to_string(),
                            status: f["status"].as_str().unwrap_or("").to_string(),
                            what: f["what"].as_str().unwrap_or("").to_string(),
                        });
                    }
                }
            } else {
                eprintln!("machinery: known_findings.json does not parse");
                std::process::exit(2);
            }
        }
        Ctx {
            prop: prop.to_string(),
            tier,
            seed,
            start: Instant::now(),
            states: AtomicU64::new(0),
            transitions: AtomicU64::new(0),
            evaluations: AtomicU64::new(0),
            shards: (0..64).map(|_| Mutex::new(HashSet::new())).collect(),
            samples: Mutex::new(Vec::new()),
            sample_tick: AtomicU64::new(0),
            extra: Mutex::new(Map::new()),
            engines: Mutex::new(BTreeMap::new()),
            witnesses: Mutex::new(BTreeMap::new()),
            violations: Mutex::new(BTreeMap::new()),
            known_hits: Mutex::new(BTreeMap::new()),
            known,
            caps: Mutex::new(Vec::new()),
            exhaustive: std::sync::atomic::AtomicBool::new(true),
        }
    }
    pub fn quick(&self) -> bool {
        self.tier == Tier::Quick
    }
    pub fn st(&self, n: u64) {
        self.states.fetch_add(n, Ordering::Relaxed);
    }
    pub fn tr(&self, n: u64) {
        self.transitions.fetch_add(n, Ordering::Relaxed);
    }
    pub fn evals(&self, n: u64) {
        self.evaluations.fetch_add(n, Ordering::Relaxed);
    }
    /// Record one distinct non-trivial case by a 64-bit digest.
    pub fn distinct(&self, h: u64) {
        let s = (h >> 58) as usize & 63;
        self.shards[s].lock().unwrap().insert(h);
    }
    pub fn distinct_count(&self) -> u64 {
        self.shards.iter().map(|s| s.lock().unwrap().len() as u64).sum()
    }
    /// Keep a thin stream of samples: the first few and then exponentially rarer ones.
    pub fn sample(&self, f: impl FnOnce() -> Value) {
        let t = self.sample_tick.fetch_add(1, Ordering::Relaxed);
        if t < 4 || (t.is_power_of_two() && t >= 64) {
            let mut s = self.samples.lock().unwrap();
            if s.len() < 40 {
                s.push(f());
            }
        }
    }
    pub fn force_sample(&self, v: Value) {
        let mut s = self.samples.lock().unwrap();
        if s.len() < 60 {
            s.push(v);
        }
    }
    pub fn set(&self, k: &str, v: Value) {
        self.extra.lock().unwrap().insert(k.to_string(), v);
    }
    pub fn engine(&self, name: &str, v: Value) {
        self.engines.lock().unwrap().insert(name.to_string(), v);
    }
    /// non-vacuity witness ("sometimes" property) hit
    pub fn witness(&self, name: &str) {
        *self.witnesses.lock().unwrap().entry(name.to_string()).or_insert(0) += 1;
    }
    pub fn witness_count(&self, name: &str) -> u64 {
        *self.witnesses.lock().unwrap().get(name).unwrap_or(&0)
    }
    pub fn cap(&self, what: String) {
        self.exhaustive.store(false, Ordering::Relaxed);
        self.caps.lock().unwrap().push(what);
    }

    /// Report a property violation identified by `key`. Returns true when it is a listed open
    /// known finding (the caller may continue as if it held), false for a new violation.
    pub fn violation(&self, key: &str, what: impl FnOnce() -> String, replay: impl FnOnce() -> Value) -> bool {
        self.violation_sized(key, u64::MAX, what, replay)
    }
    /// as `violation`, keeping per key the witness with the smallest `size` (shortest counterexample)
    pub fn violation_sized(&self, key: &str, size: u64, what: impl FnOnce() -> String, replay: impl FnOnce() -> Value) -> bool {
        for k in &self.known {
            if k.property == self.prop && k.key == key && k.status == "open" {
                *self.known_hits.lock().unwrap().entry(key.to_string()).or_insert(0) += 1;
                return true;
            }
        }
        // fast path (a broken tree can make hundreds of millions of inputs violate): this thread already knows a witness for the
        // key that is at least as short - nothing to record, no lock taken
        thread_local! {
            static BEST: std::cell::RefCell<std::collections::HashMap<String, u64>> = std::cell::RefCell::new(std::collections::HashMap::new());
        }
        let skip = BEST.with(|b| b.borrow().get(key).map(|best| size >= *best).unwrap_or(false));
        if skip {
            return false;
        }
        let mut v = self.violations.lock().unwrap();
        let better = match v.get(key) {
            Some(old) => size < old["size"].as_u64().unwrap_or(u64::MAX),
            None => v.len() < 50,
        };
        if better {
            v.insert(key.to_string(), json!({"what": what(), "replay": replay(), "size": size}));
        }
        let now = v.get(key).and_then(|o| o["size"].as_u64()).unwrap_or(0);
        drop(v);
        // (when the table of 50 keys is full and this key is not in it, remember size 0: nothing for this key will be kept)
        BEST.with(|b| {
            b.borrow_mut().insert(key.to_string(), now);
        });
        false
    }
    pub fn n_violations(&self) -> usize {
        self.violations.lock().unwrap().len()
    }
    pub fn failed(&self) -> bool {
        self.n_violations() > 0
    }

    /// In the second-profile leg (env VCHECK_LEG): print a JSON summary for the parent process and exit.
    fn finish_leg(&self) -> i32 {
        let viol = self.violations.lock().unwrap();
        let hits = self.known_hits.lock().unwrap();
        let out = json!({
            "states": self.states.load(Ordering::Relaxed),
            "transitions": self.transitions.load(Ordering::Relaxed),
            "distinct": self.distinct_count(),
            "wall_s": self.start.elapsed().as_secs_f64(),
            "violations": viol.iter().map(|(k, v)| json!({"key": k, "what": v["what"], "replay": v["replay"], "size": v["size"]})).collect::<Vec<_>>(),
            "known": hits.iter().map(|(k, n)| json!({"key": k, "occurrences": n})).collect::<Vec<_>>(),
            "caps": *self.caps.lock().unwrap(),
        });
        println!("{}", out);
        0
    }

    /// Run the same check in the overflow-checked build of the harness (profile `checked`) and merge what it finds.
    fn run_checked_leg(&self) {
        if self.prop == "C18" || std::env::var("VCHECK_NO_LEG").is_ok() {
            return; // C18 drives both builds itself
        }
        let tier = if self.quick() || matches!(self.prop.as_str(), "C07" | "C08" | "C16") { "quick" } else { "thorough" };
        let out = std::process::Command::new(format!("{}/target/checked/vcheck", VERIF_DIR)).args([self.prop.as_str(), tier]).env("VCHECK_LEG", "1").output();
        let o = match out {
            Ok(o) if o.status.success() => o,
            Ok(o) => {
                eprintln!("machinery: checked-profile leg exited with {:?}: {}", o.status.code(), String::from_utf8_lossy(&o.stderr));
                std::process::exit(2);
            }
            Err(e) => {
                eprintln!("machinery: cannot run the checked-profile harness: {}", e);
                std::process::exit(2);
            }
        };
        let text = String::from_utf8_lossy(&o.stdout);
        let line = text.lines().rev().find(|l| l.starts_with('{')).unwrap_or("{}");
        let v: Value = match serde_json::from_str(line) {
            Ok(v) => v,
            Err(e) => {
                eprintln!("machinery: cannot parse the checked-profile leg output: {}", e);
                std::process::exit(2);
            }
        };
        let mut n = 0;
        if let Some(a) = v["violations"].as_array() {
            for x in a {
                n += 1;
                let key = x["key"].as_str().unwrap_or("?").to_string();
                let what = format!("[overflow-checked build] {}", x["what"].as_str().unwrap_or(""));
                let rep = json!({"build": "checked", "replay": x["replay"]});
                self.violation_sized(&key, x["size"].as_u64().unwrap_or(u64::MAX).saturating_add(1), || what, || rep);
            }
        }
        if let Some(a) = v["known"].as_array() {
            for x in a {
                *self.known_hits.lock().unwrap().entry(x["key"].as_str().unwrap_or("?").to_string()).or_insert(0) += x["occurrences"].as_u64().unwrap_or(0);
            }
        }
        for c in v["caps"].as_array().cloned().unwrap_or_default() {
            self.cap(format!("[checked build] {}", c.as_str().unwrap_or("")));
        }
        self.engine("checked-profile-leg", json!({"tier": tier, "states": v["states"], "transitions": v["transitions"], "distinct": v["distinct"], "wall_s": v["wall_s"], "violations": n,
            "what": "the same check executed by the harness built with overflow-checks and debug-assertions on (panics on arithmetic the release build wraps)"}));
    }

    /// Write evidence, print KNOWN-FINDING / VIOLATION lines, return the process exit code.
    pub fn finish(&self, rule: &str, assumptions: &[&str]) -> i32 {
        if std::env::var("VCHECK_LEG").is_ok() {
            return self.finish_leg();
        }
        self.run_checked_leg();
        let wall = self.start.elapsed().as_secs_f64();
        let states = self.states.load(Ordering::Relaxed);
        let transitions = self.transitions.load(Ordering::Relaxed);
        let evaluations = self.evaluations.load(Ordering::Relaxed).max(transitions);
        let mut cov = Map::new();
        cov.insert("states".into(), json!(states));
        cov.insert("transitions".into(), json!(transitions));
        cov.insert("traces_validated_against_impl".into(), json!(evaluations));
        cov.insert("evaluations".into(), json!(evaluations));
        cov.insert("distinct_nontrivial".into(), json!(self.distinct_count()));
        cov.insert("rule".into(), json!(rule));
        cov.insert("exhaustive".into(), json!(self.exhaustive.load(Ordering::Relaxed)));
        cov.insert("caps_hit".into(), json!(*self.caps.lock().unwrap()));
        cov.insert("engines".into(), json!(*self.engines.lock().unwrap()));
        cov.insert("witnesses".into(), json!(*self.witnesses.lock().unwrap()));
        let mut samples = self.samples.lock().unwrap().clone();
        if samples.is_empty() {
            samples.push(json!("no sample recorded"));
        }
        cov.insert("samples".into(), Value::Array(samples));
        for (k, v) in self.extra.lock().unwrap().iter() {
            cov.insert(k.clone(), v.clone());
        }
        let viol = self.violations.lock().unwrap();
        let hits = self.known_hits.lock().unwrap();
        cov.insert(
            "known_findings_seen".into(),
            json!(hits.iter().map(|(k, n)| json!({"key": k, "occurrences": n})).collect::<Vec<_>>()),
        );
        let ev = json!({
            "property_id": self.prop,
            "tier": if self.quick() {"quick"} else {"thorough"},
            "seed": self.seed,
            "level": "model_checking",
            "coverage": Value::Object(cov),
            "assumptions": assumptions,
            "wall_s": wall,
            "violations": viol.len(),
        });
        let _ = std::fs::create_dir_all(format!("{}/evidence", VERIF_DIR));
        let path = format!("{}/evidence/{}.json", VERIF_DIR, self.prop);
        if let Err(e) = std::fs::write(&path, serde_json::to_string_pretty(&ev).unwrap()) {
            eprintln!("machinery: cannot write {}: {}", path, e);
            return 2;
        }
        for (k, n) in hits.iter() {
            let what = self
                .known
                .iter()
                .find(|x| x.property == self.prop && &x.key == k)
                .map(|x| x.what.clone())
                .unwrap_or_default();
            println!("KNOWN-FINDING: property={} key={} occurrences={} {}", self.prop, k, n, what);
        }
        println!(
            "{} {}: states={} transitions={} evaluations={} distinct={} exhaustive={} wall={:.1}s violations={}",
            self.prop,
            if self.quick() { "quick" } else { "thorough" },
            states,
            transitions,
            evaluations,
            self.distinct_count(),
            self.exhaustive.load(Ordering::Relaxed),
            wall,
            viol.len()
        );
        if viol.is_empty() {
            return 0;
        }
        let _ = std::fs::create_dir_all(format!("{}/replays", VERIF_DIR));
        for (k, v) in viol.iter() {
            let digest = crate::util::fnv(k.as_bytes()) & 0xffff_ffff;
            let rp = format!("{}/replays/{}-{:08x}.json", VERIF_DIR, self.prop, digest);
            let body = json!({"property": self.prop, "key": k, "what": v["what"], "replay": v["replay"]});
            let _ = std::fs::write(&rp, serde_json::to_string_pretty(&body).unwrap());
            println!("  violation key={} :: {}", k, v["what"].as_str().unwrap_or(""));
            println!("VIOLATION property={} replay={}", self.prop, rp);
        }
        1
    }
}
