//! AML term trees: the generator's description of a program (`T`), its execution on the real
//! crate (`real`), and the parse tree the specification prescribes for it (`expect`).
use super::parse::{FE, N};
use super::res::R;
use crate::codecs::{eisa_compress, name_decode, uuid_to_buffer, NameStr};
use acpi_tables::aml::*;
use acpi_tables::{Aml, AmlSink};

#[derive(Clone, Copy, Debug, PartialEq, Eq, Hash, serde::Serialize, serde::Deserialize)]
pub enum Carrier {
    U8,
    U16,
    U32,
    U64,
    Usize,
}

#[derive(Clone, Debug, PartialEq, Eq, Hash, serde::Serialize, serde::Deserialize)]
pub enum T {
    Zero,
    One,
    Ones,
    Int(u64, Carrier),
    Str(String, bool), // owned?
    Path(String),
    FieldName(String), // Name::new_field_name
    Name(String, Box<T>),
    Package(Vec<T>),
    PackageBuilder(Vec<T>),
    VarPackage(Box<T>),
    Eisa(String),
    Uuid(String),
    BufferTerm(Box<T>),
    BufferData(Vec<u8>),
    ResTemplate(Vec<R>),
    Device(String, Vec<T>),
    Scope(String, Vec<T>),
    ScopeRaw(String, Vec<T>),
    Method(String, u8, bool, Vec<T>),
    Field(String, u8, u8, u8, Vec<(Option<[u8; 4]>, usize)>),
    OpRegion(String, u8, Box<T>, Box<T>),
    If(Box<T>, Vec<T>),
    Else(Vec<T>),
    While(Box<T>, Vec<T>),
    Cmp(u8, Box<T>, Box<T>), // 0 Equal 1 LessThan 2 GreaterThan 3 NotEqual 4 GreaterEqual 5 LessEqual
    Arg(u8),
    Local(u8),
    Store(Box<T>, Box<T>), // (name, value)
    Mutex(String, u8),
    Acquire(String, u16),
    Release(String),
    Notify(Box<T>, Box<T>),
    Unary(u8, Box<T>),                  // 0 ObjectType 1 SizeOf 2 Return 3 DeRefOf
    Binary(u8, Box<T>, Box<T>, Box<T>), // (kind, target, a, b)
    Convert(u8, Box<T>, Box<T>),        // (kind, target, a): 0 ToBuffer 1 ToInteger
    CreateField(Box<T>, Box<T>, Box<T>, Box<T>), // (name, source, bit_index, bit_num)
    Mid(Box<T>, Box<T>, Box<T>, Box<T>),
    MethodCall(String, Vec<T>),
    PowerResource(String, u8, u16, Vec<T>),
}

pub const BINARY: [(&str, u8); 17] = [
    ("Add", 0x72),
    ("Concat", 0x73),
    ("Subtract", 0x74),
    ("Multiply", 0x77),
    ("ShiftLeft", 0x79),
    ("ShiftRight", 0x7a),
    ("And", 0x7b),
    ("Nand", 0x7c),
    ("Or", 0x7d),
    ("Nor", 0x7e),
    ("Xor", 0x7f),
    ("ConcatRes", 0x84),
    ("Mod", 0x85),
    ("Index", 0x88),
    ("ToString", 0x9c),
    ("CreateDWordField", 0x8a),
    ("CreateQWordField", 0x8f),
];
pub const UNARY: [(&str, u8); 4] = [("ObjectType", 0x8e), ("SizeOf", 0x87), ("Return", 0xa4), ("DerefOf", 0x83)];
pub const CONVERT: [(&str, u8); 2] = [("ToBuffer", 0x96), ("ToInteger", 0x99)];

/// one call a serialiser made on its sink
#[derive(Clone, Debug, PartialEq)]
pub enum Call {
    B(u8),
    W(u16),
    D(u32),
    Q(u64),
    V(Vec<u8>),
}
/// a sink that records the calls made on it (all five methods, so that wide writes stay wide)
#[derive(Default)]
pub struct Recorder(pub Vec<Call>);
impl AmlSink for Recorder {
    fn byte(&mut self, b: u8) {
        self.0.push(Call::B(b));
    }
    fn word(&mut self, w: u16) {
        self.0.push(Call::W(w));
    }
    fn dword(&mut self, d: u32) {
        self.0.push(Call::D(d));
    }
    fn qword(&mut self, q: u64) {
        self.0.push(Call::Q(q));
    }
    fn vec(&mut self, v: &[u8]) {
        self.0.push(Call::V(v.to_vec()));
    }
}
/// stand-in for a child object: the parent's serialiser can only call to_aml_bytes on it, and it then makes on the
/// parent's sink exactly the calls the real child made when it was serialised (a child that writes a 64-bit constant
/// with one qword() call does so here too, so a parent that measures or forwards its children call by call sees the
/// real thing)
pub struct Raw(pub Vec<Call>);
impl Raw {
    pub fn bytes(b: Vec<u8>) -> Raw {
        Raw(vec![Call::V(b)])
    }
}
impl Aml for Raw {
    fn to_aml_bytes(&self, sink: &mut dyn AmlSink) {
        for c in &self.0 {
            match c {
                Call::B(b) => sink.byte(*b),
                Call::W(w) => sink.word(*w),
                Call::D(d) => sink.dword(*d),
                Call::Q(q) => sink.qword(*q),
                Call::V(v) => sink.vec(v),
            }
        }
    }
}
/// the stand-in for term `t`: its real object serialised once into a recorder
pub fn raw_of(t: &T) -> Raw {
    Raw(real_with(t, &mut |a| {
        let mut r = Recorder::default();
        a.to_aml_bytes(&mut r);
        r.0
    }))
}

fn ser(a: &dyn Aml) -> Vec<u8> {
    let mut v = Vec::new();
    a.to_aml_bytes(&mut v);
    // the history principle for terms: serialising is an observation, and an object observed twice is the same object
    // (a cache filled by the first pass is state); a difference is raised as a panic, which every caller reports
    let mut again = Vec::new();
    a.to_aml_bytes(&mut again);
    if again != v {
        panic!("SECOND USE: the same object serialised a second time gives different bytes ({} then {} bytes)", v.len(), again.len());
    }
    v
}
fn raws(ts: &[T]) -> Vec<Raw> {
    ts.iter().map(raw_of).collect()
}
fn refs(rs: &[Raw]) -> Vec<&dyn Aml> {
    crate::util::spare(rs.iter().map(|r| r as &dyn Aml).collect())
}
pub fn access(i: u8) -> FieldAccessType {
    [FieldAccessType::Any, FieldAccessType::Byte, FieldAccessType::Word, FieldAccessType::DWord, FieldAccessType::QWord, FieldAccessType::Buffer][i as usize]
}
pub fn space(i: u8) -> OpRegionSpace {
    use OpRegionSpace::*;
    [SystemMemory, SystemIO, PCIConfig, EmbeddedControl, SMBus, SystemCMOS, PciBarTarget, IPMI, GeneralPurposeIO, GenericSerialBus][i as usize]
}

/// Execute the program on the real crate: every node is built with the crate's constructor and
/// serialised by the crate's serialiser (children are handed over pre-serialised).
thread_local! {
    /// origin of every `PackageBuilder` built by `real_with`: 0 = `new()`, 1 = `Default`, 2 = what `core::mem::take` leaves behind
    pub static PB_ORIGIN: std::cell::Cell<u8> = const { std::cell::Cell::new(0) };
}
/// `real` with every package builder obtained from the given origin
pub fn real_from_origin(t: &T, origin: u8) -> Vec<u8> {
    PB_ORIGIN.with(|o| o.set(origin));
    let r = std::panic::catch_unwind(std::panic::AssertUnwindSafe(|| real(t)));
    PB_ORIGIN.with(|o| o.set(0));
    match r {
        Ok(b) => b,
        Err(e) => std::panic::resume_unwind(e),
    }
}
pub fn has_builder(t: &T) -> bool {
    matches!(t, T::PackageBuilder(_)) || t.children().iter().any(|c| has_builder(c))
}
pub fn real(t: &T) -> Vec<u8> {
    real_with(t, &mut |a| ser(a))
}

/// Execute the program on the real crate and hand the *root object* to `k` (C14 serialises it into several sinks).
pub fn real_with<R>(t: &T, kk: &mut dyn FnMut(&dyn Aml) -> R) -> R {
    match t {
        T::Zero => kk(&ZERO),
        T::One => kk(&ONE),
        T::Ones => kk(&ONES),
        T::Int(v, c) => match c {
            Carrier::U8 => kk(&(*v as u8)),
            Carrier::U16 => kk(&(*v as u16)),
            Carrier::U32 => kk(&(*v as u32)),
            Carrier::U64 => kk(v),
            Carrier::Usize => kk(&(*v as usize)),
        },
        T::Str(s, owned) => {
            if *owned {
                kk(&crate::util::spare_string(s))
            } else {
                let st: &'static str = Box::leak(s.clone().into_boxed_str());
                kk(&st)
            }
        }
        T::Path(p) => kk(&Path::new(p)),
        T::FieldName(s) => kk(&Name::new_field_name(s)),
        T::Name(p, inner) => kk(&Name::new(Path::new(p), &raw_of(inner))),
        T::Package(cs) => {
            let r = raws(cs);
            kk(&Package::new(refs(&r)))
        }
        T::PackageBuilder(cs) => {
            // how the builder was obtained is state (C06 runs every builder program from each origin)
            let mut b = match PB_ORIGIN.with(|o| o.get()) {
                0 => PackageBuilder::new(),
                1 => PackageBuilder::default(),
                _ => {
                    let mut used = PackageBuilder::new();
                    used.add_element(&0x1234u16);
                    let _ = core::mem::take(&mut used);
                    used
                }
            };
            for c in cs {
                // the element is handed over as the real object (its own children pre-serialised), so that the builder's
                // sink interface sees the element's own call pattern (byte / word / dword / qword / vec)
                real_with(c, &mut |a| b.add_element(a));
            }
            kk(&b)
        }
        T::VarPackage(c) => kk(&VarPackageTerm::new(&raw_of(c))),
        T::Eisa(s) => kk(&EISAName::new(s)),
        T::Uuid(s) => kk(&Uuid::new(s)),
        T::BufferTerm(c) => kk(&BufferTerm::new(&raw_of(c))),
        T::BufferData(d) => kk(&BufferData::new(crate::util::spare(d.clone()))),
        T::ResTemplate(rs) => {
            let r: Vec<Raw> = rs.iter().map(|x| Raw::bytes(x.real())).collect();
            kk(&ResourceTemplate::new(refs(&r)))
        }
        T::Device(p, cs) => {
            let r = raws(cs);
            kk(&Device::new(Path::new(p), refs(&r)))
        }
        T::Scope(p, cs) => {
            let r = raws(cs);
            kk(&Scope::new(Path::new(p), refs(&r)))
        }
        T::ScopeRaw(p, cs) => {
            let mut body = vec![];
            for c in cs {
                body.extend(real(c));
            }
            kk(&Raw::bytes(Scope::raw(Path::new(p), body)))
        }
        T::Method(p, args, serialized, cs) => {
            let r = raws(cs);
            kk(&Method::new(Path::new(p), *args, *serialized, refs(&r)))
        }
        T::Field(p, a, l, u, es) => {
            let lock = [FieldLockRule::NoLock, FieldLockRule::Lock][*l as usize];
            let upd = [FieldUpdateRule::Preserve, FieldUpdateRule::WriteAsOnes, FieldUpdateRule::WriteAsZeroes][*u as usize];
            let entries = es
                .iter()
                .map(|(n, w)| match n {
                    Some(n) => FieldEntry::Named(*n, *w),
                    None => FieldEntry::Reserved(*w),
                })
                .collect();
            kk(&Field::new(Path::new(p), access(*a), lock, upd, entries))
        }
        T::OpRegion(p, sp, o, l) => kk(&OpRegion::new(Path::new(p), space(*sp), &raw_of(o), &raw_of(l))),
        T::If(p, cs) => {
            let r = raws(cs);
            kk(&If::new(&raw_of(p), refs(&r)))
        }
        T::Else(cs) => {
            let r = raws(cs);
            kk(&Else::new(refs(&r)))
        }
        T::While(p, cs) => {
            let r = raws(cs);
            kk(&While::new(&raw_of(p), refs(&r)))
        }
        T::Cmp(k, l, r) => {
            let (l, r) = (raw_of(l), raw_of(r));
            match k {
                0 => kk(&Equal::new(&l, &r)),
                1 => kk(&LessThan::new(&l, &r)),
                2 => kk(&GreaterThan::new(&l, &r)),
                3 => kk(&NotEqual::new(&l, &r)),
                4 => kk(&GreaterEqual::new(&l, &r)),
                _ => kk(&LessEqual::new(&l, &r)),
            }
        }
        T::Arg(i) => kk(&Arg(*i)),
        T::Local(i) => kk(&Local(*i)),
        T::Store(n, v) => kk(&Store::new(&raw_of(n), &raw_of(v))),
        T::Mutex(p, l) => kk(&Mutex::new(Path::new(p), *l)),
        T::Acquire(p, t) => kk(&Acquire::new(Path::new(p), *t)),
        T::Release(p) => kk(&Release::new(Path::new(p))),
        T::Notify(o, v) => kk(&Notify::new(&raw_of(o), &raw_of(v))),
        T::Unary(k, a) => {
            let a = raw_of(a);
            match k {
                0 => kk(&ObjectType::new(&a)),
                1 => kk(&SizeOf::new(&a)),
                2 => kk(&Return::new(&a)),
                _ => kk(&DeRefOf::new(&a)),
            }
        }
        T::Binary(k, t, a, b) => {
            let (t, a, b) = (raw_of(t), raw_of(a), raw_of(b));
            match k {
                0 => kk(&Add::new(&t, &a, &b)),
                1 => kk(&Concat::new(&t, &a, &b)),
                2 => kk(&Subtract::new(&t, &a, &b)),
                3 => kk(&Multiply::new(&t, &a, &b)),
                4 => kk(&ShiftLeft::new(&t, &a, &b)),
                5 => kk(&ShiftRight::new(&t, &a, &b)),
                6 => kk(&And::new(&t, &a, &b)),
                7 => kk(&Nand::new(&t, &a, &b)),
                8 => kk(&Or::new(&t, &a, &b)),
                9 => kk(&Nor::new(&t, &a, &b)),
                10 => kk(&Xor::new(&t, &a, &b)),
                11 => kk(&ConcatRes::new(&t, &a, &b)),
                12 => kk(&Mod::new(&t, &a, &b)),
                13 => kk(&Index::new(&t, &a, &b)),
                14 => kk(&ToString::new(&t, &a, &b)),
                15 => kk(&CreateDWordField::new(&t, &a, &b)),
                _ => kk(&CreateQWordField::new(&t, &a, &b)),
            }
        }
        T::Convert(k, t, a) => {
            let (t, a) = (raw_of(t), raw_of(a));
            if *k == 0 {
                kk(&ToBuffer::new(&t, &a))
            } else {
                kk(&ToInteger::new(&t, &a))
            }
        }
        T::CreateField(n, s, bi, bn) => kk(&CreateField::new(&raw_of(n), &raw_of(s), &raw_of(bi), &raw_of(bn))),
        T::Mid(s, i, l, r) => kk(&Mid::new(&raw_of(s), &raw_of(i), &raw_of(l), &raw_of(r))),
        T::MethodCall(p, args) => {
            let r = raws(args);
            kk(&MethodCall::new(Path::new(p), refs(&r)))
        }
        T::PowerResource(p, l, o, cs) => {
            let r = raws(cs);
            kk(&PowerResource::new(Path::new(p), *l, *o, refs(&r)))
        }
    }
}

/// parse a path string independently of the crate (root prefix, dot-separated 4-character segments)
pub fn path_ns(p: &str) -> NameStr {
    let rooted = p.starts_with('\\');
    let body = if rooted { &p[1..] } else { p };
    let segs = body
        .split('.')
        .map(|s| {
            let b = s.as_bytes();
            [b[0], b[1], b[2], b[3]]
        })
        .collect();
    NameStr { rooted, parents: 0, segs }
}

fn ex_list(ts: &[T]) -> Vec<N> {
    ts.iter().map(expect).collect()
}

/// The parse tree ACPI 6.5 ch. 19/20 prescribes for the program (operator -> opcode, operand order).
pub fn expect(t: &T) -> N {
    let b = |t: &T| Box::new(expect(t));
    match t {
        T::Zero => N::Int(0),
        T::One => N::Int(1),
        T::Ones => N::Ones,
        T::Int(v, _) => N::Int(*v),
        T::Str(s, _) => N::Str(s.as_bytes().to_vec()),
        T::Path(p) => N::Name(path_ns(p)),
        T::FieldName(s) => N::Name(name_decode(s.as_bytes()).map(|x| x.0).unwrap_or(NameStr { rooted: false, parents: 0, segs: vec![] })),
        // DefName := NameOp NameString DataRefObject
        T::Name(p, i) => N::NameDef(path_ns(p), b(i)),
        // DefPackage := PackageOp PkgLength NumElements PackageElementList
        T::Package(cs) | T::PackageBuilder(cs) => N::Package(cs.len() as u8, ex_list(cs)),
        // DefVarPackage := VarPackageOp PkgLength VarNumElements PackageElementList (the crate emits the count term only)
        T::VarPackage(c) => N::VarPackage(b(c), vec![]),
        T::Eisa(s) => {
            let a = s.as_bytes();
            N::Int(eisa_compress(&[a[0], a[1], a[2], a[3], a[4], a[5], a[6]]) as u64)
        }
        T::Uuid(s) => N::Buffer(Box::new(N::Int(16)), uuid_to_buffer(s).map(|x| x.to_vec()).unwrap_or_default()),
        // DefBuffer := BufferOp PkgLength BufferSize ByteList
        T::BufferTerm(c) => N::Buffer(b(c), vec![]),
        T::BufferData(d) => N::Buffer(Box::new(N::Int(d.len() as u64)), d.clone()),
        T::ResTemplate(rs) => {
            let mut payload = vec![];
            for r in rs {
                payload.extend(r.reference());
            }
            payload.extend([0x79, 0x00]);
            N::Buffer(Box::new(N::Int(payload.len() as u64)), payload)
        }
        T::Device(p, cs) => N::Device(path_ns(p), ex_list(cs)),
        T::Scope(p, cs) | T::ScopeRaw(p, cs) => N::Scope(path_ns(p), ex_list(cs)),
        // MethodFlags: bits 2-0 ArgCount, bit 3 SerializeFlag, bits 7-4 SyncLevel
        T::Method(p, a, s, cs) => N::Method(path_ns(p), (*a & 7) | ((*s as u8) << 3), ex_list(cs)),
        // FieldFlags: bits 3-0 AccessType, bit 4 LockRule, bits 6-5 UpdateRule
        T::Field(p, a, l, u, es) => N::Field(
            path_ns(p),
            *a | (*l << 4) | (*u << 5),
            es.iter()
                .map(|(n, w)| match n {
                    Some(n) => FE::Named(*n, *w),
                    None => FE::Reserved(*w),
                })
                .collect(),
        ),
        // DefOpRegion := OpRegionOp NameString RegionSpace RegionOffset RegionLen
        T::OpRegion(p, sp, o, l) => N::OpRegion(path_ns(p), *sp, b(o), b(l)),
        T::If(p, cs) => N::If(b(p), ex_list(cs)),
        T::Else(cs) => N::Else(ex_list(cs)),
        T::While(p, cs) => N::While(b(p), ex_list(cs)),
        T::Cmp(k, l, r) => {
            let pair = vec![expect(l), expect(r)];
            match k {
                0 => N::Op("LEqual", pair),
                1 => N::Op("LLess", pair),
                2 => N::Op("LGreater", pair),
                // LNotEqual := LNotOp LEqualOp, LGreaterEqual := LNotOp LLessOp, LLessEqual := LNotOp LGreaterOp
                3 => N::Op("LNot", vec![N::Op("LEqual", pair)]),
                4 => N::Op("LNot", vec![N::Op("LLess", pair)]),
                _ => N::Op("LNot", vec![N::Op("LGreater", pair)]),
            }
        }
        T::Arg(i) => N::Arg(*i),
        T::Local(i) => N::Local(*i),
        // DefStore := StoreOp TermArg SuperName
        T::Store(n, v) => N::Op("Store", vec![expect(v), expect(n)]),
        T::Mutex(p, l) => N::Mutex(path_ns(p), *l),
        // DefAcquire := AcquireOp MutexObject Timeout(word)
        T::Acquire(p, to) => N::Op("Acquire", vec![N::Name(path_ns(p)), N::Int(*to as u64)]),
        T::Release(p) => N::Op("Release", vec![N::Name(path_ns(p))]),
        T::Notify(o, v) => N::Op("Notify", vec![expect(o), expect(v)]),
        T::Unary(k, a) => N::Op(UNARY[*k as usize].0, vec![expect(a)]),
        // binary operators: Operand Operand Target; Index: BuffPkgStrObj IndexValue Target; ToString: TermArg LengthArg Target;
        // CreateDWordField/CreateQWordField: SourceBuff ByteIndex NameString
        T::Binary(k, t, a, bb) => N::Op(BINARY[*k as usize].0, vec![expect(a), expect(bb), expect(t)]),
        T::Convert(k, t, a) => N::Op(CONVERT[*k as usize].0, vec![expect(a), expect(t)]),
        // DefCreateField := CreateFieldOp SourceBuff BitIndex NumBits NameString
        T::CreateField(n, s, bi, bn) => N::Op("CreateField", vec![expect(s), expect(bi), expect(bn), expect(n)]),
        // DefMid := MidOp MidObj TermArg TermArg Target
        T::Mid(s, i, l, r) => N::Op("Mid", vec![expect(s), expect(i), expect(l), expect(r)]),
        T::MethodCall(p, args) => N::Call(path_ns(p), ex_list(args)),
        // DefPowerRes := PowerResOp PkgLength NameString SystemLevel ResourceOrder TermList
        T::PowerResource(p, l, o, cs) => N::PowerRes(path_ns(p), *l, *o, ex_list(cs)),
    }
}

/// method names (last segment) -> arity for every MethodCall in the tree: all the parser is told
pub fn arities(t: &T, out: &mut Vec<(NameStr, usize)>) {
    let mut kids: Vec<&T> = vec![];
    match t {
        T::MethodCall(p, args) => {
            out.push((path_ns(p), args.len()));
            kids.extend(args.iter());
        }
        T::Name(_, a) | T::VarPackage(a) | T::BufferTerm(a) | T::Unary(_, a) => kids.push(a),
        T::Package(cs) | T::PackageBuilder(cs) | T::Device(_, cs) | T::Scope(_, cs) | T::ScopeRaw(_, cs) | T::Method(_, _, _, cs) | T::Else(cs) | T::PowerResource(_, _, _, cs) => kids.extend(cs.iter()),
        T::OpRegion(_, _, a, b) | T::Cmp(_, a, b) | T::Store(a, b) | T::Notify(a, b) | T::Convert(_, a, b) => {
            kids.push(a);
            kids.push(b);
        }
        T::If(p, cs) | T::While(p, cs) => {
            kids.push(p);
            kids.extend(cs.iter());
        }
        T::Binary(_, a, b, c) => {
            kids.push(a);
            kids.push(b);
            kids.push(c);
        }
        T::CreateField(a, b, c, d) | T::Mid(a, b, c, d) => {
            kids.push(a);
            kids.push(b);
            kids.push(c);
            kids.push(d);
        }
        _ => {}
    }
    for k in kids {
        arities(k, out);
    }
}

impl T {
    pub fn children(&self) -> Vec<&T> {
        let mut k: Vec<&T> = vec![];
        match self {
            T::MethodCall(_, cs) | T::Package(cs) | T::PackageBuilder(cs) | T::Device(_, cs) | T::Scope(_, cs) | T::ScopeRaw(_, cs) | T::Method(_, _, _, cs) | T::Else(cs) | T::PowerResource(_, _, _, cs) => k.extend(cs.iter()),
            T::Name(_, a) | T::VarPackage(a) | T::BufferTerm(a) | T::Unary(_, a) => k.push(a),
            T::OpRegion(_, _, a, b) | T::Cmp(_, a, b) | T::Store(a, b) | T::Notify(a, b) | T::Convert(_, a, b) => {
                k.push(a);
                k.push(b);
            }
            T::If(p, cs) | T::While(p, cs) => {
                k.push(p);
                k.extend(cs.iter());
            }
            T::Binary(_, a, b, c) => {
                k.push(a);
                k.push(b);
                k.push(c);
            }
            T::CreateField(a, b, c, d) | T::Mid(a, b, c, d) => {
                k.push(a);
                k.push(b);
                k.push(c);
                k.push(d);
            }
            _ => {}
        }
        k
    }
    pub fn ctor_name(&self) -> String {
        match self {
            T::Binary(k, ..) => BINARY[*k as usize].0.to_string(),
            T::Unary(k, ..) => UNARY[*k as usize].0.to_string(),
            T::Convert(k, ..) => CONVERT[*k as usize].0.to_string(),
            T::Cmp(k, ..) => ["Equal", "LessThan", "GreaterThan", "NotEqual", "GreaterEqual", "LessEqual"][*k as usize].to_string(),
            T::Int(_, c) => format!("Int/{:?}", c),
            other => {
                let s = format!("{:?}", other);
                s.split(|c: char| c == '(' || c == ' ' || c == '{').next().unwrap_or("?").to_string()
            }
        }
    }
}
