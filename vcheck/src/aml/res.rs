//! Resource descriptors: description (`R`), execution on the real crate, reference encoding
//! (oracle O4, ACPI 6.5 6.4) and a walker over small/large item formats.
use crate::tables::GAS_SPACES;
use crate::util::W;
use acpi_tables::aml::*;
use acpi_tables::gas;
use acpi_tables::Aml;

#[derive(Clone, Copy, Debug, PartialEq, Eq, Hash, serde::Serialize, serde::Deserialize)]
pub enum AsKind {
    Memory(u8, bool), // cacheable 0..4, read_write
    Io,
    Bus,
}

#[derive(Clone, Debug, PartialEq, Eq, Hash, serde::Serialize, serde::Deserialize)]
pub enum R {
    Mem32Fixed(bool, u32, u32),
    Io(u16, u16, u8, u8),
    Interrupt(bool, bool, bool, bool, u32),
    Register(u8, u8, u8, u8, u64), // space idx 0..13, width, offset, access 0..5, address
    As16(AsKind, u16, u16, Option<u16>),
    As32(AsKind, u32, u32, Option<u32>),
    As64(AsKind, u64, u64, Option<u64>),
}

fn ser(a: &dyn Aml) -> Vec<u8> {
    let mut v = Vec::new();
    a.to_aml_bytes(&mut v);
    // the history principle for terms: serialising is an observation, and an object observed twice is the same object
    // (a cache filled by the first pass is state); a difference is raised as a panic, which every caller reports
    let mut again = Vec::new();
    a.to_aml_bytes(&mut again);
    if again != v {
        panic!("SECOND USE: the same object serialised a second time gives different bytes ({} then {} bytes)", v.len(), again.len());
    }
    v
}
fn cache(i: u8) -> AddressSpaceCacheable {
    [AddressSpaceCacheable::NotCacheable, AddressSpaceCacheable::Cacheable, AddressSpaceCacheable::WriteCombining, AddressSpaceCacheable::PreFetchable][i as usize]
}
macro_rules! mk_as {
    ($t:ty, $k:expr, $min:expr, $max:expr, $tr:expr) => {
        match $k {
            AsKind::Memory(c, rw) => ser(&AddressSpace::<$t>::new_memory(cache(*c), *rw, *$min, *$max, *$tr)),
            AsKind::Io => ser(&AddressSpace::<$t>::new_io(*$min, *$max, *$tr)),
            AsKind::Bus => ser(&AddressSpace::<$t>::new_bus_number(*$min, *$max)),
        }
    };
}

impl R {
    pub fn kind(&self) -> &'static str {
        match self {
            R::Mem32Fixed(..) => "Memory32Fixed",
            R::Io(..) => "IO",
            R::Interrupt(..) => "Interrupt",
            R::Register(..) => "Register",
            R::As16(k, ..) | R::As32(k, ..) | R::As64(k, ..) => match (self, k) {
                (R::As16(..), AsKind::Memory(..)) => "WordMemory",
                (R::As16(..), AsKind::Io) => "WordIO",
                (R::As16(..), AsKind::Bus) => "WordBusNumber",
                (R::As32(..), AsKind::Memory(..)) => "DWordMemory",
                (R::As32(..), AsKind::Io) => "DWordIO",
                (R::As32(..), AsKind::Bus) => "DWordBusNumber",
                (_, AsKind::Memory(..)) => "QWordMemory",
                (_, AsKind::Io) => "QWordIO",
                (_, AsKind::Bus) => "QWordBusNumber",
            },
        }
    }
    /// serialise through the crate
    pub fn real(&self) -> Vec<u8> {
        match self {
            R::Mem32Fixed(rw, b, l) => ser(&Memory32Fixed::new(*rw, *b, *l)),
            R::Io(mi, ma, al, le) => ser(&IO::new(*mi, *ma, *al, *le)),
            R::Interrupt(c, e, a, s, n) => ser(&Interrupt::new(*c, *e, *a, *s, *n)),
            R::Register(sp, w, o, ac, ad) => {
                use gas::{AccessSize as S, AddressSpace as P};
                let spv = [
                    P::SystemMemory,
                    P::SystemIo,
                    P::PciConfigSpace,
                    P::EmbeddedController,
                    P::Smbus,
                    P::SystemCmos,
                    P::PciBarTarget,
                    P::Ipmi,
                    P::GeneralPursposeIo,
                    P::GenericSerialBus,
                    P::PlatformCommunicationsChannel,
                    P::PlatformRuntimeMechanism,
                    P::FunctionalFixedHardware,
                ][*sp as usize];
                let acv = [S::Undefined, S::ByteAccess, S::WordAccess, S::DwordAccess, S::QwordAccess][*ac as usize];
                ser(&Register::new(gas::GAS::new(spv, *w, *o, acv, *ad)))
            }
            R::As16(k, mi, ma, tr) => mk_as!(u16, k, mi, ma, tr),
            R::As32(k, mi, ma, tr) => mk_as!(u32, k, mi, ma, tr),
            R::As64(k, mi, ma, tr) => mk_as!(u64, k, mi, ma, tr),
        }
    }
    /// ACPI 6.5 6.4 reference encoding
    pub fn reference(&self) -> Vec<u8> {
        let mut w = W::new();
        let as_hdr = |w: &mut W, tag: u8, len: u16, k: &AsKind| {
            // resource type (0 memory, 1 I/O, 2 bus), general flags (bit2 min fixed, bit3 max fixed), type-specific flags
            let (rt, tf) = match k {
                AsKind::Memory(c, rw) => (0u8, (*c << 1) | *rw as u8), // bit0 write status, bits 2:1 memory attribute
                AsKind::Io => (1, 3),                                  // bits 1:0 = 3: entire range
                AsKind::Bus => (2, 0),
            };
            w.u8(tag).u16(len).u8(rt).u8(0x0c).u8(tf);
        };
        match self {
            // 32-bit Fixed Memory Range: 0x86, length 9, information (bit0 writeable), base, length
            R::Mem32Fixed(rw, b, l) => {
                w.u8(0x86).u16(9).u8(*rw as u8).u32(*b).u32(*l);
            }
            // I/O Port: 0x47 (small item, 7 bytes), information bit0 = 16-bit decode, min, max, alignment, length
            R::Io(mi, ma, al, le) => {
                w.u8(0x47).u8(1).u16(*mi).u16(*ma).u8(*al).u8(*le);
            }
            // Extended Interrupt: 0x89, length 6 for one interrupt, flags (bit0 consumer, bit1 edge, bit2 active low, bit3 shared), count 1, number
            R::Interrupt(c, e, a, s, n) => {
                w.u8(0x89).u16(6).u8(*c as u8 | (*e as u8) << 1 | (*a as u8) << 2 | (*s as u8) << 3).u8(1).u32(*n);
            }
            // Generic Register: 0x82, length 12, address space id, bit width, bit offset, access size, address
            R::Register(sp, wd, o, ac, ad) => {
                w.u8(0x82).u16(12).u8(GAS_SPACES[*sp as usize]).u8(*wd).u8(*o).u8(*ac).u64(*ad);
            }
            // Word/DWord/QWord Address Space: granularity, min, max, translation offset, length = max - min + 1
            R::As16(k, mi, ma, tr) => {
                as_hdr(&mut w, 0x88, 13, k);
                w.u16(0).u16(*mi).u16(*ma).u16(tr.unwrap_or(0)).u16(ma.wrapping_sub(*mi).wrapping_add(1));
            }
            R::As32(k, mi, ma, tr) => {
                as_hdr(&mut w, 0x87, 23, k);
                w.u32(0).u32(*mi).u32(*ma).u32(tr.unwrap_or(0)).u32(ma.wrapping_sub(*mi).wrapping_add(1));
            }
            R::As64(k, mi, ma, tr) => {
                as_hdr(&mut w, 0x8a, 43, k);
                w.u64(0).u64(*mi).u64(*ma).u64(tr.unwrap_or(0)).u64(ma.wrapping_sub(*mi).wrapping_add(1));
            }
        }
        w.0
    }
}

#[derive(Clone, Debug, PartialEq, Eq)]
pub struct Item {
    pub off: usize,
    pub tag: u8,
    pub payload: usize,
    pub total: usize,
}

/// Walk a resource template payload by the descriptors' own length fields (small items: bits 2-0 of the tag;
/// large items: 16-bit length after the tag). Must tile the payload and end with an end tag (0x79) + checksum.
pub fn walk(p: &[u8]) -> Result<Vec<Item>, String> {
    let mut v = vec![];
    let mut o = 0;
    while o < p.len() {
        let tag = p[o];
        let (payload, hdr) = if tag & 0x80 == 0 {
            ((tag & 7) as usize, 1)
        } else {
            if o + 3 > p.len() {
                return Err(format!("large item header at {} overruns the payload end {}", o, p.len()));
            }
            (u16::from_le_bytes([p[o + 1], p[o + 2]]) as usize, 3)
        };
        if o + hdr + payload > p.len() {
            return Err(format!("item at {} (tag {:#04x}) declares {} payload bytes but only {} remain", o, tag, payload, p.len() - o - hdr));
        }
        v.push(Item { off: o, tag, payload, total: hdr + payload });
        o += hdr + payload;
        if tag & 0x80 == 0 && (tag >> 3) & 0xf == 0xf {
            // end tag: must be the last item
            if o != p.len() {
                return Err(format!("end tag at {} is followed by {} more bytes", o - hdr - payload, p.len() - o));
            }
        }
    }
    match v.last() {
        Some(i) if i.tag == 0x79 && i.payload == 1 => Ok(v),
        _ => Err("payload does not end with the end tag 0x79 + checksum byte".into()),
    }
}
