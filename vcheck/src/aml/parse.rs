//! Oracle O3: recursive-descent AML decoder over the ACPI 6.5 ch. 20 grammar, for the opcodes the
//! crate can emit. It is told only the arity of invoked methods. Every PkgLength-delimited object
//! must end exactly where its last child ends, and the stream must be consumed completely.
use crate::codecs::{int_decode, name_decode, pkg_decode, NameStr};

#[derive(Clone, Debug, PartialEq, Eq)]
pub enum FE {
    Named([u8; 4], usize),
    Reserved(usize),
}

#[derive(Clone, Debug, PartialEq, Eq)]
pub enum N {
    Int(u64),
    Ones,
    Str(Vec<u8>),
    Name(NameStr),
    Local(u8),
    Arg(u8),
    Buffer(Box<N>, Vec<u8>),
    Package(u8, Vec<N>),
    VarPackage(Box<N>, Vec<N>),
    Op(&'static str, Vec<N>),
    Call(NameStr, Vec<N>),
    NameDef(NameStr, Box<N>),
    Scope(NameStr, Vec<N>),
    Device(NameStr, Vec<N>),
    Method(NameStr, u8, Vec<N>),
    PowerRes(NameStr, u8, u16, Vec<N>),
    Field(NameStr, u8, Vec<FE>),
    OpRegion(NameStr, u8, Box<N>, Box<N>),
    Mutex(NameStr, u8),
    If(Box<N>, Vec<N>),
    Else(Vec<N>),
    While(Box<N>, Vec<N>),
}

pub struct Parser<'a> {
    pub b: &'a [u8],
    pub pos: usize,
    pub methods: &'a [(NameStr, usize)],
    depth: usize,
}

type R<T> = Result<T, String>;

impl<'a> Parser<'a> {
    pub fn new(b: &'a [u8], methods: &'a [(NameStr, usize)]) -> Self {
        Parser { b, pos: 0, methods, depth: 0 }
    }
    fn peek(&self) -> R<u8> {
        self.b.get(self.pos).copied().ok_or_else(|| format!("unexpected end of stream at {}", self.pos))
    }
    fn byte(&mut self) -> R<u8> {
        let v = self.peek()?;
        self.pos += 1;
        Ok(v)
    }
    fn word(&mut self) -> R<u16> {
        let lo = self.byte()? as u16;
        let hi = self.byte()? as u16;
        Ok(lo | hi << 8)
    }
    /// PkgLength at the current position; returns the absolute end offset of the object
    fn pkg_end(&mut self, limit: usize) -> R<usize> {
        let start = self.pos;
        let (v, w, fmt) = pkg_decode(&self.b[self.pos..]).ok_or_else(|| format!("truncated PkgLength at {}", self.pos))?;
        if !fmt {
            return Err(format!("PkgLength at {} has reserved bits 5-4 set in a multi-byte encoding", start));
        }
        self.pos += w;
        let end = start + v;
        if v < w {
            return Err(format!("PkgLength at {} decodes to {} which is less than its own {} bytes", start, v, w));
        }
        if end > limit {
            return Err(format!("object with PkgLength at {} ends at {} beyond its enclosing object end {}", start, end, limit));
        }
        Ok(end)
    }
    fn name(&mut self) -> R<NameStr> {
        let (n, used) = name_decode(&self.b[self.pos..]).ok_or_else(|| format!("malformed NameString at {}", self.pos))?;
        self.pos += used;
        Ok(n)
    }
    fn list(&mut self, end: usize) -> R<Vec<N>> {
        let mut v = vec![];
        while self.pos < end {
            v.push(self.term(end)?);
        }
        if self.pos != end {
            return Err(format!("last child ends at {} but its enclosing object ends at {}", self.pos, end));
        }
        Ok(v)
    }
    fn args(&mut self, n: usize, limit: usize) -> R<Vec<N>> {
        (0..n).map(|_| self.term(limit)).collect()
    }

    /// one term object (superset grammar: any object may appear where a term is expected)
    pub fn term(&mut self, limit: usize) -> R<N> {
        self.depth += 1;
        if self.depth > 200 {
            return Err("nesting too deep".into());
        }
        let r = self.term_inner(limit);
        self.depth -= 1;
        if self.pos > limit {
            return Err(format!("term overruns its enclosing object: at {} past {}", self.pos, limit));
        }
        r
    }
    fn term_inner(&mut self, limit: usize) -> R<N> {
        let at = self.pos;
        let op = self.peek()?;
        let fixed = |s: &mut Self, name: &'static str, n: usize| -> R<N> {
            s.pos += 1;
            Ok(N::Op(name, s.args(n, limit)?))
        };
        match op {
            0x00 | 0x01 | 0x0a | 0x0b | 0x0c | 0x0e => {
                let (v, used) = int_decode(&self.b[self.pos..]).ok_or_else(|| format!("truncated integer at {}", at))?;
                self.pos += used;
                Ok(N::Int(v))
            }
            0xff => {
                self.pos += 1;
                Ok(N::Ones)
            }
            0x0d => {
                self.pos += 1;
                let s = self.pos;
                while self.peek()? != 0 {
                    self.pos += 1;
                }
                let v = self.b[s..self.pos].to_vec();
                self.pos += 1;
                Ok(N::Str(v))
            }
            0x08 => {
                self.pos += 1;
                let n = self.name()?;
                Ok(N::NameDef(n, Box::new(self.term(limit)?)))
            }
            0x10 => {
                self.pos += 1;
                let end = self.pkg_end(limit)?;
                let n = self.name()?;
                Ok(N::Scope(n, self.list(end)?))
            }
            0x11 => {
                self.pos += 1;
                let end = self.pkg_end(limit)?;
                let size = self.term(end)?;
                let data = self.b[self.pos..end].to_vec();
                self.pos = end;
                Ok(N::Buffer(Box::new(size), data))
            }
            0x12 => {
                self.pos += 1;
                let end = self.pkg_end(limit)?;
                if self.pos >= end {
                    return Err(format!("package at {} has no NumElements byte inside its PkgLength", at));
                }
                let n = self.byte()?;
                Ok(N::Package(n, self.list(end)?))
            }
            0x13 => {
                self.pos += 1;
                let end = self.pkg_end(limit)?;
                let n = self.term(end)?;
                Ok(N::VarPackage(Box::new(n), self.list(end)?))
            }
            0x14 => {
                self.pos += 1;
                let end = self.pkg_end(limit)?;
                let n = self.name()?;
                let flags = self.byte()?;
                Ok(N::Method(n, flags, self.list(end)?))
            }
            0x5b => {
                let ext = *self.b.get(self.pos + 1).ok_or_else(|| format!("truncated extended opcode at {}", at))?;
                self.pos += 2;
                match ext {
                    0x01 => {
                        let n = self.name()?;
                        Ok(N::Mutex(n, self.byte()?))
                    }
                    0x13 => Ok(N::Op("CreateField", self.args(4, limit)?)),
                    0x23 => {
                        let n = self.name()?;
                        let t = self.word()?;
                        Ok(N::Op("Acquire", vec![N::Name(n), N::Int(t as u64)]))
                    }
                    0x27 => {
                        let n = self.name()?;
                        Ok(N::Op("Release", vec![N::Name(n)]))
                    }
                    0x80 => {
                        let n = self.name()?;
                        let sp = self.byte()?;
                        let o = self.term(limit)?;
                        let l = self.term(limit)?;
                        Ok(N::OpRegion(n, sp, Box::new(o), Box::new(l)))
                    }
                    0x81 => {
                        let end = self.pkg_end(limit)?;
                        let n = self.name()?;
                        let flags = self.byte()?;
                        let mut es = vec![];
                        while self.pos < end {
                            let c = self.peek()?;
                            if c == 0x00 {
                                self.pos += 1;
                                let (v, w, fmt) = pkg_decode(&self.b[self.pos..]).ok_or("truncated field width")?;
                                if !fmt {
                                    return Err(format!("field width at {} has reserved bits set", self.pos));
                                }
                                self.pos += w;
                                es.push(FE::Reserved(v));
                            } else if crate::codecs::is_lead(c) {
                                let s = self.b.get(self.pos..self.pos + 4).ok_or("truncated field name")?;
                                let nm = [s[0], s[1], s[2], s[3]];
                                self.pos += 4;
                                let (v, w, fmt) = pkg_decode(&self.b[self.pos..]).ok_or("truncated field width")?;
                                if !fmt {
                                    return Err(format!("field width at {} has reserved bits set", self.pos));
                                }
                                self.pos += w;
                                es.push(FE::Named(nm, v));
                            } else {
                                return Err(format!("unknown field element {:#04x} at {}", c, self.pos));
                            }
                        }
                        if self.pos != end {
                            return Err(format!("field list ends at {} but the Field object ends at {}", self.pos, end));
                        }
                        Ok(N::Field(n, flags, es))
                    }
                    0x82 => {
                        let end = self.pkg_end(limit)?;
                        let n = self.name()?;
                        Ok(N::Device(n, self.list(end)?))
                    }
                    0x84 => {
                        let end = self.pkg_end(limit)?;
                        let n = self.name()?;
                        let lvl = self.byte()?;
                        let ord = self.word()?;
                        Ok(N::PowerRes(n, lvl, ord, self.list(end)?))
                    }
                    x => Err(format!("unknown extended opcode 5B {:02X} at {}", x, at)),
                }
            }
            0x60..=0x67 => {
                self.pos += 1;
                Ok(N::Local(op - 0x60))
            }
            0x68..=0x6e => {
                self.pos += 1;
                Ok(N::Arg(op - 0x68))
            }
            0x70 => fixed(self, "Store", 2),
            0x72 => fixed(self, "Add", 3),
            0x73 => fixed(self, "Concat", 3),
            0x74 => fixed(self, "Subtract", 3),
            0x77 => fixed(self, "Multiply", 3),
            0x79 => fixed(self, "ShiftLeft", 3),
            0x7a => fixed(self, "ShiftRight", 3),
            0x7b => fixed(self, "And", 3),
            0x7c => fixed(self, "Nand", 3),
            0x7d => fixed(self, "Or", 3),
            0x7e => fixed(self, "Nor", 3),
            0x7f => fixed(self, "Xor", 3),
            0x83 => fixed(self, "DerefOf", 1),
            0x84 => fixed(self, "ConcatRes", 3),
            0x85 => fixed(self, "Mod", 3),
            0x86 => fixed(self, "Notify", 2),
            0x87 => fixed(self, "SizeOf", 1),
            0x88 => fixed(self, "Index", 3),
            0x8a => fixed(self, "CreateDWordField", 3),
            0x8e => fixed(self, "ObjectType", 1),
            0x8f => fixed(self, "CreateQWordField", 3),
            0x92 => fixed(self, "LNot", 1),
            0x93 => fixed(self, "LEqual", 2),
            0x94 => fixed(self, "LGreater", 2),
            0x95 => fixed(self, "LLess", 2),
            0x96 => fixed(self, "ToBuffer", 2),
            0x99 => fixed(self, "ToInteger", 2),
            0x9c => fixed(self, "ToString", 3),
            0x9e => fixed(self, "Mid", 4),
            0xa0 => {
                self.pos += 1;
                let end = self.pkg_end(limit)?;
                let p = self.term(end)?;
                Ok(N::If(Box::new(p), self.list(end)?))
            }
            0xa1 => {
                self.pos += 1;
                let end = self.pkg_end(limit)?;
                Ok(N::Else(self.list(end)?))
            }
            0xa2 => {
                self.pos += 1;
                let end = self.pkg_end(limit)?;
                let p = self.term(end)?;
                Ok(N::While(Box::new(p), self.list(end)?))
            }
            0xa4 => fixed(self, "Return", 1),
            c if c == b'\\' || c == b'^' || c == 0x2e || c == 0x2f || crate::codecs::is_lead(c) => {
                let n = self.name()?;
                // method invocation iff the caller declared this name as a method
                if let Some((_, ar)) = self.methods.iter().find(|(m, _)| *m == n) {
                    let a = self.args(*ar, limit)?;
                    Ok(N::Call(n, a))
                } else {
                    Ok(N::Name(n))
                }
            }
            x => Err(format!("unknown opcode {:#04x} at {}", x, at)),
        }
    }
}

/// Parse a complete stream as a term list.
pub fn parse_all(b: &[u8], methods: &[(NameStr, usize)]) -> Result<Vec<N>, String> {
    let mut p = Parser::new(b, methods);
    let v = p.list(b.len())?;
    Ok(v)
}
