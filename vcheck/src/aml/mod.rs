pub mod gen;
pub mod parse;
pub mod res;
pub mod tree;
