//! E4: bounded-exhaustive generation of AML term trees over all exported constructors.
use super::res::{AsKind, R};
use super::tree::{Carrier, T};

fn bx(t: &T) -> Box<T> {
    Box::new(t.clone())
}

/// filler set F (DESIGN.md C06)
pub fn fillers() -> Vec<T> {
    vec![
        T::Zero,
        T::Int(0x42, Carrier::U8),
        T::Int(0x1234, Carrier::U16),
        T::Path("\\_SB_.PCI0".into()),
        T::Local(3),
        T::Str("abc".into(), true),
        T::BufferData(vec![1, 2, 3, 4, 5]),
        T::Package(vec![T::One]),
        T::If(Box::new(T::Arg(0)), vec![T::Int(0x89ab_cdef, Carrier::U32)]),
        // a 64-bit constant: its encoder hands the value to the sink in one qword() call
        T::Int(0x0001_2345_6789_abcd, Carrier::U64),
    ]
}

pub struct FixedCtor {
    pub name: String,
    pub slots: usize,
    pub build: Box<dyn Fn(&[T]) -> T + Send + Sync>,
}
fn fc(name: &str, slots: usize, f: impl Fn(&[T]) -> T + Send + Sync + 'static) -> FixedCtor {
    FixedCtor { name: name.to_string(), slots, build: Box::new(f) }
}

/// every exported constructor with a fixed number of child slots
pub fn fixed_ctors() -> Vec<FixedCtor> {
    let mut v = vec![];
    v.push(fc("Name", 1, |c| T::Name("NAM0".into(), bx(&c[0]))));
    v.push(fc("Name(2seg)", 1, |c| T::Name("_SB_.NAM1".into(), bx(&c[0]))));
    v.push(fc("VarPackageTerm", 1, |c| T::VarPackage(bx(&c[0]))));
    v.push(fc("BufferTerm", 1, |c| T::BufferTerm(bx(&c[0]))));
    for sp in 0..10u8 {
        v.push(fc(&format!("OpRegion[{}]", sp), 2, move |c| T::OpRegion("REG0".into(), sp, bx(&c[0]), bx(&c[1]))));
    }
    v.push(fc("If", 2, |c| T::If(bx(&c[0]), vec![c[1].clone()])));
    v.push(fc("While", 2, |c| T::While(bx(&c[0]), vec![c[1].clone()])));
    for (k, n) in ["Equal", "LessThan", "GreaterThan", "NotEqual", "GreaterEqual", "LessEqual"].iter().enumerate() {
        v.push(fc(n, 2, move |c| T::Cmp(k as u8, bx(&c[0]), bx(&c[1]))));
    }
    v.push(fc("Store", 2, |c| T::Store(bx(&c[0]), bx(&c[1]))));
    v.push(fc("Notify", 2, |c| T::Notify(bx(&c[0]), bx(&c[1]))));
    for (k, (n, _)) in super::tree::UNARY.iter().enumerate() {
        v.push(fc(n, 1, move |c| T::Unary(k as u8, bx(&c[0]))));
    }
    for (k, (n, _)) in super::tree::BINARY.iter().enumerate() {
        v.push(fc(n, 3, move |c| T::Binary(k as u8, bx(&c[0]), bx(&c[1]), bx(&c[2]))));
    }
    for (k, (n, _)) in super::tree::CONVERT.iter().enumerate() {
        v.push(fc(n, 2, move |c| T::Convert(k as u8, bx(&c[0]), bx(&c[1]))));
    }
    v.push(fc("CreateField", 4, |c| T::CreateField(bx(&c[0]), bx(&c[1]), bx(&c[2]), bx(&c[3]))));
    v.push(fc("Mid", 4, |c| T::Mid(bx(&c[0]), bx(&c[1]), bx(&c[2]), bx(&c[3]))));
    v
}

pub struct ListCtor {
    pub name: String,
    pub build: Box<dyn Fn(Vec<T>) -> T + Send + Sync>,
}
fn lc(name: &str, f: impl Fn(Vec<T>) -> T + Send + Sync + 'static) -> ListCtor {
    ListCtor { name: name.to_string(), build: Box::new(f) }
}
/// constructors taking a child list
pub fn list_ctors() -> Vec<ListCtor> {
    let mut v = vec![];
    v.push(lc("Package", T::Package));
    v.push(lc("PackageBuilder", T::PackageBuilder));
    v.push(lc("Device", |c| T::Device("DEV0".into(), c)));
    v.push(lc("Device(rooted 3seg)", |c| T::Device("\\_SB_.PCI0.DEV1".into(), c)));
    v.push(lc("Scope", |c| T::Scope("_SB_".into(), c)));
    v.push(lc("Scope(rooted 2seg)", |c| T::Scope("\\_SB_.PCI0".into(), c)));
    v.push(lc("Scope::raw", |c| T::ScopeRaw("\\_SB_.PCI0".into(), c)));
    v.push(lc("Method", |c| T::Method("MTH0".into(), 2, true, c)));
    v.push(lc("Else", T::Else));
    v.push(lc("If.body", |c| T::If(Box::new(T::Local(0)), c)));
    v.push(lc("While.body", |c| T::While(Box::new(T::Local(1)), c)));
    v.push(lc("PowerResource", |c| T::PowerResource("PWR0".into(), 3, 0x1234, c)));
    v
}

/// the 12 length-prefixed kinds that can carry children (for nesting and size sweeps)
pub fn wrappers() -> Vec<ListCtor> {
    let mut v = list_ctors();
    v.retain(|c| !c.name.contains('('));
    v.push(lc("VarPackageTerm", |mut c| T::VarPackage(Box::new(c.pop().unwrap_or(T::Zero)))));
    v.push(lc("BufferTerm", |mut c| T::BufferTerm(Box::new(c.pop().unwrap_or(T::Zero)))));
    v
}

/// leaves and flag-bearing objects, each in every variant
pub fn leaves() -> Vec<(String, T)> {
    let mut v: Vec<(String, T)> = vec![];
    let mut p = |n: &str, t: T| v.push((n.to_string(), t));
    p("Zero", T::Zero);
    p("One", T::One);
    p("Ones", T::Ones);
    for (c, cn) in [(Carrier::U8, "u8"), (Carrier::U16, "u16"), (Carrier::U32, "u32"), (Carrier::U64, "u64"), (Carrier::Usize, "usize")] {
        for val in [0u64, 1, 2, 0x7f, 0xff, 0x100, 0xffff, 0x1_0000, 0xffff_ffff, 0x1_0000_0000, u64::MAX] {
            let fits = match c {
                Carrier::U8 => val <= 0xff,
                Carrier::U16 => val <= 0xffff,
                Carrier::U32 => val <= 0xffff_ffff,
                _ => true,
            };
            if fits {
                p(&format!("Int/{}", cn), T::Int(val, c));
            }
        }
    }
    for owned in [false, true] {
        for s in ["", "a", "Hello, AML", "0123456789012345678901234567890123456789012345678901234567890123456789"] {
            p(if owned { "String" } else { "&str" }, T::Str(s.to_string(), owned));
        }
    }
    for s in ["ABCD", "\\ABCD", "_SB_.PCI0", "\\_SB_.PCI0", "_SB_.PCI0.LNKA", "\\_SB_.PCI0.LNKA", "A___.B0__.C1_2.D345.E___", "\\Z999.Y888.X777.W666"] {
        p("Path", T::Path(s.to_string()));
    }
    // long paths (10 and 255 segments) on their own and as the name of named objects
    for nseg in [10usize, 255] {
        for rooted in [false, true] {
            let path: String = (if rooted { "\\".to_string() } else { String::new() }) + &(0..nseg).map(|i| format!("S{:03}", i % 1000)).collect::<Vec<_>>().join(".");
            p("Path", T::Path(path.clone()));
            p("Name(long path)", T::Name(path.clone(), Box::new(T::One)));
            p("Device(long path)", T::Device(path.clone(), vec![T::Zero]));
            p("Scope(long path)", T::Scope(path.clone(), vec![]));
            p("Scope::raw(long path)", T::ScopeRaw(path.clone(), vec![T::One]));
            p("Method(long path)", T::Method(path.clone(), 1, false, vec![]));
            p("MethodCall(long path)", T::MethodCall(path.clone(), vec![T::Local(0)]));
            p("Mutex(long path)", T::Mutex(path.clone(), 3));
            p("OpRegion(long path)", T::OpRegion(path.clone(), 0, Box::new(T::Zero), Box::new(T::One)));
            p("PowerResource(long path)", T::PowerResource(path.clone(), 1, 2, vec![]));
        }
    }
    p("Name::new_field_name", T::FieldName("FLD1".into()));
    for s in ["PNP0A03", "PNP0C0F", "ACPI0007", "QEMU0002", "AAA0000", "ZZZFFFF"] {
        if s.len() == 7 {
            p("EISAName", T::Eisa(s.to_string()));
        }
    }
    for s in ["33db4d5b-1ff7-401c-9657-7441c03dd766", "E5C937D0-3553-4D7A-9117-EA4D19C3434D", "00112233-4455-6677-8899-aabbccddeeff"] {
        p("Uuid", T::Uuid(s.to_string()));
    }
    for n in [0usize, 1, 2, 55, 56, 57, 58, 59, 60, 61, 62, 63, 64, 254, 255, 256, 257] {
        p("BufferData", T::BufferData((0..n).map(|i| (i * 7 + 1) as u8).collect()));
    }
    for i in 0..=6 {
        p("Arg", T::Arg(i));
    }
    for i in 0..=7 {
        p("Local", T::Local(i));
    }
    for path in ["MTX0", "\\_SB_.MTX1", "_SB_.PCI0.MTX2"] {
        for lvl in 0..=15u8 {
            p("Mutex", T::Mutex(path.to_string(), lvl));
        }
        for to in [0u16, 1, 0x1234, 0xffff, 0x00ff, 0xff00].into_iter().chain((0..16).map(|b| 1u16 << b)) {
            p("Acquire", T::Acquire(path.to_string(), to));
        }
        p("Release", T::Release(path.to_string()));
    }
    // Field: all access x lock x update combinations, entry lists over named/reserved and widths across the PkgLength classes
    let entry_sets: Vec<Vec<(Option<[u8; 4]>, usize)>> = vec![
        vec![],
        vec![(Some(*b"FLD0"), 8)],
        vec![(None, 3), (Some(*b"A___"), 1), (Some(*b"B_1_"), 63), (None, 64), (Some(*b"C2__"), 4095), (None, 4096), (Some(*b"D___"), 0x10_0000), (None, 0xfff_ffff)],
        vec![(None, 0), (None, 62), (Some(*b"ZZZZ"), 0xf_ffff)],
    ];
    for a in 0..6u8 {
        for l in 0..2u8 {
            for u in 0..3u8 {
                for (i, es) in entry_sets.iter().enumerate() {
                    if i >= 2 && (a + l + u) % 3 != 0 {
                        continue;
                    }
                    p("Field", T::Field(if i % 2 == 0 { "FLD0".into() } else { "\\_SB_.FLD1".into() }, a, l, u, es.clone()));
                }
            }
        }
    }
    for args in 0..=7u8 {
        for ser in [false, true] {
            p("Method(flags)", T::Method("MTHF".into(), args, ser, vec![T::Unary(2, Box::new(T::Arg(0)))]));
        }
    }
    for lvl in [0u8, 1, 5, 255] {
        for ord in [0u16, 1, 0x100, 0xffff] {
            p("PowerResource(args)", T::PowerResource("\\_SB_.PWR1".into(), lvl, ord, vec![]));
        }
    }
    // MethodCall with 0..7 arguments; each argument slot varied one at a time over F
    let f = fillers();
    for n in 0..=7usize {
        let base: Vec<T> = (0..n).map(|i| T::Local(i as u8)).collect();
        p("MethodCall", T::MethodCall(format!("\\_SB_.MC{:02}", n), base.clone()));
        for s in 0..n {
            for x in &f {
                let mut a = base.clone();
                a[s] = x.clone();
                p("MethodCall", T::MethodCall(format!("MC{:02}", n), a));
            }
        }
    }
    // a few resource templates inside the term families (C10 enumerates them fully)
    p("ResourceTemplate", T::ResTemplate(vec![]));
    p("ResourceTemplate", T::ResTemplate(vec![R::Mem32Fixed(true, 0xfed0_0000, 0x1000), R::Io(0x3f8, 0x3f8, 1, 8)]));
    p("ResourceTemplate", T::ResTemplate(vec![R::As16(AsKind::Bus, 0, 0xff, None), R::As64(AsKind::Memory(1, true), 0x1_0000_0000, 0x1_ffff_ffff, Some(0)), R::Interrupt(true, false, false, true, 33)]));
    v
}

/// all child lists of length 0..=3 over F
pub fn lists3() -> Vec<Vec<T>> {
    let f = fillers();
    let mut v: Vec<Vec<T>> = vec![vec![]];
    for a in &f {
        v.push(vec![a.clone()]);
        for b in &f {
            v.push(vec![a.clone(), b.clone()]);
            for c in &f {
                v.push(vec![a.clone(), b.clone(), c.clone()]);
            }
        }
    }
    v
}

/// canonical small instance of every constructor (for the (parent, slot, child) pair family)
pub fn canon() -> Vec<(String, T)> {
    let f1 = T::Int(0x42, Carrier::U8);
    let mut v: Vec<(String, T)> = vec![];
    for c in fixed_ctors() {
        let kids: Vec<T> = (0..c.slots).map(|_| f1.clone()).collect();
        v.push((c.name.clone(), (c.build)(&kids)));
    }
    for c in list_ctors() {
        v.push((c.name.clone(), (c.build)(vec![f1.clone()])));
    }
    let mut seen = std::collections::HashSet::new();
    for (n, t) in leaves() {
        if seen.insert(n.clone()) {
            v.push((n, t));
        }
    }
    v
}
