//! Oracle O5: decoders written from ACPI 6.5 ch. 19/20 — PkgLength, integer constants,
//! NameString, EISA id compression, ToUUID byte order. Shares no code with the crate.
use acpi_tables::AmlSink;

/// Fixed-capacity sink for sweeps (no allocation).
pub struct Small {
    pub buf: [u8; 24],
    pub n: usize,
}
impl Small {
    pub fn new() -> Self {
        Small { buf: [0; 24], n: 0 }
    }
    pub fn bytes(&self) -> &[u8] {
        &self.buf[..self.n.min(24)]
    }
}
impl AmlSink for Small {
    fn byte(&mut self, b: u8) {
        if self.n < 24 {
            self.buf[self.n] = b;
        }
        self.n += 1;
    }
}

/// ACPI 6.5 20.2.4: PkgLeadByte bits 7-6 = number of following bytes; one-byte form carries 0..63 in bits 5-0;
/// otherwise bits 3-0 are the low nibble, bits 5-4 must be zero, following bytes are successively more significant.
/// Returns (value, bytes consumed, format_ok).
pub fn pkg_decode(b: &[u8]) -> Option<(usize, usize, bool)> {
    let lead = *b.first()?;
    let follow = (lead >> 6) as usize;
    if b.len() < 1 + follow {
        return None;
    }
    if follow == 0 {
        return Some(((lead & 0x3f) as usize, 1, true));
    }
    let mut v = (lead & 0x0f) as usize;
    for i in 0..follow {
        v |= (b[1 + i] as usize) << (4 + 8 * i);
    }
    Some((v, 1 + follow, lead & 0x30 == 0))
}
/// largest total length a PkgLength of `w` bytes can express
pub fn pkg_cap(w: usize) -> usize {
    match w {
        1 => 63,
        2 => (1 << 12) - 1,
        3 => (1 << 20) - 1,
        _ => (1 << 28) - 1,
    }
}
/// shortest PkgLength width that can express content + its own size; None if not representable
pub fn pkg_width_inclusive(content: usize) -> Option<usize> {
    (1..=4).find(|w| content + w <= pkg_cap(*w))
}

/// ACPI 6.5 20.2.3: ZeroOp 0x00, OneOp 0x01, BytePrefix 0x0A, WordPrefix 0x0B, DWordPrefix 0x0C, QWordPrefix 0x0E;
/// OnesOp 0xFF is *not* produced for integers by this crate's integer impls. Returns (value, consumed).
pub fn int_decode(b: &[u8]) -> Option<(u64, usize)> {
    let le = |n: usize| -> Option<u64> {
        if b.len() < 1 + n {
            return None;
        }
        let mut v = 0u64;
        for i in 0..n {
            v |= (b[1 + i] as u64) << (8 * i);
        }
        Some(v)
    };
    match *b.first()? {
        0x00 => Some((0, 1)),
        0x01 => Some((1, 1)),
        0x0a => Some((le(1)?, 2)),
        0x0b => Some((le(2)?, 3)),
        0x0c => Some((le(4)?, 5)),
        0x0e => Some((le(8)?, 9)),
        _ => None,
    }
}
/// the narrowest encoding of `v`
pub fn int_encode(v: u64, out: &mut Vec<u8>) {
    match v {
        0 => out.push(0),
        1 => out.push(1),
        2..=0xff => {
            out.push(0x0a);
            out.push(v as u8);
        }
        0x100..=0xffff => {
            out.push(0x0b);
            out.extend_from_slice(&(v as u16).to_le_bytes());
        }
        0x1_0000..=0xffff_ffff => {
            out.push(0x0c);
            out.extend_from_slice(&(v as u32).to_le_bytes());
        }
        _ => {
            out.push(0x0e);
            out.extend_from_slice(&v.to_le_bytes());
        }
    }
}

pub fn is_lead(c: u8) -> bool {
    c.is_ascii_uppercase() || c == b'_'
}
pub fn is_namechar(c: u8) -> bool {
    is_lead(c) || c.is_ascii_digit()
}

#[derive(Clone, Debug, PartialEq, Eq)]
pub struct NameStr {
    pub rooted: bool,
    pub parents: usize,
    pub segs: Vec<[u8; 4]>,
}
/// ACPI 6.5 20.2.2 NameString := RootChar NamePath | PrefixPath NamePath;
/// NamePath := NameSeg | DualNamePath (0x2E) | MultiNamePath (0x2F SegCount) | NullName (0x00)
pub fn name_decode(b: &[u8]) -> Option<(NameStr, usize)> {
    let mut i = 0;
    let mut rooted = false;
    let mut parents = 0;
    if *b.first()? == b'\\' {
        rooted = true;
        i = 1;
    } else {
        while *b.get(i)? == b'^' {
            parents += 1;
            i += 1;
        }
    }
    let n = match *b.get(i)? {
        0x00 => {
            return Some((NameStr { rooted, parents, segs: vec![] }, i + 1));
        }
        0x2e => {
            i += 1;
            2
        }
        0x2f => {
            let c = *b.get(i + 1)? as usize;
            i += 2;
            if c == 0 {
                return None;
            }
            c
        }
        _ => 1,
    };
    let mut segs = vec![];
    for _ in 0..n {
        let s = b.get(i..i + 4)?;
        if !is_lead(s[0]) || !s[1..].iter().all(|c| is_namechar(*c)) {
            return None;
        }
        segs.push([s[0], s[1], s[2], s[3]]);
        i += 4;
    }
    Some((NameStr { rooted, parents, segs }, i))
}
/// reference NameString encoder for a path given as rootedness + segments
pub fn name_encode(rooted: bool, segs: &[[u8; 4]], out: &mut Vec<u8>) {
    if rooted {
        out.push(b'\\');
    }
    match segs.len() {
        1 => {}
        2 => out.push(0x2e),
        n => {
            out.push(0x2f);
            out.push(n as u8);
        }
    }
    for s in segs {
        out.extend_from_slice(s);
    }
}

/// ACPI 6.5 19.3.4 ASL macro EISAID: 3 letters packed 5 bits each (letter - 0x40) in bits 14..0 of the first
/// big-endian 16-bit half, then 4 hex digits; stored byte-swapped as a 32-bit integer.
/// Inverse: takes the 32-bit integer value as encoded in AML, returns the 7-character id.
pub fn eisa_decompress(v: u32) -> [u8; 7] {
    let be = v.swap_bytes();
    let hexd = |x: u32| b"0123456789ABCDEF"[(x & 0xf) as usize];
    [
        (((be >> 26) & 0x1f) as u8) + 0x40,
        (((be >> 21) & 0x1f) as u8) + 0x40,
        (((be >> 16) & 0x1f) as u8) + 0x40,
        hexd(be >> 12),
        hexd(be >> 8),
        hexd(be >> 4),
        hexd(be),
    ]
}

/// ACPI 6.5 19.6.142 ToUUID: "aabbccdd-eeff-gghh-iijj-kkllmmnnoopp" -> dd cc bb aa ff ee hh gg ii jj kk ll mm nn oo pp.
/// Inverse: 16 buffer bytes -> canonical lower-case string.
pub fn uuid_from_buffer(b: &[u8; 16]) -> String {
    let order = [3, 2, 1, 0, 5, 4, 7, 6, 8, 9, 10, 11, 12, 13, 14, 15];
    let mut s = String::new();
    for (n, i) in order.iter().enumerate() {
        if n == 4 || n == 6 || n == 8 || n == 10 {
            s.push('-');
        }
        s.push_str(&format!("{:02x}", b[*i]));
    }
    s
}

/// EISAID compression written from the ASL macro definition (ACPI 6.5 19.3.4): returns the 32-bit integer value in AML
pub fn eisa_compress(id: &[u8; 7]) -> u32 {
    let hv = |c: u8| (c as char).to_digit(16).unwrap_or(0);
    let b0 = (((id[0] - 0x40) as u32) << 2) | (((id[1] - 0x40) as u32) >> 3);
    let b1 = ((((id[1] - 0x40) as u32) & 7) << 5) | ((id[2] - 0x40) as u32);
    let b2 = (hv(id[3]) << 4) | hv(id[4]);
    let b3 = (hv(id[5]) << 4) | hv(id[6]);
    // byte 0 is the least significant byte of the DWord
    b0 | (b1 << 8) | (b2 << 16) | (b3 << 24)
}

/// ToUUID byte order (ACPI 6.5 19.6.142)
pub fn uuid_to_buffer(s: &str) -> Option<[u8; 16]> {
    let h: Vec<u8> = s.bytes().filter(|c| *c != b'-').collect();
    if h.len() != 32 {
        return None;
    }
    let byte = |i: usize| -> Option<u8> { Some(((h[2 * i] as char).to_digit(16)? as u8) << 4 | (h[2 * i + 1] as char).to_digit(16)? as u8) };
    // string byte index -> buffer offset
    let order = [3, 2, 1, 0, 5, 4, 7, 6, 8, 9, 10, 11, 12, 13, 14, 15];
    let mut out = [0u8; 16];
    for (str_i, off) in order.iter().enumerate() {
        out[*off] = byte(str_i)?;
    }
    Some(out)
}
