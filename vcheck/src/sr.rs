//! E1: explicit-state search with stateright over closures that drive the real crate.
use stateright::{Checker, HasDiscoveries, Model, Property};
use std::fmt::Debug;
use std::hash::Hash;
use std::sync::atomic::{AtomicU64, Ordering};
use std::sync::Arc;

pub struct FnModel<S, A> {
    pub init: Vec<S>,
    pub actions: Arc<dyn Fn(&S, &mut Vec<A>) + Send + Sync>,
    pub next: Arc<dyn Fn(&S, &A) -> Option<S> + Send + Sync>,
    /// true = state satisfies the oracle (or is a listed known finding)
    pub judge: Arc<dyn Fn(&S) -> bool + Send + Sync>,
    pub boundary: Arc<dyn Fn(&S) -> bool + Send + Sync>,
    pub transitions: Arc<AtomicU64>,
}

impl<S, A> Model for FnModel<S, A>
where
    S: Clone + Hash + Eq + Debug + Send + Sync + 'static,
    A: Clone + Debug + PartialEq + Send + Sync + 'static,
{
    type State = S;
    type Action = A;
    fn init_states(&self) -> Vec<S> {
        self.init.clone()
    }
    fn actions(&self, s: &S, out: &mut Vec<A>) {
        (self.actions)(s, out)
    }
    fn next_state(&self, s: &S, a: A) -> Option<S> {
        self.transitions.fetch_add(1, Ordering::Relaxed);
        (self.next)(s, &a)
    }
    fn properties(&self) -> Vec<Property<Self>> {
        vec![Property::always("oracle", |m: &Self, s: &S| (m.judge)(s))]
    }
    fn within_boundary(&self, s: &S) -> bool {
        (self.boundary)(s)
    }
}

pub struct Outcome {
    pub generated: u64,
    pub unique: u64,
    pub max_depth: u64,
    pub transitions: u64,
    pub failed: bool,
    pub capped: bool,
}

/// Run to closure (or until the first state the judge rejects). `cap` bounds unique states.
pub fn explore<S, A>(m: FnModel<S, A>, threads: usize, dfs: bool, cap: usize) -> Outcome
where
    S: Clone + Hash + Eq + Debug + Send + Sync + 'static,
    A: Clone + Debug + PartialEq + Send + Sync + 'static,
{
    let tr = m.transitions.clone();
    let b = m
        .checker()
        .threads(threads)
        .finish_when(HasDiscoveries::AnyFailures)
        .target_state_count(cap);
    let (generated, unique, max_depth, failed) = if dfs {
        let c = b.spawn_dfs().join();
        (c.state_count(), c.unique_state_count(), c.max_depth(), c.discovery("oracle").is_some())
    } else {
        let c = b.spawn_bfs().join();
        (c.state_count(), c.unique_state_count(), c.max_depth(), c.discovery("oracle").is_some())
    };
    Outcome {
        generated: generated as u64,
        unique: unique as u64,
        max_depth: max_depth as u64,
        transitions: tr.load(Ordering::Relaxed),
        failed,
        capped: unique >= cap,
    }
}
