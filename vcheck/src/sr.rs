//! E1: explicit-state search with stateright over closures that drive the real crate.
//! A node carries a hashed canonical `key` (what the property can observe), an unhashed `aux`
//! (the operation history needed to rebuild the real object) and a `bad` flag set by the oracle
//! when the *transition* that produced it was judged — so a wrong step cannot hide behind a
//! state that was first reached correctly.
use stateright::{Checker, HasDiscoveries, Model, Property};
use std::fmt::Debug;
use std::hash::{Hash, Hasher};
use std::sync::atomic::{AtomicU64, Ordering};
use std::sync::Arc;

#[derive(Clone, Debug)]
pub struct Node<K, A> {
    pub key: K,
    pub aux: A,
    pub bad: bool,
}
impl<K: Hash, A> Hash for Node<K, A> {
    fn hash<H: Hasher>(&self, h: &mut H) {
        self.key.hash(h);
        self.bad.hash(h);
    }
}
impl<K: PartialEq, A> PartialEq for Node<K, A> {
    fn eq(&self, o: &Self) -> bool {
        self.key == o.key && self.bad == o.bad
    }
}
impl<K: Eq, A> Eq for Node<K, A> {}

pub struct FnModel<K, A, Act> {
    pub init: Vec<Node<K, A>>,
    pub actions: Arc<dyn Fn(&Node<K, A>, &mut Vec<Act>) + Send + Sync>,
    /// execute one action on the real code; returns the successor (with `bad` set by the oracle) or None if not enabled
    pub step: Arc<dyn Fn(&Node<K, A>, &Act) -> Option<Node<K, A>> + Send + Sync>,
    pub boundary: Arc<dyn Fn(&Node<K, A>) -> bool + Send + Sync>,
    pub transitions: Arc<AtomicU64>,
}

impl<K, A, Act> Model for FnModel<K, A, Act>
where
    K: Clone + Hash + Eq + Debug + Send + Sync + 'static,
    A: Clone + Debug + Send + Sync + 'static,
    Act: Clone + Debug + PartialEq + Send + Sync + 'static,
{
    type State = Node<K, A>;
    type Action = Act;
    fn init_states(&self) -> Vec<Self::State> {
        self.init.clone()
    }
    fn actions(&self, s: &Self::State, out: &mut Vec<Act>) {
        if !s.bad {
            (self.actions)(s, out)
        }
    }
    fn next_state(&self, s: &Self::State, a: Act) -> Option<Self::State> {
        self.transitions.fetch_add(1, Ordering::Relaxed);
        (self.step)(s, &a)
    }
    fn properties(&self) -> Vec<Property<Self>> {
        vec![Property::always("oracle", |_m: &Self, s: &Self::State| !s.bad)]
    }
    fn within_boundary(&self, s: &Self::State) -> bool {
        (self.boundary)(s)
    }
}

pub struct Outcome {
    pub generated: u64,
    pub unique: u64,
    pub max_depth: u64,
    pub transitions: u64,
    pub failed: bool,
    pub capped: bool,
}

/// Run to closure. `cap` bounds the number of *generated* states (stateright's target_state_count). `stop_on_fail` = stop at the first failing transition (used where a drifting hidden
/// accumulator could blow the space up); otherwise every transition of the closure is judged.
pub fn explore<K, A, Act>(m: FnModel<K, A, Act>, threads: usize, dfs: bool, cap: usize, stop_on_fail: bool) -> Outcome
where
    K: Clone + Hash + Eq + Debug + Send + Sync + 'static,
    A: Clone + Debug + Send + Sync + 'static,
    Act: Clone + Debug + PartialEq + Send + Sync + 'static,
{
    let tr = m.transitions.clone();
    let mut b = m.checker().threads(threads).target_state_count(cap);
    b = if stop_on_fail { b.finish_when(HasDiscoveries::AnyFailures) } else { b.finish_when(HasDiscoveries::AllOf(["never"].into_iter().collect())) };
    let (generated, unique, max_depth, failed) = if dfs {
        let c = b.spawn_dfs().join();
        (c.state_count(), c.unique_state_count(), c.max_depth(), c.discovery("oracle").is_some())
    } else {
        let c = b.spawn_bfs().join();
        (c.state_count(), c.unique_state_count(), c.max_depth(), c.discovery("oracle").is_some())
    };
    Outcome { generated: generated as u64, unique: unique as u64, max_depth: max_depth as u64, transitions: tr.load(Ordering::Relaxed), failed, capped: generated >= cap }
}
