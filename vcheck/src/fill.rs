//! Argument values for builder programs. A `Fill` is a total function field-index -> value:
//! a base pattern plus up to six single-field overrides (the "deviations" of DESIGN.md C04).
//! Both the real-crate driver and the reference encoder read the *same* caller values from it;
//! they differ (and are independent) only in where they put them.
use crate::util::splitmix;
use serde_json::{json, Value};

pub const NONE: u8 = 255;
/// base pattern in which every field holds the same value (every byte 0x5a): arguments equal to each other
pub const EQUAL: u8 = 9;
/// base patterns made of characters a normalising helper would touch: lower-case ASCII letters, and blanks / tabs / newlines
pub const LOWER: u8 = 10;
pub const BLANK: u8 = 11;
fn lower_byte(i: u8, j: u8) -> u8 {
    b'a' + (i.wrapping_mul(7).wrapping_add(j.wrapping_mul(3))) % 26
}
fn blank_byte(i: u8, j: u8) -> u8 {
    [0x20u8, 0x09, 0x0a, 0x0d][((i as usize) + (j as usize)) % 4]
}
fn bytes_u64(f: impl Fn(u8) -> u8) -> u64 {
    (0..8).fold(0u64, |v, j| v | (f(j) as u64) << (8 * j))
}
/// override indices that are not argument fields: explicit sizes for the size-sweep programs
pub const SZ: u8 = 200;
pub const SX: u8 = 201;

/// characters a normalising helper would touch, appended (index < 8) or prepended (index >= 8) to generated strings
pub const TAILS: [&str; 8] = ["", " ", "\n", "  ", "\t", "\r\n", "\0", " \n "];
/// a string of `n` characters cycling through `base`, with tail/head `t` (see TAILS)
pub fn gen_string(base: &str, n: usize, t: usize) -> String {
    let body: String = if base.is_empty() { String::new() } else { base.chars().cycle().take(n).collect() };
    let x = TAILS[t % 8];
    if t % 16 >= 8 {
        format!("{}{}", x, body)
    } else {
        format!("{}{}", body, x)
    }
}

#[derive(Clone, Copy, PartialEq, Eq, Hash, Debug)]
pub struct Fill {
    pub base: u8,
    pub o: [(u8, u64); 6],
}

impl Fill {
    pub const fn b(base: u8) -> Fill {
        Fill { base, o: [(NONE, 0); 6] }
    }
    pub fn with(mut self, idx: u8, v: u64) -> Fill {
        for slot in self.o.iter_mut() {
            if slot.0 == NONE || slot.0 == idx {
                *slot = (idx, v);
                return self;
            }
        }
        panic!("Fill: more than 6 overrides");
    }
    /// explicit size / count of a variable-size entry (override index SZ), when the program sets one
    pub fn size(&self) -> Option<usize> {
        self.over(SZ).map(|v| v as usize)
    }
    /// second size-like parameter (override index SX): second matrix dimension, string tail selector, ...
    pub fn size2(&self) -> Option<usize> {
        self.over(SX).map(|v| v as usize)
    }
    fn over(&self, i: u8) -> Option<u64> {
        self.o.iter().find(|x| x.0 == i).map(|x| x.1)
    }
    /// raw value of field `i` with `bits` width
    pub fn raw(&self, i: u8, bits: u32) -> u64 {
        let mask = if bits >= 64 { u64::MAX } else { (1u64 << bits) - 1 };
        if let Some(v) = self.over(i) {
            return v & mask;
        }
        let v = match self.base {
            0 => 0,
            1 => u64::MAX,
            2 => pattern(i, 0),
            3 => pattern(i, 0x80),
            EQUAL => 0x5a5a_5a5a_5a5a_5a5a,
            LOWER => bytes_u64(|j| lower_byte(i, j)),
            BLANK => bytes_u64(|j| blank_byte(i, j)),
            b => splitmix(((b as u64) << 8) | i as u64),
        };
        v & mask
    }
    pub fn u8(&self, i: u8) -> u8 {
        self.raw(i, 8) as u8
    }
    pub fn u16(&self, i: u8) -> u16 {
        self.raw(i, 16) as u16
    }
    pub fn u32(&self, i: u8) -> u32 {
        self.raw(i, 32) as u32
    }
    pub fn u64(&self, i: u8) -> u64 {
        self.raw(i, 64)
    }
    pub fn bool(&self, i: u8) -> bool {
        if let Some(v) = self.over(i) {
            return v & 1 == 1;
        }
        match self.base {
            0 => false,
            1 => true,
            2 => i % 2 == 1,
            3 => i % 2 == 0,
            EQUAL => true,
            LOWER => i % 3 == 0,
            BLANK => i % 3 == 1,
            b => splitmix(((b as u64) << 8) | i as u64) & 1 == 1,
        }
    }
    /// enumerated / range-limited field: a value in 0..n
    pub fn e(&self, i: u8, n: usize) -> usize {
        if let Some(v) = self.over(i) {
            return (v % n as u64) as usize;
        }
        match self.base {
            0 => 0,
            1 => n - 1,
            2 => (i as usize + 1) % n,
            3 => (i as usize + 2) % n,
            EQUAL => 1 % n,
            LOWER => (i as usize * 5 + 2) % n,
            BLANK => (i as usize * 3 + 1) % n,
            b => (splitmix(((b as u64) << 8) | i as u64) % n as u64) as usize,
        }
    }
    pub fn arr<const N: usize>(&self, i: u8) -> [u8; N] {
        let mut a = [0u8; N];
        if let Some(v) = self.over(i) {
            for j in 0..N {
                a[j] = if j < 8 { (v >> (8 * j)) as u8 } else { (v >> (8 * (j % 8))) as u8 ^ j as u8 };
            }
            return a;
        }
        for j in 0..N {
            a[j] = match self.base {
                0 => 0,
                1 => 0xff,
                2 => pat_byte(i, j as u8, 0),
                3 => pat_byte(i, j as u8, 0x80),
                EQUAL => 0x5a,
                LOWER => lower_byte(i, j as u8),
                BLANK => blank_byte(i, j as u8),
                b => splitmix(((b as u64) << 16) | ((i as u64) << 8) | j as u64) as u8,
            };
        }
        a
    }
    pub fn json(&self) -> Value {
        if self.o[0].0 == NONE {
            json!(self.base)
        } else {
            let mut a = vec![json!(self.base)];
            for x in self.o.iter().filter(|x| x.0 != NONE) {
                a.push(json!([x.0, x.1]));
            }
            Value::Array(a)
        }
    }
    pub fn from_json(v: &Value) -> Option<Fill> {
        if let Some(b) = v.as_u64() {
            return Some(Fill::b(b as u8));
        }
        let a = v.as_array()?;
        let mut f = Fill::b(a.first()?.as_u64()? as u8);
        for x in a.iter().skip(1) {
            let p = x.as_array()?;
            f = f.with(p[0].as_u64()? as u8, p[1].as_u64()?);
        }
        Some(f)
    }
}

fn pat_byte(i: u8, j: u8, flip: u8) -> u8 {
    let b = if i < 14 {
        0x11u8.wrapping_add(0x10u8.wrapping_mul(i)).wrapping_add(j)
    } else if i < 28 {
        0x19u8.wrapping_add(0x10u8.wrapping_mul(i - 14)).wrapping_add(j)
    } else {
        splitmix(((i as u64) << 8) | j as u64) as u8 | 1
    };
    b ^ flip
}
fn pattern(i: u8, flip: u8) -> u64 {
    let mut v = 0u64;
    for j in 0..8 {
        v |= (pat_byte(i, j, flip) as u64) << (8 * j);
    }
    v
}

/// One builder operation: kind, a small shape parameter (sub-element counts, option masks,
/// handle selectors) and the argument values.
#[derive(Clone, Copy, PartialEq, Eq, Hash, Debug)]
pub struct Op {
    pub k: u8,
    pub shape: u16,
    pub fill: Fill,
}
impl Op {
    pub const fn new(k: u8, shape: u16, base: u8) -> Op {
        Op { k, shape, fill: Fill::b(base) }
    }
    pub fn json(&self, names: &[&str]) -> Value {
        json!({"op": names.get(self.k as usize).copied().unwrap_or("?"), "k": self.k, "shape": self.shape, "fill": self.fill.json()})
    }
    pub fn from_json(v: &Value) -> Option<Op> {
        Some(Op { k: v["k"].as_u64()? as u8, shape: v["shape"].as_u64()? as u16, fill: Fill::from_json(&v["fill"])? })
    }
}

/// Constructor arguments: header variant, a table-specific parameter, and values.
#[derive(Clone, Copy, PartialEq, Eq, Hash, Debug)]
pub struct Ctor {
    pub hv: u8,
    pub p: u32,
    pub fill: Fill,
}
impl Ctor {
    pub const fn new(hv: u8, p: u32, base: u8) -> Ctor {
        Ctor { hv, p, fill: Fill::b(base) }
    }
    /// header variants: 0 zeros, 1 all-ones, 2 distinct upper-case bytes; 3 lower-case letters, 4 blank-padded,
    /// 5 NUL-padded, 6 blanks / tab / newline / NUL mixed (identifiers a clean-up helper would touch)
    pub fn oem_id(&self) -> [u8; 6] {
        match self.hv {
            0 => [0; 6],
            1 => [0xff; 6],
            3 => *b"verif1",
            4 => *b"AB    ",
            5 => *b"AB\0\0\0\0",
            6 => *b" a\tB\n\0",
            _ => *b"VERIF1",
        }
    }
    pub fn oem_table_id(&self) -> [u8; 8] {
        match self.hv {
            0 => [0; 8],
            1 => [0xff; 8],
            3 => *b"veriftbl",
            4 => *b"TBL     ",
            5 => *b"TBL\0\0\0\0\0",
            6 => *b"\0t B\r\n z",
            _ => *b"VERIFTBL",
        }
    }
    pub fn oem_rev(&self) -> u32 {
        match self.hv {
            0 => 0,
            1 => 0xffff_ffff,
            3 => 0x6463_6261,
            4 => 0x2020_2020,
            5 => 1,
            6 => 0x0a0d_0920,
            _ => 0x0403_0201,
        }
    }
    pub fn json(&self) -> Value {
        json!({"hv": self.hv, "p": self.p, "fill": self.fill.json()})
    }
    pub fn from_json(v: &Value) -> Option<Ctor> {
        Some(Ctor { hv: v["hv"].as_u64()? as u8, p: v["p"].as_u64()? as u32, fill: Fill::from_json(&v["fill"])? })
    }
}

/// symbolic handle selector -> index among `n` handles returned so far
pub fn sel(s: u16, n: usize) -> usize {
    debug_assert!(n > 0);
    match s {
        7 => n - 1,
        6 => n / 2,
        k => (k as usize) % n,
    }
}
