//! MADT and its 11 interrupt-controller structures (ACPI 6.5 5.2.12, 6.6 RISC-V entries).
use super::simple::fills;
use super::*;
use crate::fill::{Ctor, Fill, Op};
use crate::util::W;
use acpi_tables::madt::*;

pub struct Madt;

pub const K_LAPIC: u8 = 0;
pub const K_IOAPIC: u8 = 1;
pub const K_GICC: u8 = 2;
pub const K_GICD: u8 = 3;
pub const K_GICMSI: u8 = 4;
pub const K_GICR: u8 = 5;
pub const K_GICITS: u8 = 6;
pub const K_RINTC: u8 = 7;
pub const K_IMSIC_ONCE: u8 = 8;
pub const K_APLIC: u8 = 9;
pub const K_PLIC: u8 = 10;
pub const K_IMSIC: u8 = 11;
/// a structure obtained through a derived `Default` (16 zero bytes: not self-describing, C03 does not judge it)
pub const K_DEFAULT: u8 = 12;

fn status(i: usize) -> EnabledStatus {
    [EnabledStatus::Disabled, EnabledStatus::Enabled, EnabledStatus::DisabledOnlineCapable][i]
}
fn trig(i: usize) -> Trigger {
    [Trigger::Edge, Trigger::Level][i]
}

/// shape bits: 1 = plain setters, 2 = performance interrupt, 4 = maintenance interrupt, 8 = apply everything in reverse order
/// size of the Default-derived structure selected by a K_DEFAULT shape
pub fn default_len(shape: u16) -> usize {
    use core::mem::size_of;
    match shape % 9 {
        0 => size_of::<Gicr>(),
        1 => size_of::<ProcessorLocalApic>(),
        2 => size_of::<IoApic>(),
        3 => size_of::<Gicc>(),
        4 => size_of::<Gicd>(),
        5 => size_of::<GicMsi>(),
        6 => size_of::<GicIts>(),
        7 => size_of::<RINTC>(),
        _ => size_of::<IMSIC>(),
    }
}
pub fn real_gicc(f: &Fill, shape: u16) -> Gicc {
    let mut g = Gicc::new(status(f.e(0, 3)));
    let mut steps: Vec<u8> = vec![];
    if shape & 1 != 0 {
        steps.extend(0..12u8);
    }
    if shape & 2 != 0 {
        steps.push(12);
    }
    if shape & 4 != 0 {
        steps.push(13);
    }
    if shape & 8 != 0 {
        steps.reverse();
    }
    if shape & 16 != 0 {
        // every option applied twice with the same arguments: a repeated write to the same cell changes nothing
        steps = steps.iter().flat_map(|s| [*s, *s]).collect();
    }
    for st in steps {
        g = match st {
            0 => g.cpu_interface_number(f.u32(1)),
            1 => g.acpi_processor_uid(f.u32(2)),
            2 => g.parking_protocol_version(f.u32(3)),
            3 => g.parked_address(f.u64(6)),
            4 => g.base_address(f.u64(7)),
            5 => g.virtual_registers(f.u64(8)),
            6 => g.control_block_registers(f.u64(9)),
            7 => g.redistributor_base(f.u64(12)),
            8 => g.mpidr(f.u64(13)),
            9 => g.power_efficiency_class(f.u8(14)),
            10 => g.overflow_interrupt(f.u16(15)),
            11 => g.trbe_interrupt(f.u16(16)),
            12 => g.performance_interrupt(f.u32(4), trig(f.e(5, 2))),
            _ => g.maintenance_interrupt(f.u32(10), trig(f.e(11, 2))),
        };
    }
    g
}
/// ACPI 6.5 table 5.36 (GICC, 82 bytes). Flags: bit0 enabled, bit1 perf-int edge, bit2 VGIC maint edge, bit3 online capable
pub fn ref_gicc(w: &mut W, f: &Fill, shape: u16) {
    let s = shape & 1 != 0;
    let p = shape & 2 != 0;
    let m = shape & 4 != 0;
    let mut flags = match f.e(0, 3) {
        0 => 0u32,
        1 => 1,
        _ => 8,
    };
    if p && f.e(5, 2) == 0 {
        flags |= 2;
    }
    if m && f.e(11, 2) == 0 {
        flags |= 4;
    }
    let z = |c: bool, v: u64| if c { v } else { 0 };
    w.u8(0xb).u8(82).u16(0);
    w.u32(z(s, f.u32(1) as u64) as u32).u32(z(s, f.u32(2) as u64) as u32).u32(flags);
    w.u32(z(s, f.u32(3) as u64) as u32).u32(z(p, f.u32(4) as u64) as u32);
    w.u64(z(s, f.u64(6))).u64(z(s, f.u64(7))).u64(z(s, f.u64(8))).u64(z(s, f.u64(9)));
    w.u32(z(m, f.u32(10) as u64) as u32).u64(z(s, f.u64(12))).u64(z(s, f.u64(13)));
    w.u8(z(s, f.u8(14) as u64) as u8).u8(0).u16(z(s, f.u16(15) as u64) as u16).u16(z(s, f.u16(16) as u64) as u16);
}

pub fn real_gicmsi(f: &Fill, shape: u16) -> GicMsi {
    let mut g = GicMsi::new().gic_msi_frame_id(f.u32(0)).base_addr(f.u64(1));
    if shape & 1 != 0 {
        g = g.spi_count_and_base(f.u16(2), f.u16(3));
    }
    g
}
/// ACPI 6.5 table 5.39: flags bit0 = SPI Count/Base Select: 1 = the SPI count/base fields override the hardware's
pub fn ref_gicmsi(w: &mut W, f: &Fill, shape: u16) {
    let s = shape & 1 != 0;
    w.u8(0xd).u8(24).u16(0).u32(f.u32(0)).u64(f.u64(1)).u32(if s { 1 } else { 0 });
    w.u16(if s { f.u16(2) } else { 0 }).u16(if s { f.u16(3) } else { 0 });
}

pub fn real_imsic(f: &Fill) -> IMSIC {
    IMSIC::new(f.u16(0), f.u16(1), f.u8(2), f.u8(3), f.u8(4), f.u8(5))
}

pub fn ref_entry(w: &mut W, op: &Op) {
    let f = &op.fill;
    match op.k {
        K_LAPIC => {
            // type 0, length 8, ACPI processor UID, APIC id, flags (bit0 enabled, bit1 online capable)
            w.u8(0).u8(8).u8(f.u8(0)).u8(f.u8(1)).u32(f.e(2, 3) as u32);
        }
        K_IOAPIC => {
            w.u8(1).u8(12).u8(f.u8(0)).u8(0).u32(f.u32(1)).u32(f.u32(2));
        }
        K_GICC => ref_gicc(w, f, op.shape),
        K_GICD => {
            // type 0xC, 24: reserved(2) GIC id(4) base(8) vector base(4)=0 version(1) reserved(3)
            w.u8(0xc).u8(24).u16(0).u32(f.u32(0)).u64(f.u64(1)).u32(0).u8(f.e(2, 5) as u8).z(3);
        }
        K_GICMSI => ref_gicmsi(w, f, op.shape),
        K_GICR => {
            w.u8(0xe).u8(16).u16(0).u64(f.u64(0)).u32(f.u32(1));
        }
        K_GICITS => {
            w.u8(0xf).u8(20).u16(0).u32(f.u32(0)).u64(f.u64(1)).u32(0);
        }
        K_RINTC => {
            // type 0x18, 36, version 1, reserved, flags(4), hart id(8), uid(4), ext intc id(4), imsic base(8), imsic size(4)
            w.u8(0x18).u8(36).u8(1).u8(0).u32(f.e(0, 3) as u32).u64(f.u64(1)).u32(f.u32(2)).u32(f.u32(3)).u64(f.u64(4)).u32(f.u32(5));
        }
        K_IMSIC_ONCE | K_IMSIC => {
            // type 0x19, 16, version 1, reserved(1), flags(4)=0, S ids(2), G ids(2), guest/hart/group bits, group shift
            w.u8(0x19).u8(16).u8(1).u8(0).u32(0).u16(f.u16(0)).u16(f.u16(1)).u8(f.u8(2)).u8(f.u8(3)).u8(f.u8(4)).u8(f.u8(5));
        }
        K_APLIC => {
            // type 0x1A, 36, version 1, id, flags(4)=0, hw id(8), IDCs(2), sources(2), GSI base(4), address(8), size(4)
            w.u8(0x1a).u8(36).u8(1).u8(f.u8(0)).u32(0).b(&f.arr::<8>(1)).u16(f.u16(2)).u16(f.u16(6)).u32(f.u32(3)).u64(f.u64(4)).u32(f.u32(5));
        }
        K_DEFAULT => {
            w.z(default_len(op.shape));
        }
        K_PLIC => {
            // type 0x1B, 36, version 1, id, hw id(8), sources(2), max priority(2), flags(4)=0, size(4), address(8), GSI base(4)
            w.u8(0x1b).u8(36).u8(1).u8(f.u8(0)).b(&f.arr::<8>(1)).u16(f.u16(2)).u16(f.u16(3)).u32(0).u32(f.u32(4)).u64(f.u64(5)).u32(f.u32(6));
        }
        _ => unreachable!(),
    }
}

pub fn type_code(k: u8) -> u32 {
    [0, 1, 0xb, 0xc, 0xd, 0xe, 0xf, 0x18, 0x19, 0x1a, 0x1b, 0x19, 0][k as usize]
}

pub fn apply(t: &mut MADT, op: &Op) {
    let f = &op.fill;
    match op.k {
        K_LAPIC => t.add_structure(ProcessorLocalApic::new(f.u8(0), f.u8(1), status(f.e(2, 3)))),
        K_IOAPIC => t.add_structure(IoApic::new(f.u8(0), f.u32(1), f.u32(2))),
        K_GICC => t.add_structure(real_gicc(f, op.shape)),
        K_GICD => t.add_structure(Gicd::new(
            f.u32(0),
            f.u64(1),
            [GicVersion::Unspecified, GicVersion::GICv1, GicVersion::GICv2, GicVersion::GICv3, GicVersion::GICv4][f.e(2, 5)],
        )),
        K_GICMSI => t.add_structure(real_gicmsi(f, op.shape)),
        K_GICR => t.add_structure(Gicr::new(f.u64(0), f.u32(1))),
        K_GICITS => t.add_structure(GicIts::new(f.u32(0), f.u64(1))),
        K_RINTC => t.add_structure(RINTC::new(
            [HartStatus::Disabled, HartStatus::Enabled, HartStatus::OnlineCapable][f.e(0, 3)],
            f.u64(1),
            f.u32(2),
            f.u32(3),
            f.u64(4),
            f.u32(5),
        )),
        K_IMSIC_ONCE => t.add_imsic(real_imsic(f)),
        K_IMSIC => t.add_structure(real_imsic(f)),
        K_APLIC => t.add_structure(APLIC::new(f.u8(0), f.arr::<8>(1), f.u16(2), f.u32(3), f.u64(4), f.u32(5), f.u16(6))),
        K_DEFAULT => match op.shape % 9 {
            0 => t.add_structure(Gicr::default()),
            1 => t.add_structure(ProcessorLocalApic::default()),
            2 => t.add_structure(IoApic::default()),
            3 => t.add_structure(Gicc::default()),
            4 => t.add_structure(Gicd::default()),
            5 => t.add_structure(GicMsi::default()),
            6 => t.add_structure(GicIts::default()),
            7 => t.add_structure(RINTC::default()),
            _ => t.add_structure(IMSIC::default()),
        },
        K_PLIC => t.add_structure(PLIC::new(f.u8(0), f.arr::<8>(1), f.u16(2), f.u16(3), f.u32(4), f.u64(5), f.u32(6))),
        _ => unreachable!(),
    }
}

impl Table for Madt {
    fn name(&self) -> &'static str {
        "madt"
    }
    fn unjudged(&self, _ops: &[Op]) -> Vec<usize> {
        vec![8] // table Revision: pinned to the baseline, not judged
    }
    fn kinds(&self) -> &'static [&'static str] {
        &["lapic", "ioapic", "gicc", "gicd", "gicmsi", "gicr", "gicits", "rintc", "add_imsic", "aplic", "plic", "imsic", "add_structure(Gicr::default())"]
    }
    fn ctors(&self, level: u8) -> Vec<Ctor> {
        if level == 0 {
            vec![Ctor::new(2, 1, 2)]
        } else {
            vec![Ctor::new(2, 1, 2), Ctor::new(0, 0, 0), Ctor::new(1, 1, 1), Ctor::new(3, 1, 10), Ctor::new(4, 0, 11), Ctor::new(5, 1, 2), Ctor::new(6, 0, 9)]
        }
    }
    fn ctor_fields(&self) -> Vec<FT> {
        vec![FT::U(32)]
    }
    fn alphabet(&self, _c: &Ctor, hist: &[Op], level: u8) -> Vec<Op> {
        let mut v = vec![];
        let had_imsic = hist.iter().any(|o| o.k == K_IMSIC_ONCE);
        for k in 0..12u8 {
            if k == K_IMSIC_ONCE && had_imsic && (level == 0 || hist.iter().filter(|o| o.k == K_IMSIC_ONCE).count() >= 2) {
                continue; // documented refusal: a second add_imsic panics; it is offered once more on purpose
            }
            if level == 0 {
                let shape = match k {
                    K_GICC => 7,
                    K_GICMSI => 1,
                    _ => 0,
                };
                v.push(Op::new(k, shape, 2));
                continue;
            }
            if false {
                continue;
            }
            for (j, f) in fills(level).iter().enumerate() {
                // alternate shapes across fillings so both occur
                let shape = match k {
                    K_GICC => {
                        if j == 0 {
                            7
                        } else if j == 1 {
                            15
                        } else {
                            23
                        }
                    }
                    K_GICMSI => {
                        if j % 2 == 0 {
                            1
                        } else {
                            0
                        }
                    }
                    _ => 0,
                };
                v.push(Op::new(k, shape, *f));
            }
        }
        // structures obtained through the derived Default (all-zero bytes of the structure's size), one per history
        if level >= 1 && !hist.iter().any(|o| o.k == K_DEFAULT) {
            for sh in 0..9u16 {
                v.push(Op::new(K_DEFAULT, sh, 0));
            }
        }
        v
    }
    fn unwalkable(&self, ops: &[Op]) -> bool {
        ops.iter().any(|o| o.k == K_DEFAULT)
    }
    fn run(&self, c: &Ctor, ops: &[Op], obs: &mut dyn FnMut(usize, &dyn Aml, &[u32])) {
        let lic = if c.p == 0 { LocalInterruptController::Riscv } else { LocalInterruptController::Address(c.fill.u32(0)) };
        let mut t = MADT::new(c.oem_id(), c.oem_table_id(), c.oem_rev(), lic);
        obs(0, &t, &[]);
        let mut had_imsic = false;
        for (i, op) in ops.iter().enumerate() {
            if op.k == K_IMSIC_ONCE && had_imsic {
                if crate::util::catch(|| apply(&mut t, op)).is_err() {
                    crate::seq::note_refused(i);
                }
            } else {
                apply(&mut t, op);
            }
            had_imsic |= op.k == K_IMSIC_ONCE;
            obs(i + 1, &t, &[]);
        }
    }
    fn reference(&self, c: &Ctor, ops: &[Op]) -> RefOut {
        let mut w = W::new();
        ref_header(&mut w, b"APIC", 1, c);
        // local interrupt controller address, flags (PCAT_COMPAT not offered by the crate: 0)
        w.u32(if c.p == 0 { 0 } else { c.fill.u32(0) }).u32(0);
        let mut ents = vec![];
        for op in ops {
            let o = w.len();
            ref_entry(&mut w, op);
            ents.push(Ent { off: o, ty: type_code(op.k), len: w.len() - o });
        }
        ref_finish(&mut w);
        RefOut { image: w.0, ents, ..Default::default() }
    }
    fn walk(&self, img: &[u8]) -> Result<Vec<Ent>, String> {
        tl8_walk(img, 44)
    }
    fn fields(&self, k: u8, _s: u16) -> Vec<FT> {
        use FT::*;
        match k {
            K_LAPIC => vec![U(8), U(8), E(3)],
            K_IOAPIC => vec![U(8), U(32), U(32)],
            K_GICC => vec![E(3), U(32), U(32), U(32), U(32), E(2), U(64), U(64), U(64), U(64), U(32), E(2), U(64), U(64), U(8), U(16), U(16)],
            K_GICD => vec![U(32), U(64), E(5)],
            K_GICMSI => vec![U(32), U(64), U(16), U(16)],
            K_GICR => vec![U(64), U(32)],
            K_GICITS => vec![U(32), U(64)],
            K_RINTC => vec![E(3), U(64), U(32), U(32), U(64), U(32)],
            K_IMSIC_ONCE | K_IMSIC => vec![U(16), U(16), U(8), U(8), U(8), U(8)],
            K_APLIC => vec![U(8), A(8), U(16), U(32), U(64), U(32), U(16)],
            K_PLIC => vec![U(8), A(8), U(16), U(16), U(32), U(64), U(32)],
            _ => vec![],
        }
    }
    fn shapes(&self, k: u8) -> Vec<u16> {
        match k {
            K_GICC => vec![7, 0, 1, 2, 4, 3, 5, 6, 15, 11, 23, 31],
            K_GICMSI => vec![1, 0],
            K_DEFAULT => (0..9).collect(),
            _ => vec![0],
        }
    }
}

/// entries with a 1-byte type at +0 and a 1-byte length at +1
pub fn tl8_walk(img: &[u8], first: usize) -> Result<Vec<Ent>, String> {
    if img.len() < first {
        return Err(format!("image of {} bytes shorter than the fixed part ({})", img.len(), first));
    }
    let mut v = vec![];
    let mut o = first;
    while o < img.len() {
        if o + 2 > img.len() {
            return Err(format!("entry header at {} overruns the image end {}", o, img.len()));
        }
        let len = img[o + 1] as usize;
        if len < 2 {
            return Err(format!("entry at {} declares length {}", o, len));
        }
        if o + len > img.len() {
            return Err(format!("entry at {} (type {}) declares length {} but only {} bytes remain", o, img[o], len, img.len() - o));
        }
        v.push(Ent { off: o, ty: img[o] as u32, len });
        o += len;
    }
    Ok(v)
}
