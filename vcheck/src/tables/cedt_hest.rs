//! CEDT (CXL 2.0/3.0 9.17.1) and HEST (ACPI 6.5 18.3.2).
use super::simple::fills;
use super::*;
use crate::fill::{Ctor, Fill, Op};
use crate::util::{rd16, rd32, W};
use acpi_tables::{cedt, hest};

// ------------------------------------------------------------------ CEDT
pub struct Cedt;
pub const C_CHBS: u8 = 0;
pub const C_CFMWS: u8 = 1;
pub const C_CXIMS: u8 = 2;
pub const C_RDPAS: u8 = 3;
pub const WAYS: [(u8, usize); 8] = [(0, 1), (1, 2), (2, 4), (3, 8), (4, 16), (8, 3), (9, 6), (10, 12)];
pub fn cfmws_shape(ways_idx: u16, restr: u16) -> u16 {
    ways_idx | (restr << 3)
}
fn gran(i: usize) -> cedt::InterleaveGranularity {
    use cedt::InterleaveGranularity as G;
    [G::Granularity256b, G::Granularity512b, G::Granularity1kb, G::Granularity2kb, G::Granularity4kb, G::Granularity8kb, G::Granularity16kb][i]
}
pub fn real_cfmws_opts(mut m: cedt::CxlFixedMemory, restr: u16) -> cedt::CxlFixedMemory {
    if restr & 1 != 0 {
        m = m.cxl_type_2_memory();
    }
    if restr & 2 != 0 {
        m = m.cxl_type_3_memory();
    }
    if restr & 4 != 0 {
        m = m.volatile();
    }
    if restr & 8 != 0 {
        m = m.persistent();
    }
    if restr & 16 != 0 {
        m = m.fixed_configuration();
    }
    m
}
pub fn real_cfmws(f: &Fill, shape: u16) -> cedt::CxlFixedMemory {
    use cedt::{InterleaveArithmetic as A, InterleaveWays as Wy};
    let wi = (shape & 7) as usize;
    let ways = [Wy::Ways1, Wy::Ways2, Wy::Ways4, Wy::Ways8, Wy::Ways16, Wy::Ways3, Wy::Ways6, Wy::Ways12][wi];
    let m = cedt::CxlFixedMemory::new(f.u64(0), f.u64(1), [A::Modulo, A::ModuloXor][f.e(2, 2)], gran(f.e(3, 7)), ways, f.u16(4));
    let mut m = real_cfmws_opts(m, (shape >> 3) & 0x1f);
    for t in 0..cfmws_targets(shape) {
        m.add_target(target(f, t));
    }
    m
}
/// bit 8 of a CFMWS shape: the window is handed over with one target fewer than its interleave ways declare (the crate
/// refuses such a window; the operation is offered so that the refusal — or a consistent acceptance — is observed)
pub const CFMWS_SHORT: u16 = 1 << 8;
pub fn cfmws_targets(shape: u16) -> usize {
    let n = WAYS[(shape & 7) as usize].1;
    if shape & CFMWS_SHORT != 0 {
        n - 1
    } else {
        n
    }
}
fn target(f: &Fill, t: usize) -> [u8; 4] {
    let mut a = f.arr::<4>(5);
    a[0] = a[0].wrapping_add(t as u8);
    a[3] ^= (t as u8) << 4;
    a
}
pub fn cedt_ref_entry(w: &mut W, op: &Op) {
    cedt_ref_entry_q(w, op, 17)
}
pub fn cedt_ref_entry_q(w: &mut W, op: &Op, rdpas_len: u16) {
    let f = &op.fill;
    match op.k {
        C_CHBS => {
            // type 0, reserved(1), record length(2)=32, UID(4), CXL version(4), reserved(4), base(8), length(8)
            // length: 8 KiB for a CXL 1.1 RCRB, 64 KiB for CXL 2.0 component registers
            let v = f.e(1, 2);
            w.u8(0).u8(0).u16(32).u32(f.u32(0)).u32(v as u32).u32(0).u64(f.u64(2)).u64(if v == 0 { 0x2000 } else { 0x1_0000 });
        }
        C_CFMWS => {
            // type 1, reserved, length(2), reserved(4), base HPA(8), window size(8), ENIW(1), arithmetic(1), reserved(2),
            // HBIG(4), window restrictions(2), QTG id(2), targets(4 each)
            // restrictions: bit0 CXL type 2, bit1 CXL type 3, bit2 volatile, bit3 persistent, bit4 fixed device configuration
            let wi = (op.shape & 7) as usize;
            // an under-populated window, if it is accepted at all, must describe what it holds
            let n = cfmws_targets(op.shape);
            w.u8(1).u8(0).u16((36 + 4 * n) as u16).u32(0).u64(f.u64(0)).u64(f.u64(1)).u8(WAYS[wi].0).u8(f.e(2, 2) as u8).u16(0);
            w.u32(f.e(3, 7) as u32).u16((op.shape >> 3) & 0x1f).u16(f.u16(4));
            for t in 0..n {
                w.b(&target(f, t));
            }
        }
        C_CXIMS => {
            // type 2, reserved, length(2), reserved(2), HBIG(1), number of bitmap entries(1), xormaps(8 each)
            let n = op.shape as usize;
            w.u8(2).u8(0).u16((8 + 8 * n) as u16).u16(0).u8(f.e(0, 7) as u8).u8(n as u8);
            for i in 0..n {
                w.u64(f.u64(1 + (i % 8) as u8).wrapping_add(i as u64 / 8));
            }
        }
        C_RDPAS => {
            // type 3, reserved, record length(2), RCEC segment(2), RCEC BDF(2), protocol type(1), base address(8).
            // The fields listed by the CXL specification add up to 17 bytes; the layout is pinned to what the crate
            // emits and the record length is required to be self-consistent (17).
            let bdf = ((f.u8(1) as u16) << 8) | ((f.e(2, 32) as u16) << 3) | f.e(3, 8) as u16;
            w.u8(3).u8(0).u16(rdpas_len).u16(f.u16(0)).u16(bdf).u8(f.e(4, 2) as u8).u64(f.u64(5));
        }
        _ => unreachable!(),
    }
}
impl Table for Cedt {
    fn name(&self) -> &'static str {
        "cedt"
    }
    fn unjudged(&self, _ops: &[Op]) -> Vec<usize> {
        vec![8] // table Revision: pinned to the baseline, not judged
    }
    fn kinds(&self) -> &'static [&'static str] {
        &["add_host_bridge", "add_fixed_memory", "add_xor_interleave_math", "add_port_association"]
    }
    fn alphabet(&self, _c: &Ctor, _h: &[Op], level: u8) -> Vec<Op> {
        if level == 0 {
            return vec![Op::new(C_CHBS, 0, 2), Op::new(C_CFMWS, cfmws_shape(1, 0x1f), 2), Op::new(C_CXIMS, 1, 2), Op::new(C_RDPAS, 0, 2)];
        }
        let fl = fills(level);
        let mut v = vec![];
        for f in fl {
            v.push(Op::new(C_CHBS, 0, *f));
        }
        let ways: &[u16] = &[0, 1, 2, 3, 4, 5, 6, 7];
        for (n, wy) in ways.iter().enumerate() {
            v.push(Op::new(C_CFMWS, cfmws_shape(*wy, if n % 2 == 0 { 0x1f } else { 0 }), fl[n % fl.len()]));
        }
        for n in 0..(if level == 1 { 2 } else { 4 }) {
            v.push(Op::new(C_CXIMS, n, fl[n as usize % fl.len()]));
        }
        for f in fl {
            v.push(Op::new(C_RDPAS, 0, *f));
        }
        // windows with one target too few (2, 4 and 3 ways), refusable
        if _h.iter().filter(|o| o.k == C_CFMWS && o.shape & CFMWS_SHORT != 0).count() < 2 {
            for wy in [1u16, 2, 5] {
                v.push(Op::new(C_CFMWS, cfmws_shape(wy, 0x1f) | CFMWS_SHORT, fl[0]));
            }
        }
        if !_h.iter().any(|o| o.k == C_CXIMS && o.shape >= 31) {
            // records longer than 255 bytes
            v.push(Op::new(C_CXIMS, 32, fl[0]));
            v.push(Op::new(C_CXIMS, 255, fl[fl.len() - 1]));
        }
        v
    }
    /// every XOR-map count 0..=255 (record sizes 8..2048), and fixed-memory windows related to the previous one
    /// (adjacent, identical, overlapping), each between other records
    fn sweeps(&self, _level: u8) -> Vec<(String, Vec<Op>)> {
        let mut v = vec![];
        let hb = Op::new(C_CHBS, 0, 2);
        // across the limit of the one-byte count (255): 256..=300 may be refused, and must be right if accepted
        for n in 0..=300u16 {
            v.push((format!("cxims[{} maps]", n), vec![hb, Op::new(C_CXIMS, n, if n % 2 == 0 { 2 } else { 1 }), Op::new(C_CFMWS, cfmws_shape(1, 0x1f), 2)]));
        }
        let wnd = |base: u64, size: u64, ways: u16, restr: u16| Op { k: C_CFMWS, shape: cfmws_shape(ways, restr), fill: Fill::b(2).with(0, base).with(1, size) };
        for (b, l) in [(0x1_0000_0000u64, 0x4000_0000u64), (0, 0x1000_0000), (0x80_0000_0000, 0x100_0000_0000)] {
            for (wa, wb) in [(0u16, 0u16), (1, 1), (1, 2), (5, 0)] {
                v.push((format!("adjacent-windows[{:#x},{}{}]", b, wa, wb), vec![wnd(b, l, wa, 0x1f), wnd(b + l, l, wb, 0x1f), hb, wnd(b + 2 * l, l, wa, 0)]));
            }
            v.push((format!("identical-windows[{:#x}]", b), vec![wnd(b, l, 1, 4), wnd(b, l, 1, 4), wnd(b, l, 1, 4)]));
            v.push((format!("overlapping-windows[{:#x}]", b), vec![wnd(b, l, 2, 4), wnd(b + l / 2, l, 2, 4)]));
        }
        v
    }
    fn run(&self, c: &Ctor, ops: &[Op], obs: &mut dyn FnMut(usize, &dyn Aml, &[u32])) {
        let mut t = cedt::CEDT::new(c.oem_id(), c.oem_table_id(), c.oem_rev());
        obs(0, &t, &[]);
        for (i, op) in ops.iter().enumerate() {
            let f = &op.fill;
            match op.k {
                C_CHBS => t.add_host_bridge(cedt::CxlHostBridge::new(f.u32(0), [cedt::CxlVersion::Cxl1_1, cedt::CxlVersion::Cxl2][f.e(1, 2)], f.u64(2))),
                C_CFMWS if op.shape & CFMWS_SHORT != 0 => {
                    if crate::util::catch(|| t.add_fixed_memory(real_cfmws(f, op.shape))).is_err() {
                        crate::seq::note_refused(i);
                    }
                }
                C_CFMWS => t.add_fixed_memory(real_cfmws(f, op.shape)),
                C_CXIMS if op.shape > 255 => {
                    // more bitmaps than the one-byte count can hold: the crate may refuse (building the record or adding it);
                    // if it accepts, the record is judged like any other
                    let r = crate::util::catch(|| {
                        let mut x = cedt::XorInterleaveMath::new(gran(f.e(0, 7)));
                        for n in 0..op.shape {
                            x.add_xormap(f.u64(1 + (n % 8) as u8).wrapping_add(n as u64 / 8));
                        }
                        x
                    });
                    match r {
                        Ok(x) => {
                            if crate::util::catch(std::panic::AssertUnwindSafe(|| t.add_xor_interleave_math(x))).is_err() {
                                crate::seq::note_refused(i);
                            }
                        }
                        Err(_) => crate::seq::note_refused(i),
                    }
                }
                C_CXIMS => {
                    let mut x = cedt::XorInterleaveMath::new(gran(f.e(0, 7)));
                    for n in 0..op.shape {
                        x.add_xormap(f.u64(1 + (n % 8) as u8).wrapping_add(n as u64 / 8));
                    }
                    t.add_xor_interleave_math(x)
                }
                _ => t.add_port_association(cedt::PortAssociation::new(
                    f.u16(0),
                    f.u8(1),
                    f.e(2, 32) as u8,
                    f.e(3, 8) as u8,
                    [cedt::ProtocolType::CxlIo, cedt::ProtocolType::CxlMem][f.e(4, 2)],
                    f.u64(5),
                )),
            }
            obs(i + 1, &t, &[]);
        }
    }
    fn reference(&self, c: &Ctor, ops: &[Op]) -> RefOut {
        let mut w = W::new();
        ref_header(&mut w, b"CEDT", 1, c);
        let mut ents = vec![];
        for op in ops {
            let o = w.len();
            cedt_ref_entry(&mut w, op);
            ents.push(Ent { off: o, ty: op.k as u32, len: w.len() - o });
        }
        ref_finish(&mut w);
        RefOut { image: w.0, ents, ..Default::default() }
    }
    fn quirks(&self) -> &'static [&'static str] {
        &["rdpas-declares-16-emits-17"]
    }
    fn reference_q(&self, c: &Ctor, ops: &[Op], _q: &str) -> Option<RefOut> {
        // RDPAS records say 16 in their own length field and in the table Length, yet occupy 17 bytes
        if !ops.iter().any(|o| o.k == C_RDPAS) {
            return None;
        }
        let mut w = W::new();
        ref_header(&mut w, b"CEDT", 1, c);
        let mut ents = vec![];
        let mut short = 0u32;
        for op in ops {
            let o = w.len();
            cedt_ref_entry_q(&mut w, op, 16);
            if op.k == C_RDPAS {
                short += 1;
            }
            ents.push(Ent { off: o, ty: op.k as u32, len: w.len() - o });
        }
        let n = w.len() as u32 - short;
        w.put32(4, n);
        w.0[9] = 0;
        let s = crate::util::sum8(&w.0);
        w.0[9] = 0u8.wrapping_sub(s);
        Some(RefOut { image: w.0, ents, ..Default::default() })
    }
    fn walk(&self, img: &[u8]) -> Result<Vec<Ent>, String> {
        let v = super::topo::tl16_walk(img, 36, 0, 1, 2)?;
        for e in &v {
            match e.ty {
                0 if e.len != 32 => return Err(format!("CHBS at {} has length {} (spec: 32)", e.off, e.len)),
                2 => {
                    if e.len < 8 {
                        return Err(format!("CXIMS at {} shorter than its fixed part", e.off));
                    }
                    let n = img[e.off + 7] as usize;
                    if e.len != 8 + 8 * n {
                        return Err(format!("CXIMS at {}: {} bitmaps need {} bytes, length says {}", e.off, n, 8 + 8 * n, e.len));
                    }
                }
                1 => {
                    if e.len < 36 {
                        return Err(format!("CFMWS at {} shorter than its fixed part", e.off));
                    }
                    let eniw = img[e.off + 24];
                    let n = WAYS.iter().find(|x| x.0 == eniw).map(|x| x.1);
                    if n.map(|n| 36 + 4 * n) != Some(e.len) {
                        return Err(format!("CFMWS at {}: ENIW {} does not match length {}", e.off, eniw, e.len));
                    }
                }
                _ => {}
            }
        }
        Ok(v)
    }
    fn summary(&self, img: &[u8], ents: &[Ent]) -> Vec<u64> {
        let mut v = vec![];
        for e in ents {
            match e.ty {
                1 if e.len >= 36 => v.push(img[e.off + 24] as u64), // encoded number of interleave ways
                2 if e.len >= 8 => v.push(img[e.off + 7] as u64),   // number of bitmap entries
                _ => {}
            }
        }
        v
    }
    fn fields(&self, k: u8, s: u16) -> Vec<FT> {
        use FT::*;
        match k {
            C_CHBS => vec![U(32), E(2), U(64)],
            C_CFMWS => vec![U(64), U(64), E(2), E(7), U(16), A(4)],
            C_CXIMS => {
                let mut v = vec![E(7)];
                for _ in 0..s.min(8) {
                    v.push(U(64));
                }
                v
            }
            _ => vec![U(16), U(8), E(32), E(8), E(2), U(64)],
        }
    }
    fn shapes(&self, k: u8) -> Vec<u16> {
        match k {
            C_CFMWS => (0..8).map(|w| cfmws_shape(w, [0, 0x1f, 1, 2, 4, 8, 16, 0x0a][w as usize])).collect(),
            C_CXIMS => vec![0, 1, 2, 3, 31, 32, 255],
            _ => vec![0],
        }
    }
}

// ------------------------------------------------------------------ HEST
pub struct Hest;
pub const E_ROOT: u8 = 0;
pub const E_DEV: u8 = 1;
pub const E_BRIDGE: u8 = 2;
pub const E_GHES: u8 = 3;
pub const E_GHES2: u8 = 4;
/// a structure obtained through a derived `Default` (44 zero bytes, type 0: not self-describing)
pub const E_DEFAULT: u8 = 5;

fn hdev(f: &Fill) -> hest::PciDevice {
    hest::PciDevice::new(f.u8(1), f.e(2, 32) as u8, f.e(3, 8) as u8)
}
fn ff(f: &Fill) -> hest::FirmwareFirst {
    [hest::FirmwareFirst::Disabled, hest::FirmwareFirst::Enabled][f.e(0, 2)]
}
pub fn real_notification(f: &Fill, b: u8) -> hest::NotificationStructure {
    use hest::NotificationType as N;
    let t = [
        N::Polled,
        N::ExternalIrq,
        N::LocalIrq,
        N::Sci,
        N::Nmi,
        N::Cmci,
        N::Mce,
        N::GpioSignal,
        N::Armv8Sea,
        N::Armv8Sei,
        N::ExternalGsiv,
        N::SoftwareException,
        N::RiscvSupervisorSoftwareEvent,
        N::RiscvLowPriorityRasInterrupt,
        N::RiscvHighPriorityRasInterrupt,
        N::RiscvHardwareErrorException,
    ][f.e(b, 16)];
    let mut n = hest::NotificationStructure::new(t);
    // the order of the setters must not matter: descending for odd base fillings, ascending otherwise
    let order: Vec<u8> = if f.base % 2 == 1 { (0..7).rev().collect() } else { (0..7).collect() };
    for st in order {
        n = match st {
            0 => n.conf_write_en(f.u16(b + 1)),
            1 => n.poll_interval_ms(f.u32(b + 2)),
            2 => n.vector(f.u32(b + 3)),
            3 => n.polling_threshold_value(f.u32(b + 4)),
            4 => n.polling_threshold_window_ms(f.u32(b + 5)),
            5 => n.error_threshold_value(f.u32(b + 6)),
            _ => n.error_threshold_window_ms(f.u32(b + 7)),
        };
    }
    n
}
/// ACPI 6.5 table 18.14: type(1), length(1)=28, configuration write enable(2), poll interval(4), vector(4),
/// switch-to-polling threshold value(4) / window(4), error threshold value(4) / window(4)
pub fn ref_notification(w: &mut W, f: &Fill, b: u8) {
    w.u8(f.e(b, 16) as u8).u8(28).u16(f.u16(b + 1)).u32(f.u32(b + 2)).u32(f.u32(b + 3)).u32(f.u32(b + 4)).u32(f.u32(b + 5)).u32(f.u32(b + 6)).u32(f.u32(b + 7));
}
pub fn hest_default_len(shape: u16) -> usize {
    use core::mem::size_of;
    match shape % 5 {
        0 => size_of::<hest::PcieAerDevice>(),
        1 => size_of::<hest::PcieAerRootPort>(),
        2 => size_of::<hest::PcieAerBridge>(),
        3 => size_of::<hest::GenericHardwareSource>(),
        _ => size_of::<hest::GenericHardwareSourceV2>(),
    }
}
pub fn hest_ref_entry(w: &mut W, op: &Op) {
    if op.k == E_DEFAULT {
        w.z(hest_default_len(op.shape));
        return;
    }
    let f = &op.fill;
    let global = op.shape & 1 == 0;
    let set = op.shape & 2 != 0;
    let z32 = |i: u8| if set { f.u32(i) } else { 0 };
    match op.k {
        E_ROOT | E_DEV | E_BRIDGE => {
            // type 6/7/8, source id(2), reserved(2), flags(1: bit0 firmware first, bit1 global), enabled(1),
            // records to pre-allocate(4), max sections per record(4), bus(4), device(2), function(2), device control(2), reserved(2),
            // uncorrectable mask(4), uncorrectable severity(4), correctable mask(4), advanced capabilities and control(4)
            // [root port: root error command(4)] [bridge: secondary uncorrectable mask(4), severity(4), secondary adv. cap.(4)]
            w.u16(6 + op.k as u16).u16(0).u16(0);
            w.u8(if global { 2 } else { f.e(0, 2) as u8 }).u8(0);
            w.u32(z32(4)).u32(z32(5));
            if global {
                w.u32(0).u16(0).u16(0);
            } else {
                w.u32(f.u8(1) as u32).u16(f.e(2, 32) as u16).u16(f.e(3, 8) as u16);
            }
            w.u16(if set { f.u16(6) } else { 0 }).u16(0).u32(z32(7)).u32(z32(8)).u32(z32(9)).u32(z32(10));
            if op.k == E_ROOT {
                w.u32(z32(11));
            }
            if op.k == E_BRIDGE {
                w.u32(z32(11)).u32(z32(12)).u32(z32(13));
            }
        }
        E_GHES | E_GHES2 => {
            // type 9/10, source id(2), related source id(2)=0xFFFF, flags(1)=0, enabled(1), records(4), max sections(4),
            // max raw data length(4), error status address GAS(12), notification(28), error status block length(4)
            // [v2: read ack register GAS(12), read ack preserve(8), read ack write(8)]
            w.u16(if op.k == E_GHES { 9 } else { 10 }).u16(f.u16(0)).u16(0xffff).u8(0).u8(f.e(1, 2) as u8);
            if set {
                w.u32(f.u32(2)).u32(f.u32(3)).u32(f.u32(4));
                ref_gas(w, f, 5);
                ref_notification(w, f, 10);
                w.u32(f.u32(18));
                if op.k == E_GHES2 {
                    ref_gas(w, f, 19);
                    w.u64(f.u64(24)).u64(f.u64(25));
                }
            } else {
                // nothing but the constructor was called: all remaining fields are zero
                w.z(12 + 12 + 28 + 4);
                if op.k == E_GHES2 {
                    w.z(28);
                }
            }
        }
        _ => unreachable!(),
    }
}
/// shape bits: 1 = per-device (not GLOBAL), 2 = setters applied, 4 = setters applied in reverse order
pub fn apply_hest(t: &mut hest::HEST, op: &Op) {
    if op.k == E_DEFAULT {
        return match op.shape % 5 {
            0 => t.add_structure(hest::PcieAerDevice::default()),
            1 => t.add_structure(hest::PcieAerRootPort::default()),
            2 => t.add_structure(hest::PcieAerBridge::default()),
            3 => t.add_structure(hest::GenericHardwareSource::default()),
            _ => t.add_structure(hest::GenericHardwareSourceV2::default()),
        };
    }
    let f = &op.fill;
    let global = op.shape & 1 == 0;
    let set = op.shape & 2 != 0;
    let order = |n: u8| -> Vec<u8> {
        if !set {
            vec![]
        } else if op.shape & 4 != 0 {
            (0..n).rev().collect()
        } else {
            (0..n).collect()
        }
    };
    match op.k {
        E_ROOT => {
            let mut s = if global { hest::PcieAerRootPort::new_global() } else { hest::PcieAerRootPort::new_root_port(ff(f), hdev(f)) };
            for st in order(8) {
                s = match st {
                    0 => s.num_records(f.u32(4)),
                    1 => s.max_sections(f.u32(5)),
                    2 => s.device_control(f.u16(6)),
                    3 => s.uncorrectable_error_mask(f.u32(7)),
                    4 => s.uncorrectable_error_severity(f.u32(8)),
                    5 => s.correctable_error_mask(f.u32(9)),
                    6 => s.aer_cap_ctrl(f.u32(10)),
                    _ => s.root_error_command(f.u32(11)),
                };
            }
            t.add_structure(s)
        }
        E_DEV => {
            let mut s = if global { hest::PcieAerDevice::new_global() } else { hest::PcieAerDevice::new_root_port(ff(f), hdev(f)) };
            for st in order(7) {
                s = match st {
                    0 => s.num_records(f.u32(4)),
                    1 => s.max_sections(f.u32(5)),
                    2 => s.device_control(f.u16(6)),
                    3 => s.uncorrectable_error_mask(f.u32(7)),
                    4 => s.uncorrectable_error_severity(f.u32(8)),
                    5 => s.correctable_error_mask(f.u32(9)),
                    _ => s.aer_cap_ctrl(f.u32(10)),
                };
            }
            t.add_structure(s)
        }
        E_BRIDGE => {
            let mut s = if global { hest::PcieAerBridge::new_global() } else { hest::PcieAerBridge::new_bridge(ff(f), hdev(f)) };
            for st in order(10) {
                s = match st {
                    0 => s.num_records(f.u32(4)),
                    1 => s.max_sections(f.u32(5)),
                    2 => s.device_control(f.u16(6)),
                    3 => s.uncorrectable_error_mask(f.u32(7)),
                    4 => s.uncorrectable_error_severity(f.u32(8)),
                    5 => s.correctable_error_mask(f.u32(9)),
                    6 => s.aer_cap_ctrl(f.u32(10)),
                    7 => s.secondary_uncorrectable_error_mask(f.u32(11)),
                    8 => s.secondary_uncorrectable_error_severity(f.u32(12)),
                    _ => s.secondary_aer_cap_ctrl(f.u32(13)),
                };
            }
            t.add_structure(s)
        }
        E_GHES => {
            let en = [hest::EnabledStatus::Disabled, hest::EnabledStatus::Enabled][f.e(1, 2)];
            let mut s = hest::GenericHardwareSource::new(f.u16(0), en);
            for st in order(6) {
                s = match st {
                    0 => s.num_records(f.u32(2)),
                    1 => s.max_sections(f.u32(3)),
                    2 => s.max_raw_length(f.u32(4)),
                    3 => s.error_status_address(real_gas(f, 5)),
                    4 => s.notification(real_notification(f, 10)),
                    _ => s.error_status_block_len(f.u32(18)),
                };
            }
            t.add_structure(s)
        }
        _ => {
            let en = [hest::EnabledStatus::Disabled, hest::EnabledStatus::Enabled][f.e(1, 2)];
            let mut s = hest::GenericHardwareSourceV2::new(f.u16(0), en);
            for st in order(9) {
                s = match st {
                    0 => s.num_records(f.u32(2)),
                    1 => s.max_sections(f.u32(3)),
                    2 => s.max_raw_length(f.u32(4)),
                    3 => s.error_status_address(real_gas(f, 5)),
                    4 => s.notification(real_notification(f, 10)),
                    5 => s.error_status_block_len(f.u32(18)),
                    6 => s.read_ack_register(real_gas(f, 19)),
                    7 => s.read_ack_preserve(f.u64(24)),
                    _ => s.read_ack_write(f.u64(25)),
                };
            }
            t.add_structure(s)
        }
    }
}
pub fn hest_size(ty: u32) -> Option<usize> {
    match ty {
        6 => Some(48),
        7 => Some(44),
        8 => Some(56),
        9 => Some(64),
        10 => Some(92),
        _ => None,
    }
}
impl Table for Hest {
    fn name(&self) -> &'static str {
        "hest"
    }
    fn kinds(&self) -> &'static [&'static str] {
        &["aer_root_port", "aer_device", "aer_bridge", "generic_hardware", "generic_hardware_v2", "add_structure(PcieAerDevice::default())"]
    }
    fn alphabet(&self, _c: &Ctor, _h: &[Op], level: u8) -> Vec<Op> {
        let mut v = vec![];
        for k in 0..5u8 {
            if level == 0 {
                v.push(Op::new(k, 3, 2));
                continue;
            }
            for (n, f) in fills(level).iter().enumerate() {
                v.push(Op::new(k, if n % 2 == 0 { 3 } else { 0 }, *f));
            }
            v.push(Op::new(k, 7, 3));
            if level > 1 {
                v.push(Op::new(k, 1, 2));
                v.push(Op::new(k, 2, 1));
            }
        }
        if level >= 1 && !_h.iter().any(|o| o.k == E_DEFAULT) {
            for sh in 0..5u16 {
                v.push(Op::new(E_DEFAULT, sh, 0));
            }
        }
        v
    }
    fn unwalkable(&self, ops: &[Op]) -> bool {
        ops.iter().any(|o| o.k == E_DEFAULT)
    }
    fn run(&self, c: &Ctor, ops: &[Op], obs: &mut dyn FnMut(usize, &dyn Aml, &[u32])) {
        let mut t = hest::HEST::new(c.oem_id(), c.oem_table_id(), c.oem_rev());
        obs(0, &t, &[]);
        for (i, op) in ops.iter().enumerate() {
            apply_hest(&mut t, op);
            obs(i + 1, &t, &[]);
        }
    }
    fn reference(&self, c: &Ctor, ops: &[Op]) -> RefOut {
        // ACPI 6.5 table 18.2: header, error source count(4), error source structures
        let mut w = W::new();
        ref_header(&mut w, b"HEST", 1, c);
        w.u32(ops.len() as u32);
        let mut ents = vec![];
        for op in ops {
            let o = w.len();
            hest_ref_entry(&mut w, op);
            ents.push(Ent { off: o, ty: if op.k == E_DEFAULT { 0 } else { 6 + op.k as u32 }, len: w.len() - o });
        }
        ref_finish(&mut w);
        RefOut { image: w.0, ents, ..Default::default() }
    }
    fn walk(&self, img: &[u8]) -> Result<Vec<Ent>, String> {
        if img.len() < 40 {
            return Err(format!("image of {} bytes shorter than the fixed part (40)", img.len()));
        }
        let mut v = vec![];
        let mut o = 40;
        while o < img.len() {
            if o + 2 > img.len() {
                return Err(format!("structure header at {} overruns the image end {}", o, img.len()));
            }
            let ty = rd16(img, o) as u32;
            let len = match hest_size(ty) {
                Some(l) => l,
                None => return Err(format!("structure at {} has type {} for which the specification fixes no size", o, ty)),
            };
            if o + len > img.len() {
                return Err(format!("structure at {} (type {}) of fixed size {} overruns the image end {}", o, ty, len, img.len()));
            }
            v.push(Ent { off: o, ty, len });
            o += len;
        }
        Ok(v)
    }
    fn counts(&self, img: &[u8], ents: &[Ent]) -> Result<(), String> {
        let n = rd32(img, 36) as usize;
        if n != ents.len() {
            return Err(format!("error source count field {} but the body holds {} structures", n, ents.len()));
        }
        Ok(())
    }
    fn fields(&self, k: u8, _s: u16) -> Vec<FT> {
        use FT::*;
        match k {
            E_ROOT => vec![E(2), U(8), E(32), E(8), U(32), U(32), U(16), U(32), U(32), U(32), U(32), U(32)],
            E_DEV => vec![E(2), U(8), E(32), E(8), U(32), U(32), U(16), U(32), U(32), U(32), U(32)],
            E_BRIDGE => vec![E(2), U(8), E(32), E(8), U(32), U(32), U(16), U(32), U(32), U(32), U(32), U(32), U(32), U(32)],
            E_DEFAULT => vec![],
            _ => {
                let mut v = vec![U(16), E(2), U(32), U(32), U(32)];
                v.extend(gas_fields());
                v.extend([E(16), U(16), U(32), U(32), U(32), U(32), U(32), U(32)]);
                v.push(U(32));
                if k == E_GHES2 {
                    v.extend(gas_fields());
                    v.extend([U(64), U(64)]);
                }
                v
            }
        }
    }
    fn shapes(&self, k: u8) -> Vec<u16> {
        if k == E_DEFAULT {
            (0..5).collect()
        } else if k <= E_BRIDGE {
            vec![3, 0, 1, 2, 7, 6]
        } else {
            vec![3, 0, 7]
        }
    }
}
