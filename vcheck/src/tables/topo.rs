//! Tables whose add operations return handles: PPTT (ACPI 6.5 5.2.30), RHCT (RISC-V), RIMT
//! (layout pinned by the crate's golden tests, as the property prescribes), VIOT (ACPI 6.5 5.2.33).
use super::simple::fills;
use super::*;
use crate::fill::{sel, Ctor, Fill, Op};
use crate::util::{rd16, rd32, W};
use acpi_tables::{pptt, rhct, rimt, viot};

/// 2-bit sub-element count code -> count: 0, 1, 2, and a LARGE count that pushes the entry past 255 bytes
pub fn cnt(code: u16, large: u16) -> u16 {
    if code == 3 {
        large
    } else {
        code
    }
}
fn parse_handle(dbg: String) -> u32 {
    let s: String = dbg.chars().filter(|c| c.is_ascii_digit()).collect();
    s.parse().unwrap_or(u32::MAX)
}

// ------------------------------------------------------------------ PPTT
pub struct Pptt;
pub const P_PROC: u8 = 0;
pub const P_CACHE: u8 = 1;
/// a cache node obtained through the derived `Default` (28 zero bytes: not self-describing, so C03 does not judge
/// histories containing it; C05 still requires every handle to be the offset at which its node begins)
pub const P_CACHE_DEFAULT: u8 = 2;
pub fn proc_shape(nres: u16, parent_sel: u16, res_sel: u16, opts: u16) -> u16 {
    // nres code: bits 0-1; parent selector (0 none, k = sel(k-1), 15 = a handle issued by ANOTHER table): bits 2-5;
    // resource selector: bits 6-8; option mask: bits 9-13
    nres | (parent_sel << 2) | (res_sel << 6) | (opts << 9)
}
pub fn cache_shape(setmask: u16, next_sel: u16) -> u16 {
    setmask | (next_sel << 8)
}
/// bit 12 of a cache shape: apply the setters in descending instead of ascending order (the result must not depend on it)
pub const CACHE_REVERSED: u16 = 1 << 12;
/// bit 13 of a cache shape: every selected setter is applied twice with the same argument (a repeated write changes nothing)
pub const CACHE_TWICE: u16 = 1 << 13;
/// bit 14 of a cache shape: every selected plain-value setter (and next_level) is first called with a DIFFERENT value
/// (for next_level: the first cache's handle), then with the real one: the last call wins
pub const CACHE_OVERWRITE: u16 = 1 << 14;
pub fn real_cache(f: &Fill, setmask: u16, next: Option<&pptt::CacheHandle>) -> pptt::CacheNode {
    real_cache_over(f, setmask, next, None)
}
pub fn real_cache_over(f: &Fill, setmask: u16, next: Option<&pptt::CacheHandle>, earlier: Option<&pptt::CacheHandle>) -> pptt::CacheNode {
    use pptt::{AllocationType as A, CacheType as C, WritePolicy as P};
    let mut b = pptt::CacheNodeBuilder::default();
    if setmask & CACHE_OVERWRITE != 0 {
        let g = Fill::b(3);
        if let (Some(e), Some(_)) = (earlier, next) {
            b = b.next_level(e);
        }
        for bit in [0u16, 1, 2, 6, 7] {
            if setmask & (1 << bit) != 0 {
                b = match bit {
                    0 => b.size(g.u32(0)),
                    1 => b.sets(g.u32(1)),
                    2 => b.associativity(g.u8(2)),
                    6 => b.line_size(g.u16(6)),
                    _ => b.id(g.u32(7)),
                };
            }
        }
    }
    if let Some(h) = next {
        b = b.next_level(h);
    }
    let mut order: Vec<u16> = if setmask & CACHE_REVERSED != 0 { (0..8).rev().collect() } else { (0..8).collect() };
    if setmask & CACHE_TWICE != 0 {
        order = order.iter().flat_map(|b| [*b, *b]).collect();
    }
    for bit in order {
        if setmask & (1 << bit) == 0 {
            continue;
        }
        b = match bit {
            0 => b.size(f.u32(0)),
            1 => b.sets(f.u32(1)),
            2 => b.associativity(f.u8(2)),
            3 => b.allocation_type([A::Read, A::Write, A::Both][f.e(3, 3)]),
            4 => b.cache_type([C::Data, C::Instruction, C::Unified][f.e(4, 3)]),
            5 => b.write_policy([P::Writeback, P::Writethrough][f.e(5, 2)]),
            6 => b.line_size(f.u16(6)),
            _ => b.id(f.u32(7)),
        };
    }
    b.to_node()
}
/// ACPI 6.5 table 5.140 (cache type structure, 28 bytes with cache id):
/// flags bit0 size, 1 sets, 2 associativity, 3 allocation type, 4 cache type, 5 write policy, 6 line size, 7 cache id valid;
/// attributes bits 1:0 allocation (0 read, 1 write, 2 r/w), 3:2 type (0 data, 1 instruction, 2 unified), 4 write policy (1 = write through)
pub fn ref_cache(w: &mut W, f: &Fill, setmask: u16, next: u32) {
    let m = |b: u16| setmask & b != 0;
    let mut attr = 0u8;
    if m(8) {
        attr |= f.e(3, 3) as u8;
    }
    if m(16) {
        attr |= (f.e(4, 3) as u8) << 2;
    }
    if m(32) {
        attr |= (f.e(5, 2) as u8) << 4;
    }
    w.u8(1).u8(28).u16(0).u32((setmask & 0xff) as u32).u32(next);
    w.u32(if m(1) { f.u32(0) } else { 0 }).u32(if m(2) { f.u32(1) } else { 0 });
    w.u8(if m(4) { f.u8(2) } else { 0 }).u8(attr).u16(if m(64) { f.u16(6) } else { 0 }).u32(if m(128) { f.u32(7) } else { 0 });
}
/// a processor handle issued by another, larger PPTT (handles are plain offsets: the crate stores what it is given; the
/// value names no node of the table under test, so C05 does not resolve it)
pub const FOREIGN_PARENT_OFFSET: u32 = 36 + 20 * 45;
pub fn foreign_parent() -> pptt::ProcessorHandle {
    let mut t = pptt::PPTT::new(*b"OTHER1", *b"OTHERTBL", 1);
    let mut h = t.add_processor(pptt::ProcessorNode::new(None, 0));
    for i in 1..=45u32 {
        h = t.add_processor(pptt::ProcessorNode::new(None, i));
    }
    h
}
pub fn real_proc_opts(mut p: pptt::ProcessorNode, opts: u16) -> pptt::ProcessorNode {
    if opts & 1 != 0 {
        p = p.physical();
    }
    if opts & 2 != 0 {
        p = p.valid();
    }
    if opts & 4 != 0 {
        p = p.thread();
    }
    if opts & 8 != 0 {
        p = p.leaf();
    }
    if opts & 16 != 0 {
        p = p.identical();
    }
    p
}
impl Table for Pptt {
    fn name(&self) -> &'static str {
        "pptt"
    }
    fn unjudged(&self, _ops: &[Op]) -> Vec<usize> {
        vec![8] // table Revision: pinned to the baseline, not judged
    }
    fn kinds(&self) -> &'static [&'static str] {
        &["add_processor", "add_cache", "add_cache(CacheNode::default())"]
    }
    fn enable_all(&self) -> Vec<Op> {
        vec![Op::new(P_CACHE, cache_shape(0xff, 0), 2), Op::new(P_PROC, proc_shape(0, 0, 0, 0x1f), 2)]
    }
    fn alphabet(&self, _c: &Ctor, hist: &[Op], level: u8) -> Vec<Op> {
        let np = hist.iter().filter(|o| o.k == P_PROC).count();
        let nc = hist.iter().filter(|o| o.k != P_PROC).count();
        let mut v = vec![];
        if level == 0 {
            v.push(Op::new(P_PROC, proc_shape(if nc > 0 { 1 } else { 0 }, if np > 0 { 1 + 7 } else { 0 }, 7, 0x1f), 2));
            v.push(Op::new(P_CACHE, cache_shape(0xff, if nc > 0 { 1 + 7 } else { 0 }), 2));
            return v;
        }
        let fl = fills(level);
        // processors: no parent / each existing parent (first, latest), 0..2 resources drawn from existing caches
        let mut parents = vec![0u16];
        if np > 0 {
            parents.push(1);
        }
        if np > 1 {
            parents.push(1 + 7);
            if level > 1 && np > 2 {
                parents.push(1 + 6);
            }
        }
        for (n, ps) in parents.iter().enumerate() {
            for nres in 0..=2u16 {
                if nres > 0 && nc == 0 {
                    continue;
                }
                let rsels: Vec<u16> = if nres == 0 { vec![0] } else if nc > 1 { vec![0, 7] } else { vec![0] };
                for rs in rsels {
                    let f = fl[(n + nres as usize) % fl.len()];
                    v.push(Op::new(P_PROC, proc_shape(nres, *ps, rs, if (n + nres as usize) % 2 == 0 { 0x1f } else { 0 }), f));
                }
            }
        }
        if nc > 0 && !hist.iter().any(|o| o.k == P_PROC && o.shape & 3 == 3) {
            v.push(Op::new(P_PROC, proc_shape(3, 0, 7, 0x1f), fl[0])); // 58 private resources: a 252-byte node
        }
        // caches: no next level / next level = first or latest cache
        let mut nexts = vec![0u16];
        if nc > 0 {
            nexts.push(1);
        }
        if nc > 1 {
            nexts.push(1 + 7);
        }
        for (n, ns) in nexts.iter().enumerate() {
            let f = fl[n % fl.len()];
            v.push(Op::new(P_CACHE, cache_shape(if n % 2 == 0 { 0xff } else { 0 }, *ns) | if n == 0 { CACHE_REVERSED } else if n == 2 { CACHE_TWICE } else { 0 }, f));
        }
        if hist.iter().filter(|o| o.k == P_CACHE_DEFAULT).count() < 1 {
            v.push(Op::new(P_CACHE_DEFAULT, 0, 0));
        }
        v
    }
    fn unwalkable(&self, ops: &[Op]) -> bool {
        ops.iter().any(|o| o.k == P_CACHE_DEFAULT)
    }
    /// every private-resource count 0..=58 (node sizes 20..252), between other nodes so that later offsets depend on it
    fn sweeps(&self, _level: u8) -> Vec<(String, Vec<Op>)> {
        let mut v = vec![];
        let pre = self.enable_all();
        for n in 0..=58u64 {
            let p = Op { k: P_PROC, shape: proc_shape(0, 1, if n % 2 == 0 { 0 } else { 7 }, 0x1f), fill: Fill::b(2).with(crate::fill::SZ, n) };
            let mut ops = pre.clone();
            ops.push(p);
            ops.push(Op::new(P_CACHE, cache_shape(0xff, 1 + 7), 2));
            ops.push(Op::new(P_PROC, proc_shape(1, 1 + 7, 7, 0x0a), 1));
            v.push((format!("processor[{} resources]", n), ops));
        }
        // enough 252-byte nodes (262..270 of them) for the nodes added afterwards to start beyond 64 KiB, then a cache whose
        // next level and a processor whose parent and resources are the LATEST nodes: offsets above 65 535 in every reference
        for count in [262usize, 270] {
            let mut ops = pre.clone();
            for _ in 0..count {
                ops.push(Op { k: P_PROC, shape: proc_shape(0, 1, 0, 0x1f), fill: Fill::b(2).with(crate::fill::SZ, 58) });
            }
            ops.push(Op::new(P_CACHE, cache_shape(0xff, 1), 2));
            ops.push(Op::new(P_CACHE, cache_shape(0xff, 1 + 7), 1));
            ops.push(Op::new(P_PROC, proc_shape(1, 1 + 7, 7, 0x0a), 1));
            ops.push(Op::new(P_PROC, proc_shape(1, 1 + 7, 7, 0x1f), 2));
            v.push((format!("{} large processors then nodes beyond 64 KiB referring to each other", count), ops));
        }
        // a parent handle issued by another table (offset 936, beyond this table's end), first and between other nodes
        v.push(("foreign parent first".into(), vec![Op::new(P_PROC, proc_shape(0, 15, 0, 0x1f), 2), Op::new(P_CACHE, cache_shape(0xff, 0), 2), Op::new(P_PROC, proc_shape(1, 1, 7, 0), 1)]));
        v.push(("foreign parent later".into(), vec![Op::new(P_CACHE, cache_shape(0xff, 0), 2), Op::new(P_PROC, proc_shape(1, 0, 0, 0x1f), 2), Op::new(P_PROC, proc_shape(1, 15, 0, 0x0a), 1), Op::new(P_PROC, proc_shape(0, 1 + 7, 0, 0), 2), Op::new(P_CACHE, cache_shape(0xff, 1), 2)]));
        // next_level / plain-value setters called twice with different values (the last call wins), for the second, third
        // and fifth cache of a table (so that the two handles differ in several bits)
        for k in 1..=5usize {
            let mut ops: Vec<Op> = (0..k).map(|i| Op::new(P_CACHE, cache_shape(0xff, if i == 0 { 0 } else { 1 + 7 }), 2)).collect();
            ops.push(Op::new(P_PROC, proc_shape(1, 0, 7, 0x1f), 2));
            ops.push(Op::new(P_CACHE, cache_shape(0xff, 1 + 7) | CACHE_OVERWRITE, 1));
            ops.push(Op::new(P_CACHE, cache_shape(0x47, 2) | CACHE_OVERWRITE | CACHE_REVERSED, 2));
            ops.push(Op::new(P_PROC, proc_shape(2, 1, 7, 0), 2));
            v.push((format!("overwritten setters after {} caches", k), ops));
        }
        v
    }
    fn summary(&self, img: &[u8], ents: &[Ent]) -> Vec<u64> {
        ents.iter().filter(|e| e.ty == 0 && e.len >= 20).map(|e| rd32(img, e.off + 16) as u64).collect()
    }
    fn run(&self, c: &Ctor, ops: &[Op], obs: &mut dyn FnMut(usize, &dyn Aml, &[u32])) {
        let mut t = pptt::PPTT::new(c.oem_id(), c.oem_table_id(), c.oem_rev());
        let mut ph: Vec<pptt::ProcessorHandle> = vec![];
        let mut ch: Vec<pptt::CacheHandle> = vec![];
        let mut seen: Vec<u32> = vec![];
        obs(0, &t, &seen);
        for (i, op) in ops.iter().enumerate() {
            let f = &op.fill;
            let s = op.shape;
            if op.k == P_PROC {
                let (nres, psel, rsel, opts) = (f.size().map(|n| n as u16).unwrap_or(cnt(s & 3, 58)), (s >> 2) & 15, (s >> 6) & 7, (s >> 9) & 31);
                let foreign = foreign_parent();
                let parent = if psel == 0 { None } else if psel == 15 { Some(&foreign) } else { Some(&ph[sel(psel - 1, ph.len())]) };
                let mut p = pptt::ProcessorNode::new(parent, f.u32(0));
                for r in 0..nres {
                    p = p.add_cache(&ch[sel(rsel, ch.len()).wrapping_add(r as usize) % ch.len()]);
                }
                p = real_proc_opts(p, opts);
                let h = t.add_processor(p);
                seen.push(parse_handle(format!("{:?}", h)));
                ph.push(h);
            } else if op.k == P_CACHE_DEFAULT {
                let h = t.add_cache(pptt::CacheNode::default());
                seen.push(parse_handle(format!("{:?}", h)));
                ch.push(h);
            } else {
                let (mask, nsel) = (s & 0xff, (s >> 8) & 15);
                let next = if nsel == 0 { None } else { Some(&ch[sel(nsel - 1, ch.len())]) };
                let h = t.add_cache(real_cache_over(f, mask | (s & (CACHE_REVERSED | CACHE_TWICE | CACHE_OVERWRITE)), next, ch.first()));
                seen.push(parse_handle(format!("{:?}", h)));
                ch.push(h);
            }
            obs(i + 1, &t, &seen);
        }
    }
    fn reference(&self, c: &Ctor, ops: &[Op]) -> RefOut {
        let mut w = W::new();
        ref_header(&mut w, b"PPTT", 1, c);
        let mut out = RefOut::default();
        let mut ph: Vec<usize> = vec![]; // entry indices of processor nodes
        let mut ch: Vec<usize> = vec![];
        for op in ops {
            let f = &op.fill;
            let s = op.shape;
            let o = w.len();
            let ei = out.ents.len();
            if op.k == P_PROC {
                // type 0, length, reserved(2), flags(4), parent(4), ACPI processor id(4), n private resources(4), resources
                // flags: bit0 physical package, 1 ACPI id valid, 2 thread, 3 leaf, 4 identical implementation
                let (nres, psel, rsel, opts) = (f.size().map(|n| n as u16).unwrap_or(cnt(s & 3, 58)), (s >> 2) & 15, (s >> 6) & 7, (s >> 9) & 31);
                let parent = if psel == 0 { 0 } else if psel == 15 { FOREIGN_PARENT_OFFSET } else { out.ents[ph[sel(psel - 1, ph.len())]].off as u32 };
                w.u8(0).u8(20 + 4 * nres as u8).u16(0).u32(opts as u32).u32(parent).u32(f.u32(0)).u32(nres as u32);
                if psel != 0 && psel != 15 {
                    out.refs.push(RefField { at: o + 8, width: 4, target: ph[sel(psel - 1, ph.len())], what: "parent" });
                }
                for r in 0..nres {
                    let tgt = ch[sel(rsel, ch.len()).wrapping_add(r as usize) % ch.len()];
                    out.refs.push(RefField { at: w.len(), width: 4, target: tgt, what: "private resource" });
                    w.u32(out.ents[tgt].off as u32);
                }
                ph.push(ei);
            } else if op.k == P_CACHE_DEFAULT {
                w.z(28);
                ch.push(ei);
            } else {
                let (mask, nsel) = (s & 0xff, (s >> 8) & 15);
                let next = if nsel == 0 { 0 } else { out.ents[ch[sel(nsel - 1, ch.len())]].off as u32 };
                if nsel != 0 {
                    out.refs.push(RefField { at: o + 8, width: 4, target: ch[sel(nsel - 1, ch.len())], what: "next level cache" });
                }
                ref_cache(&mut w, f, mask, next);
                ch.push(ei);
            }
            out.ents.push(Ent { off: o, ty: if op.k == P_PROC { 0 } else { 1 }, len: w.len() - o });
            out.handles.push(o as u32);
            out.handle_ents.push(ei);
        }
        ref_finish(&mut w);
        out.image = w.0;
        out
    }
    fn walk(&self, img: &[u8]) -> Result<Vec<Ent>, String> {
        let v = super::madt::tl8_walk(img, 36)?;
        for e in &v {
            match e.ty {
                0 => {
                    if e.len < 20 {
                        return Err(format!("processor node at {} shorter than its fixed part", e.off));
                    }
                    let n = rd32(img, e.off + 16) as usize;
                    if e.len != 20 + 4 * n {
                        return Err(format!("processor node at {}: {} private resources need {} bytes, length says {}", e.off, n, 20 + 4 * n, e.len));
                    }
                }
                1 => {
                    if e.len != 28 {
                        return Err(format!("cache node at {} has length {} (28 with cache id)", e.off, e.len));
                    }
                }
                _ => {}
            }
        }
        Ok(v)
    }
    fn fields(&self, k: u8, _s: u16) -> Vec<FT> {
        use FT::*;
        if k == P_PROC {
            vec![U(32)]
        } else if k == P_CACHE_DEFAULT {
            vec![]
        } else {
            vec![U(32), U(32), U(8), E(3), E(3), E(2), U(16), U(32)]
        }
    }
    fn shapes(&self, k: u8) -> Vec<u16> {
        if k == P_PROC {
            vec![proc_shape(0, 0, 0, 0), proc_shape(0, 0, 0, 0x1f), proc_shape(1, 1, 0, 0x15), proc_shape(2, 1, 0, 0x0a), proc_shape(3, 1, 0, 0x1f)]
        } else if k == P_CACHE_DEFAULT {
            vec![0]
        } else {
            vec![cache_shape(0xff, 0), cache_shape(0xff, 0) | CACHE_REVERSED, cache_shape(0, 0), cache_shape(0xff, 1), cache_shape(0x55, 1), cache_shape(0xaa, 0), cache_shape(0x38, 0) | CACHE_REVERSED, cache_shape(0xff, 0) | CACHE_TWICE, cache_shape(0x38, 0) | CACHE_TWICE | CACHE_REVERSED, cache_shape(0xff, 0) | CACHE_OVERWRITE, cache_shape(0xc7, 1) | CACHE_OVERWRITE]
        }
    }
    fn prelude(&self, _k: u8, _shape: u16) -> Vec<Op> {
        self.enable_all()
    }
}

// ------------------------------------------------------------------ RHCT
pub struct Rhct;
pub const R_ISA: u8 = 0;
pub const R_MMU: u8 = 1;
pub const R_CMO: u8 = 2;
pub const R_HART: u8 = 3;
pub const ISA_STRINGS: [&str; 8] = ["rv64i", "rv64im", "", "r\u{e9}", "rv6\0", "rv64imafdch_zx00_zx01_zx02_zx03_zx04_zx05_zx06_zx07_zx08_zx09_zx10_zx11_zx12_zx13_zx14_zx15_zx16_zx17_zx18_zx19_zx20_zx21_zx22_zx23_zx24_zx25_zx26_zx27_zx28_zx29_zx30_zx31_zx32_zx33_zx34_zx35_zx36_zx37_zx38_zx39_zx40_zx41_zx42_zx43_zx44_zx45_zx46_zx47_zx48_zx49_zx50_zx51_zx52_zx53_zx54_zx55_zx56_zx57_zx58_zx59", "rv\0", "rv64imafdc_zicbom_zicboz_sstc"];
/// the ISA string of an op: one of the fixed strings, or (sweep programs) a generated one of explicit length and tail
pub fn isa_string(op: &Op) -> String {
    match op.fill.size() {
        Some(n) => crate::fill::gen_string("rv64imafdc_zicsr_zifencei_", n, op.fill.size2().unwrap_or(0)),
        None => ISA_STRINGS[op.shape as usize % 8].to_string(),
    }
}
pub fn hart_shape(isa_sel: u16, ncmo: u16, cmo_sel: u16) -> u16 {
    isa_sel | (ncmo << 3) | (cmo_sel << 5)
}
impl Table for Rhct {
    fn name(&self) -> &'static str {
        "rhct"
    }
    fn kinds(&self) -> &'static [&'static str] {
        &["add_isa_string", "add_mmu_node", "add_cmo", "add_hart_info"]
    }
    fn ctor_fields(&self) -> Vec<FT> {
        vec![FT::U(64)]
    }
    fn enable_all(&self) -> Vec<Op> {
        vec![Op::new(R_ISA, 0, 2), Op::new(R_CMO, 0, 2)]
    }
    fn alphabet(&self, _c: &Ctor, hist: &[Op], level: u8) -> Vec<Op> {
        let ni = hist.iter().filter(|o| o.k == R_ISA).count();
        let nc = hist.iter().filter(|o| o.k == R_CMO).count();
        let mut v = vec![];
        if level == 0 {
            v.push(Op::new(R_ISA, (hist.len() % 2) as u16, 2));
            v.push(Op::new(R_MMU, 0, 2));
            v.push(Op::new(R_CMO, 0, 2));
            if ni > 0 {
                v.push(Op::new(R_HART, hart_shape(7, if nc > 0 { 1 } else { 0 }, 7), 2));
            }
            return v;
        }
        let fl = fills(level);
        let nstr = if level == 1 { 6 } else { 8 };
        for s in 0..nstr {
            v.push(Op::new(R_ISA, s, 2));
        }
        for f in fl {
            v.push(Op::new(R_MMU, 0, *f));
            v.push(Op::new(R_CMO, 0, *f));
        }
        if ni > 0 {
            let isels: Vec<u16> = if ni > 1 { vec![0, 7] } else { vec![0] };
            for (n, is) in isels.iter().enumerate() {
                for ncmo in 0..=3u16 {
                    if ncmo > 0 && nc == 0 {
                        continue;
                    }
                    if ncmo == 3 && (n > 0 || hist.iter().any(|o| o.k == R_HART && (o.shape >> 3) & 3 == 3)) {
                        continue; // one 296-byte hart-info node per history is enough
                    }
                    let csels: Vec<u16> = if ncmo > 0 && nc > 1 { vec![0, 7] } else { vec![0] };
                    for cs in csels {
                        v.push(Op::new(R_HART, hart_shape(*is, ncmo, cs), fl[(n + ncmo as usize) % fl.len()]));
                    }
                }
            }
        }
        v
    }
    fn run(&self, c: &Ctor, ops: &[Op], obs: &mut dyn FnMut(usize, &dyn Aml, &[u32])) {
        let mut t = rhct::RHCT::new(c.oem_id(), c.oem_table_id(), c.oem_rev(), c.fill.u64(0));
        let mut ih: Vec<rhct::IsaStringHandle> = vec![];
        let mut chs: Vec<rhct::CmoHandle> = vec![];
        let mut seen: Vec<u32> = vec![];
        obs(0, &t, &seen);
        for (i, op) in ops.iter().enumerate() {
            let f = &op.fill;
            match op.k {
                R_ISA => {
                    let h = t.add_isa_string(Box::leak(isa_string(op).into_boxed_str()));
                    seen.push(parse_handle(format!("{:?}", h)));
                    ih.push(h);
                }
                R_MMU => {
                    use rhct::VirtualAddressScheme as V;
                    t.add_mmu_node([V::Sv39, V::Sv48, V::Sv57].into_iter().nth(f.e(0, 3)).unwrap());
                }
                R_CMO => {
                    let h = t.add_cmo(rhct::CmoNode::new(f.u8(0), f.u8(1), f.u8(2)));
                    seen.push(parse_handle(format!("{:?}", h)));
                    chs.push(h);
                }
                _ => {
                    let s = op.shape;
                    let (isel, ncmo, csel) = (s & 7, f.size().map(|n| n as u16).unwrap_or(cnt((s >> 3) & 3, 70)), (s >> 5) & 7);
                    let mut h = rhct::HartInfoNode::new(f.u32(0), &ih[sel(isel, ih.len())]);
                    for r in 0..ncmo {
                        h = h.with_cmo(&chs[sel(csel, chs.len()).wrapping_add(r as usize) % chs.len()]);
                    }
                    t.add_hart_info(h);
                }
            }
            obs(i + 1, &t, &seen);
        }
    }
    fn reference(&self, c: &Ctor, ops: &[Op]) -> RefOut {
        // RISC-V RHCT: header, flags(4)=0, timebase frequency(8), node count(4), node array offset(4)=56, nodes
        let mut w = W::new();
        ref_header(&mut w, b"RHCT", 1, c);
        w.u32(0).u64(c.fill.u64(0)).u32(ops.len() as u32).u32(56);
        let mut out = RefOut::default();
        let mut ih: Vec<usize> = vec![];
        let mut chs: Vec<usize> = vec![];
        for op in ops {
            let f = &op.fill;
            let o = w.len();
            let ei = out.ents.len();
            let ty;
            match op.k {
                R_ISA => {
                    // type 0, length(2), revision 1, ISA length incl. NUL (2), string, NUL, pad to even
                    let isa = isa_string(op);
                    let s = isa.as_bytes();
                    let mut len = 8 + s.len() + 1;
                    if len % 2 == 1 {
                        len += 1;
                    }
                    w.u16(0).u16(len as u16).u16(1).u16(s.len() as u16 + 1).b(s).u8(0);
                    if w.len() - o < len {
                        w.u8(0);
                    }
                    ty = 0;
                    ih.push(ei);
                    out.handles.push(o as u32);
                    out.handle_ents.push(ei);
                }
                R_MMU => {
                    // type 2, length 8, revision 1, reserved, MMU type
                    w.u16(2).u16(8).u16(1).u8(0).u8(f.e(0, 3) as u8);
                    ty = 2;
                }
                R_CMO => {
                    // type 1, length 10, revision 1, reserved, CBOM, CBOP, CBOZ block sizes
                    w.u16(1).u16(10).u16(1).u8(0).u8(f.u8(0)).u8(f.u8(1)).u8(f.u8(2));
                    ty = 1;
                    chs.push(ei);
                    out.handles.push(o as u32);
                    out.handle_ents.push(ei);
                }
                _ => {
                    // type 65535, length, revision 1, number of offsets(2), ACPI processor UID(4), offsets(4 each)
                    let s = op.shape;
                    let (isel, ncmo, csel) = (s & 7, f.size().map(|n| n as u16).unwrap_or(cnt((s >> 3) & 3, 70)), (s >> 5) & 7);
                    let n = 1 + ncmo as usize;
                    w.u16(0xffff).u16((12 + 4 * n) as u16).u16(1).u16(n as u16).u32(f.u32(0));
                    let tgt = ih[sel(isel, ih.len())];
                    out.refs.push(RefField { at: w.len(), width: 4, target: tgt, what: "ISA string offset" });
                    w.u32(out.ents[tgt].off as u32);
                    for r in 0..ncmo {
                        let tgt = chs[sel(csel, chs.len()).wrapping_add(r as usize) % chs.len()];
                        out.refs.push(RefField { at: w.len(), width: 4, target: tgt, what: "CMO offset" });
                        w.u32(out.ents[tgt].off as u32);
                    }
                    ty = 0xffff;
                }
            }
            out.ents.push(Ent { off: o, ty, len: w.len() - o });
        }
        ref_finish(&mut w);
        out.image = w.0;
        out
    }
    fn walk(&self, img: &[u8]) -> Result<Vec<Ent>, String> {
        if img.len() < 56 {
            return Err(format!("image of {} bytes shorter than the fixed part (56)", img.len()));
        }
        let first = rd32(img, 52) as usize;
        if first != 56 {
            return Err(format!("node array offset {} but nodes start at 56", first));
        }
        let v = tl16_walk(img, first, 0, 2, 2)?;
        for e in &v {
            match e.ty {
                0 => {
                    if e.len < 8 {
                        return Err(format!("ISA node at {} shorter than its fixed part", e.off));
                    }
                    let sl = rd16(img, e.off + 6) as usize;
                    let mut want = 8 + sl;
                    if want % 2 == 1 {
                        want += 1;
                    }
                    if sl == 0 || e.len != want {
                        return Err(format!("ISA node at {}: string length {} needs {} bytes, length says {}", e.off, sl, want, e.len));
                    }
                    if img[e.off + 8 + sl - 1] != 0 {
                        return Err(format!("ISA node at {}: string length field {} does not end on the terminating NUL", e.off, sl));
                    }
                }
                1 if e.len != 10 => return Err(format!("CMO node at {} has length {}", e.off, e.len)),
                2 if e.len != 8 => return Err(format!("MMU node at {} has length {}", e.off, e.len)),
                0xffff => {
                    if e.len < 12 {
                        return Err(format!("hart info node at {} shorter than its fixed part", e.off));
                    }
                    let n = rd16(img, e.off + 6) as usize;
                    if e.len != 12 + 4 * n {
                        return Err(format!("hart info node at {}: {} offsets need {} bytes, length says {}", e.off, n, 12 + 4 * n, e.len));
                    }
                }
                _ => {}
            }
        }
        Ok(v)
    }
    /// every ISA string length 0..=300 (node sizes across 256), strings with whitespace / NUL heads and tails at even and
    /// odd lengths, every hart-info offset count 0..=70; each followed by nodes whose offsets depend on it
    fn sweeps(&self, _level: u8) -> Vec<(String, Vec<Op>)> {
        use crate::fill::{SX, SZ};
        let mut v = vec![];
        let isa = |n: u64, t: u64| Op { k: R_ISA, shape: 0, fill: Fill::b(2).with(SZ, n).with(SX, t) };
        let tail_of = |n: u64, t: u64| vec![isa(n, t), Op::new(R_CMO, 0, 2), Op::new(R_ISA, 1, 2), Op::new(R_HART, hart_shape(7, 1, 7), 2), Op::new(R_HART, hart_shape(0, 1, 0), 1)];
        for n in 0..=300u64 {
            v.push((format!("isa[len {}]", n), tail_of(n, 0)));
        }
        // one node so large that every node after it starts beyond 64 KiB: the handles issued then, and the offset fields
        // that store them, need more than 16 bits
        for n in [65_400u64, 65_470, 65_480, 65_500, 65_510] {
            v.push((format!("isa[len {}] then nodes beyond 64 KiB", n), tail_of(n, 0)));
        }
        for t in 1..16u64 {
            for n in [0u64, 1, 4, 5, 6, 7, 28, 29, 245, 246] {
                v.push((format!("isa[len {} tail {}]", n, t), tail_of(n, t)));
            }
        }
        for n in 0..=70u64 {
            let h = Op { k: R_HART, shape: hart_shape(0, 0, if n % 2 == 0 { 0 } else { 7 }), fill: Fill::b(2).with(SZ, n) };
            v.push((format!("hart[{} cmo offsets]", n), vec![Op::new(R_ISA, 0, 2), Op::new(R_CMO, 0, 2), Op::new(R_CMO, 0, 1), h, Op::new(R_ISA, 1, 2), Op::new(R_HART, hart_shape(7, 1, 7), 1)]));
        }
        v
    }
    fn counts(&self, img: &[u8], ents: &[Ent]) -> Result<(), String> {
        let n = rd32(img, 48) as usize;
        if n != ents.len() {
            return Err(format!("node count field {} but the body holds {} nodes", n, ents.len()));
        }
        Ok(())
    }
    fn summary(&self, img: &[u8], ents: &[Ent]) -> Vec<u64> {
        ents.iter().filter(|e| e.ty == 0 || e.ty == 0xffff).map(|e| rd16(img, e.off + 6) as u64).collect()
    }
    fn fields(&self, k: u8, _s: u16) -> Vec<FT> {
        use FT::*;
        match k {
            R_ISA => vec![],
            R_MMU => vec![E(3)],
            R_CMO => vec![U(8), U(8), U(8)],
            _ => vec![U(32)],
        }
    }
    fn shapes(&self, k: u8) -> Vec<u16> {
        match k {
            R_ISA => (0..8).collect(),
            R_HART => vec![hart_shape(0, 0, 0), hart_shape(0, 1, 0), hart_shape(0, 2, 0), hart_shape(0, 3, 0)],
            _ => vec![0],
        }
    }
    fn prelude(&self, _k: u8, _s: u16) -> Vec<Op> {
        self.enable_all()
    }
}

/// entries with a `tw`-byte type at +toff and a 16-bit length at +loff
pub fn tl16_walk(img: &[u8], first: usize, toff: usize, tw: usize, loff: usize) -> Result<Vec<Ent>, String> {
    if img.len() < first {
        return Err(format!("first entry offset {} beyond the image end {}", first, img.len()));
    }
    let mut v = vec![];
    let mut o = first;
    let hdr = loff + 2;
    while o < img.len() {
        if o + hdr > img.len() {
            return Err(format!("entry header at {} overruns the image end {}", o, img.len()));
        }
        let ty = if tw == 1 { img[o + toff] as u32 } else { rd16(img, o + toff) as u32 };
        let len = rd16(img, o + loff) as usize;
        if len < hdr || o + len > img.len() {
            return Err(format!("entry at {} (type {}) declares length {} but {} bytes remain", o, ty, len, img.len() - o));
        }
        v.push(Ent { off: o, ty, len });
        o += len;
    }
    Ok(v)
}

// ------------------------------------------------------------------ RIMT
pub struct Rimt;
pub const I_IOMMU: u8 = 0;
pub const I_RC: u8 = 1;
pub const I_PLAT: u8 = 2;
pub const PLAT_NAMES: [&str; 5] = ["ACPI0001", "D\u{e9}v\u{fc}", "A\0", "", "\\_SB_.DV00.DV01.DV02.DV03.DV04.DV05.DV06.DV07.DV08.DV09.DV10.DV11.DV12.DV13.DV14.DV15.DV16.DV17.DV18.DV19.DV20.DV21.DV22.DV23.DV24.DV25.DV26.DV27.DV28.DV29.DV30.DV31.DV32.DV33.DV34.DV35.DV36.DV37.DV38.DV39.DV40.DV41.DV42.DV43.DV44.DV45.DV46.DV47.DV48.DV49.DV50.DV51.DV52.DV53.DV54.DV55.DV56.DV57.DV58.DV59"];
pub fn iommu_shape(nw: u16, wires_some: bool, base: bool, pci: bool, prox: bool) -> u16 {
    nw | (wires_some as u16) << 2 | (base as u16) << 3 | (pci as u16) << 4 | (prox as u16) << 5
}
pub fn map_shape(nm: u16, some: bool, selv: u16, name: u16) -> u16 {
    nm | (some as u16) << 2 | (selv << 3) | (name << 6)
}
/// number of id mappings of a root-complex / platform op: shape code, or (root complex sweep programs) the explicit size
fn nmaps(f: &Fill, base: u8, shape: u16) -> u16 {
    if base == 4 {
        f.size().map(|n| n as u16).unwrap_or(cnt(shape & 3, 13))
    } else {
        cnt(shape & 3, 13)
    }
}
/// platform device name: one of the fixed names, or (sweep programs) a generated one of explicit length and tail
pub fn plat_name(op: &Op) -> String {
    match op.fill.size() {
        Some(n) => crate::fill::gen_string("\\_SB_.DEV0.", n, op.fill.size2().unwrap_or(0)),
        None => PLAT_NAMES[((op.shape >> 6) & 7) as usize % PLAT_NAMES.len()].to_string(),
    }
}
/// an IOMMU offset issued by another, larger RIMT (offsets are plain values: the crate stores what it is given; the value
/// names no node of the table under test, so C05 does not resolve it). Selector value 5 picks it.
pub const FOREIGN_IOMMU_OFFSET: u32 = 48 + 32 * 29;
pub fn foreign_iommu() -> rimt::IommuOffset {
    let mut t = rimt::RIMT::new(*b"OTHER1", *b"OTHERTBL", 1);
    let mut h = t.add_iommu(rimt::Iommu::new(0, None, None, None, None));
    for i in 1..30u16 {
        h = t.add_iommu(rimt::Iommu::new(i, None, None, None, None));
    }
    h
}
fn real_maps(f: &Fill, base: u8, shape: u16, hs: &[rimt::IommuOffset]) -> Option<Vec<rimt::IdMapping>> {
    let (nm, some, sv) = (nmaps(f, base, shape), shape & 4 != 0, (shape >> 3) & 7);
    if !some {
        return None;
    }
    let mut v = vec![];
    for m in 0..nm {
        let b = base + 6 * (m % 4) as u8;
        let h = if sv == 5 { foreign_iommu() } else { hs[sel(sv, hs.len()).wrapping_add(m as usize) % hs.len()] };
        v.push(rimt::IdMapping::new(f.u32(b), f.u32(b + 1), f.u32(b + 2), h, f.bool(b + 3), f.bool(b + 4), f.bool(b + 5)));
    }
    Some(crate::util::spare(v))
}
fn ref_maps(w: &mut W, out: &mut RefOut, f: &Fill, base: u8, shape: u16, hs: &[usize]) {
    let (nm, some, sv) = (nmaps(f, base, shape), shape & 4 != 0, (shape >> 3) & 7);
    if !some {
        return;
    }
    for m in 0..nm {
        let b = base + 6 * (m % 4) as u8;
        // source id base, destination id base, number of ids, destination IOMMU offset, flags (bit0 ATS, 1 PRI, 2 RCiEP)
        w.u32(f.u32(b)).u32(f.u32(b + 1)).u32(f.u32(b + 2));
        if sv == 5 {
            w.u32(FOREIGN_IOMMU_OFFSET);
        } else {
            let tgt = hs[sel(sv, hs.len()).wrapping_add(m as usize) % hs.len()];
            out.refs.push(RefField { at: w.len(), width: 4, target: tgt, what: "destination IOMMU offset" });
            w.u32(out.ents[tgt].off as u32);
        }
        w.u32(f.bool(b + 3) as u32 | (f.bool(b + 4) as u32) << 1 | (f.bool(b + 5) as u32) << 2);
    }
}
impl Table for Rimt {
    fn name(&self) -> &'static str {
        "rimt"
    }
    fn kinds(&self) -> &'static [&'static str] {
        &["add_iommu", "add_pcie_root_complex", "add_platform"]
    }
    fn enable_all(&self) -> Vec<Op> {
        vec![Op::new(I_IOMMU, iommu_shape(1, true, true, true, true), 2)]
    }
    fn alphabet(&self, _c: &Ctor, hist: &[Op], level: u8) -> Vec<Op> {
        let nh = hist.iter().filter(|o| o.k == I_IOMMU).count();
        let mut v = vec![];
        if level == 0 {
            v.push(Op::new(I_IOMMU, iommu_shape(1, true, true, true, true), 2));
            v.push(Op::new(I_RC, map_shape(if nh > 0 { 1 } else { 0 }, true, 7, 0), 2));
            v.push(Op::new(I_PLAT, map_shape(if nh > 0 { 1 } else { 0 }, true, 7, (hist.len() % 2) as u16), 2));
            return v;
        }
        let fl = fills(level);
        let isa: &[(u16, bool, bool, bool, bool)] = if level == 1 {
            &[(0, false, false, false, false), (1, true, true, true, true), (2, true, true, false, true), (0, true, false, true, false)]
        } else {
            &[
                (0, false, false, false, false),
                (1, true, true, true, true),
                (2, true, true, false, true),
                (0, true, false, true, false),
                (2, true, false, true, true),
                (1, true, true, false, false),
            ]
        };
        for (n, s) in isa.iter().enumerate() {
            v.push(Op::new(I_IOMMU, iommu_shape(s.0, s.1, s.2, s.3, s.4), fl[n % fl.len()]));
        }
        if !hist.iter().any(|o| o.shape & 3 == 3 || (o.k == I_PLAT && (o.shape >> 6) & 7 == 4)) {
            // entries longer than 255 bytes: 30 wires, 13 mappings, a 300-character name
            v.push(Op::new(I_IOMMU, iommu_shape(3, true, true, true, true), fl[0]));
            v.push(Op::new(I_PLAT, map_shape(0, true, 0, 4), fl[0]));
            if nh > 0 {
                v.push(Op::new(I_RC, map_shape(3, true, 7, 0), fl[0]));
            }
        }
        for k in [I_RC, I_PLAT] {
            let names: Vec<u16> = if k == I_PLAT { if level == 1 { vec![1, 2] } else { vec![0, 1, 2, 3] } } else { vec![0] };
            for (n, name) in names.iter().enumerate() {
                v.push(Op::new(k, map_shape(0, false, 0, *name), fl[n % fl.len()]));
                v.push(Op::new(k, map_shape(0, true, 0, *name), fl[(n + 1) % fl.len()]));
                if nh > 0 {
                    let sels: Vec<u16> = if nh > 1 { vec![0, 7] } else { vec![0] };
                    for sv in sels {
                        v.push(Op::new(k, map_shape(1, true, sv, *name), fl[n % fl.len()]));
                        v.push(Op::new(k, map_shape(2, true, sv, *name), fl[(n + 1) % fl.len()]));
                    }
                }
            }
        }
        v
    }
    fn run(&self, c: &Ctor, ops: &[Op], obs: &mut dyn FnMut(usize, &dyn Aml, &[u32])) {
        let mut t = rimt::RIMT::new(c.oem_id(), c.oem_table_id(), c.oem_rev());
        let mut hs: Vec<rimt::IommuOffset> = vec![];
        obs(0, &t, &[]);
        for (i, op) in ops.iter().enumerate() {
            let f = &op.fill;
            let s = op.shape;
            match op.k {
                I_IOMMU => {
                    let (nw, ws, bs, ps, xs) = (f.size().map(|n| n as u16).unwrap_or(cnt(s & 3, 30)), s & 4 != 0, s & 8 != 0, s & 16 != 0, s & 32 != 0);
                    let wires = if ws {
                        Some(crate::util::spare((0..nw).map(|w| { let b = 7 + 4 * (w % 4) as u8; rimt::InterruptWire::new(f.u32(b), f.bool(b + 1), f.bool(b + 2), f.u16(b + 3)) }).collect()))
                    } else {
                        None
                    };
                    let pci = if ps { Some(rimt::PciDevice::new(f.u16(2), f.u8(3), f.e(4, 32) as u8, f.e(5, 8) as u8)) } else { None };
                    let h = t.add_iommu(rimt::Iommu::new(f.u16(0), if bs { Some(f.u64(1)) } else { None }, pci, if xs { Some(f.u32(6)) } else { None }, wires));
                    hs.push(h);
                }
                I_RC => {
                    let maps = real_maps(f, 4, s, &hs);
                    t.add_pcie_root_complex(rimt::PcieRootComplex::new(f.u16(0), f.u16(1), f.bool(2), f.bool(3), maps));
                }
                _ => {
                    let maps = real_maps(f, 1, s, &hs);
                    t.add_platform(rimt::Platform::new(f.u16(0), crate::util::spare_string(&plat_name(op)), maps));
                }
            }
            obs(i + 1, &t, &[]);
        }
    }
    fn reference(&self, c: &Ctor, ops: &[Op]) -> RefOut {
        // header, number of devices(4), device array offset(4)=48, reserved(4), devices
        let mut w = W::new();
        ref_header(&mut w, b"RIMT", 1, c);
        w.u32(ops.len() as u32).u32(48).u32(0);
        let mut out = RefOut::default();
        let mut hs: Vec<usize> = vec![];
        for op in ops {
            let f = &op.fill;
            let s = op.shape;
            let o = w.len();
            let ei = out.ents.len();
            match op.k {
                I_IOMMU => {
                    let (nw, ws, bs, ps, xs) = (f.size().map(|n| n as u16).unwrap_or(cnt(s & 3, 30)), s & 4 != 0, s & 8 != 0, s & 16 != 0, s & 32 != 0);
                    let nw = if ws { nw } else { 0 };
                    // type 0, revision 1, length(2), id(2), model(2)=0, base(8), flags(4: bit0 PCI, bit1 PXM valid),
                    // segment(2), BDF(2), proximity domain(4), n wires(2), wire array offset(2)=32, wires(8 each)
                    w.u8(0).u8(1).u16(32 + 8 * nw).u16(f.u16(0)).u16(0).u64(if bs { f.u64(1) } else { 0 });
                    w.u32(ps as u32 | (xs as u32) << 1);
                    let bdf = ((f.u8(3) as u16) << 8) | ((f.e(4, 32) as u16) << 3) | f.e(5, 8) as u16;
                    w.u16(if ps { f.u16(2) } else { 0 }).u16(if ps { bdf } else { 0 }).u32(if xs { f.u32(6) } else { 0 }).u16(nw).u16(32);
                    for wi in 0..nw {
                        let b = 7 + 4 * (wi % 4) as u8;
                        // interrupt number(4), flags(2: bit0 level, bit1 active high), APLIC id(2)
                        w.u32(f.u32(b)).u16(f.bool(b + 1) as u16 | (f.bool(b + 2) as u16) << 1).u16(f.u16(b + 3));
                    }
                    hs.push(ei);
                    out.handles.push(o as u32);
                    out.handle_ents.push(ei);
                    out.ents.push(Ent { off: o, ty: 0, len: w.len() - o });
                }
                I_RC => {
                    let nm = if s & 4 != 0 { nmaps(f, 4, s) } else { 0 };
                    // type 1, revision 1, length(2), id(2), segment(2), flags(4: bit0 ATS, bit1 PRI), map offset(2)=16, n maps(2)
                    w.u8(1).u8(1).u16(16 + 20 * nm).u16(f.u16(0)).u16(f.u16(1)).u32(f.bool(2) as u32 | (f.bool(3) as u32) << 1).u16(16).u16(nm);
                    out.ents.push(Ent { off: o, ty: 1, len: 0 });
                    ref_maps(&mut w, &mut out, f, 4, s, &hs);
                    out.ents[ei].len = w.len() - o;
                }
                _ => {
                    let nm = if s & 4 != 0 { nmaps(f, 1, s) } else { 0 };
                    let pname = plat_name(op);
                    let name = pname.as_bytes();
                    // type 2, revision 1, length(2), id(2), reserved(2), map offset(2)=12+name+NUL, n maps(2), name, NUL, maps
                    let mo = 12 + name.len() + 1;
                    w.u8(2).u8(1).u16((mo + 20 * nm as usize) as u16).u16(f.u16(0)).u16(0).u16(mo as u16).u16(nm).b(name).u8(0);
                    out.ents.push(Ent { off: o, ty: 2, len: 0 });
                    ref_maps(&mut w, &mut out, f, 1, s, &hs);
                    out.ents[ei].len = w.len() - o;
                }
            }
        }
        ref_finish(&mut w);
        out.image = w.0;
        out
    }
    /// every wire count 0..=40, mapping count 0..=20, name length 0..=300 and names with whitespace / NUL heads and tails;
    /// each between nodes whose offsets depend on it
    fn sweeps(&self, _level: u8) -> Vec<(String, Vec<Op>)> {
        use crate::fill::{SX, SZ};
        let mut v = vec![];
        let io = Op::new(I_IOMMU, iommu_shape(1, true, true, true, true), 2);
        let rc = Op::new(I_RC, map_shape(1, true, 7, 0), 1);
        for n in 0..=40u64 {
            let x = Op { k: I_IOMMU, shape: iommu_shape(0, true, true, n % 2 == 0, true), fill: Fill::b(2).with(SZ, n) };
            v.push((format!("iommu[{} wires]", n), vec![io, x, io, rc]));
        }
        for n in 0..=20u64 {
            let x = Op { k: I_RC, shape: map_shape(0, true, if n % 2 == 0 { 0 } else { 7 }, 0), fill: Fill::b(2).with(SZ, n) };
            v.push((format!("root-complex[{} mappings]", n), vec![io, io, x, io, rc]));
        }
        // devices so large (two of ~1 640 mappings of 20 bytes each) that the IOMMU added after them lies beyond 64 KiB, then
        // devices whose mappings refer to THAT IOMMU (selector 7 = the latest): its offset needs more than 16 bits
        // (one device cannot do it alone: its own length field has 16 bits)
        for n in [1_636u64, 1_637, 1_638, 1_640, 1_700, 3_000] {
            let x = Op { k: I_RC, shape: map_shape(0, true, 0, 0), fill: Fill::b(2).with(SZ, n) };
            let y = Op { k: I_RC, shape: map_shape(0, true, 0, 0), fill: Fill::b(3).with(SZ, 1_640) };
            v.push((format!("root complexes of {} and 1640 mappings, then an iommu beyond 64 KiB and references to it", n), vec![io, x, y, io, rc, Op::new(I_PLAT, map_shape(2, true, 7, 0), 2), io, rc]));
        }
        // id mappings that continue each other (source and destination ranges adjacent, equal flags) but go to DIFFERENT
        // IOMMUs, and the same going to one IOMMU: a list is emitted entry by entry, never merged
        {
            // mapping m reads fields base+6*(m%4) .. +5: source id base, destination id base, count, ats, pri, rciep
            let contiguous = |base: u8, sv: u16, k: u8| Op {
                k,
                shape: map_shape(2, true, sv, 0),
                fill: Fill::b(0).with(base, 0x100).with(base + 1, 0x2000).with(base + 2, 0x10).with(base + 6, 0x110).with(base + 7, 0x2010).with(base + 8, 0x10),
            };
            let io2 = Op::new(I_IOMMU, iommu_shape(0, false, true, false, false), 1);
            v.push(("contiguous mappings to different iommus (root complex)".into(), vec![io, io2, contiguous(4, 0, I_RC), io, rc]));
            v.push(("contiguous mappings to different iommus (platform)".into(), vec![io, io2, contiguous(1, 0, I_PLAT), io, rc]));
            v.push(("contiguous mappings to one iommu".into(), vec![io, contiguous(4, 0, I_RC), contiguous(1, 0, I_PLAT), io]));
            v.push(("identical mappings".into(), vec![io, io2, Op { k: I_RC, shape: map_shape(3, true, 0, 0), fill: Fill::b(0) }, Op { k: I_PLAT, shape: map_shape(2, true, 0, 1), fill: Fill::b(crate::fill::EQUAL) }]));
        }
        // mappings whose destination offset was issued by another (larger) table, with no IOMMU / one IOMMU of its own before
        v.push(("foreign iommu offset, empty table".into(), vec![Op::new(I_RC, map_shape(2, true, 5, 0), 2), Op::new(I_PLAT, map_shape(1, true, 5, 1), 1), io, rc]));
        v.push(("foreign iommu offset, later".into(), vec![io, Op::new(I_PLAT, map_shape(2, true, 5, 0), 2), Op::new(I_RC, map_shape(1, true, 5, 0), 1), io, rc]));
        let plat = |n: u64, t: u64, nm: u16| Op { k: I_PLAT, shape: map_shape(nm, true, 7, 0), fill: Fill::b(2).with(SZ, n).with(SX, t) };
        for n in 0..=300u64 {
            v.push((format!("platform[name {}]", n), vec![io, plat(n, 0, (n % 3) as u16), io, rc]));
        }
        for t in 1..16u64 {
            for n in [0u64, 1, 7, 8, 241, 242] {
                v.push((format!("platform[name {} tail {}]", n, t), vec![io, plat(n, t, 1), io, rc]));
            }
        }
        v
    }
    fn walk(&self, img: &[u8]) -> Result<Vec<Ent>, String> {
        if img.len() < 48 {
            return Err(format!("image of {} bytes shorter than the fixed part (48)", img.len()));
        }
        let first = rd32(img, 40) as usize;
        if first != 48 {
            return Err(format!("device array offset {} but devices start at 48", first));
        }
        let v = tl16_walk(img, first, 0, 1, 2)?;
        for e in &v {
            match e.ty {
                0 => {
                    if e.len < 32 {
                        return Err(format!("IOMMU node at {} shorter than its fixed part", e.off));
                    }
                    let (n, ao) = (rd16(img, e.off + 28) as usize, rd16(img, e.off + 30) as usize);
                    if ao != 32 || e.len != ao + 8 * n {
                        return Err(format!("IOMMU node at {}: {} wires at offset {} need {} bytes, length says {}", e.off, n, ao, ao + 8 * n, e.len));
                    }
                }
                1 => {
                    if e.len < 16 {
                        return Err(format!("root complex node at {} shorter than its fixed part", e.off));
                    }
                    let (ao, n) = (rd16(img, e.off + 12) as usize, rd16(img, e.off + 14) as usize);
                    if ao != 16 || e.len != ao + 20 * n {
                        return Err(format!("root complex node at {}: {} mappings at offset {} need {} bytes, length says {}", e.off, n, ao, ao + 20 * n, e.len));
                    }
                }
                2 => {
                    if e.len < 13 {
                        return Err(format!("platform node at {} shorter than its fixed part", e.off));
                    }
                    let (ao, n) = (rd16(img, e.off + 8) as usize, rd16(img, e.off + 10) as usize);
                    if ao < 13 || e.len != ao + 20 * n {
                        return Err(format!("platform node at {}: {} mappings at offset {} need {} bytes, length says {}", e.off, n, ao, ao + 20 * n, e.len));
                    }
                    // name is NUL-terminated exactly at the mapping array offset
                    let name = &img[e.off + 12..e.off + ao];
                    if name[name.len() - 1] != 0 {
                        return Err(format!("platform node at {}: mapping offset {} does not follow the name's NUL", e.off, ao));
                    }
                }
                _ => {}
            }
        }
        Ok(v)
    }
    fn counts(&self, img: &[u8], ents: &[Ent]) -> Result<(), String> {
        let n = rd32(img, 36) as usize;
        if n != ents.len() {
            return Err(format!("device count field {} but the body holds {} devices", n, ents.len()));
        }
        Ok(())
    }
    fn summary(&self, img: &[u8], ents: &[Ent]) -> Vec<u64> {
        let mut v = vec![];
        for e in ents {
            match e.ty {
                0 if e.len >= 32 => v.extend([rd16(img, e.off + 28) as u64, rd16(img, e.off + 30) as u64]),
                1 if e.len >= 16 => v.extend([rd16(img, e.off + 12) as u64, rd16(img, e.off + 14) as u64]),
                2 if e.len >= 12 => v.extend([rd16(img, e.off + 8) as u64, rd16(img, e.off + 10) as u64]),
                _ => {}
            }
        }
        v
    }
    fn fields(&self, k: u8, s: u16) -> Vec<FT> {
        use FT::*;
        let maps = |v: &mut Vec<FT>| {
            for _ in 0..cnt(s & 3, 4) {
                v.extend([U(32), U(32), U(32), B, B, B]);
            }
        };
        match k {
            I_IOMMU => {
                let mut v = vec![U(16), U(64), U(16), U(8), E(32), E(8), U(32)];
                for _ in 0..cnt(s & 3, 4) {
                    v.extend([U(32), B, B, U(16)]);
                }
                v
            }
            I_RC => {
                let mut v = vec![U(16), U(16), B, B];
                maps(&mut v);
                v
            }
            _ => {
                let mut v = vec![U(16)];
                maps(&mut v);
                v
            }
        }
    }
    fn shapes(&self, k: u8) -> Vec<u16> {
        match k {
            I_IOMMU => {
                let mut v = vec![];
                for m in 0..8u16 {
                    v.push(iommu_shape(m % 3, true, m & 1 != 0, m & 2 != 0, m & 4 != 0));
                }
                v.push(iommu_shape(0, false, true, true, true));
                v.push(iommu_shape(3, true, true, true, true));
                v
            }
            I_RC => vec![map_shape(0, false, 0, 0), map_shape(0, true, 0, 0), map_shape(1, true, 0, 0), map_shape(2, true, 0, 0), map_shape(3, true, 0, 0)],
            _ => {
                let mut v = vec![];
                for name in 0..5 {
                    v.push(map_shape(0, false, 0, name));
                    v.push(map_shape(2, true, 0, name));
                }
                v.push(map_shape(3, true, 0, 0));
                v
            }
        }
    }
    fn prelude(&self, _k: u8, _s: u16) -> Vec<Op> {
        self.enable_all()
    }
}

// ------------------------------------------------------------------ VIOT
pub struct Viot;
pub const V_PCI_IOMMU: u8 = 0;
pub const V_MMIO_IOMMU: u8 = 1;
pub const V_PCI_RANGE: u8 = 2;
pub const V_MMIO_EP: u8 = 3;
fn vdev(f: &Fill, b: u8) -> viot::PciDevice {
    viot::PciDevice::new(f.u16(b), f.u8(b + 1), f.e(b + 2, 32) as u8, f.e(b + 3, 8) as u8)
}
fn vbdf(f: &Fill, b: u8) -> u16 {
    ((f.u8(b + 1) as u16) << 8) | ((f.e(b + 2, 32) as u16) << 3) | f.e(b + 3, 8) as u16
}
impl Table for Viot {
    fn name(&self) -> &'static str {
        "viot"
    }
    fn unjudged(&self, _ops: &[Op]) -> Vec<usize> {
        vec![8] // table Revision: pinned to the baseline, not judged
    }
    fn max_image(&self) -> Option<usize> {
        Some(65_535)
    }
    fn kinds(&self) -> &'static [&'static str] {
        &["add_virtio_pci_iommu", "add_virtio_mmio_iommu", "add_pci_range", "add_mmio_endpoint"]
    }
    fn enable_all(&self) -> Vec<Op> {
        vec![Op::new(V_PCI_IOMMU, 0, 2)]
    }
    fn alphabet(&self, _c: &Ctor, hist: &[Op], level: u8) -> Vec<Op> {
        let nh = hist.iter().filter(|o| o.k <= V_MMIO_IOMMU).count();
        let mut v = vec![];
        if level == 0 {
            v.push(Op::new(V_PCI_IOMMU, 0, 2));
            v.push(Op::new(V_MMIO_IOMMU, 0, 2));
            if nh > 0 {
                v.push(Op::new(V_PCI_RANGE, 7, 2));
                v.push(Op::new(V_MMIO_EP, 7, 2));
            }
            return v;
        }
        for f in fills(level) {
            v.push(Op::new(V_PCI_IOMMU, 0, *f));
            v.push(Op::new(V_MMIO_IOMMU, 0, *f));
        }
        if nh > 0 {
            let sels: Vec<u16> = if nh > 2 { vec![0, 6, 7] } else if nh > 1 { vec![0, 7] } else { vec![0] };
            for (n, sv) in sels.iter().enumerate() {
                let f = fills(level)[n % fills(level).len()];
                v.push(Op::new(V_PCI_RANGE, *sv, f));
                v.push(Op::new(V_MMIO_EP, *sv, f));
            }
        }
        v
    }
    /// PCI ranges / MMIO endpoints related to the previous one (next bus range, identical range, same range behind
    /// another IOMMU, adjacent MMIO endpoints), interleaved with IOMMU nodes
    fn sweeps(&self, _level: u8) -> Vec<(String, Vec<Op>)> {
        let pr = |b0: u64, b1: u64, sv: u16| Op { k: V_PCI_RANGE, shape: sv, fill: Fill::b(0).with(1, b0).with(5, b1) };
        let ep = |id: u64, base: u64, sv: u16| Op { k: V_MMIO_EP, shape: sv, fill: Fill::b(0).with(0, id).with(1, base) };
        let (pi, mi) = (Op::new(V_PCI_IOMMU, 0, 2), Op::new(V_MMIO_IOMMU, 0, 2));
        vec![
            ("adjacent-bus-ranges".into(), vec![pi, pr(0, 0x1f, 0), pr(0x20, 0x3f, 0), pr(0x40, 0xff, 0), pr(0, 0x1f, 0)]),
            ("identical-ranges".into(), vec![pi, pr(0, 0xff, 0), pr(0, 0xff, 0), pr(0, 0xff, 0)]),
            ("same-range-other-iommu".into(), vec![pi, mi, pr(0x10, 0x1f, 0), pr(0x10, 0x1f, 7), pr(0x20, 0x2f, 0), pr(0x20, 0x2f, 7)]),
            ("adjacent-after-iommu".into(), vec![pi, pr(0, 0x1f, 0), mi, pr(0x20, 0x3f, 0), pi, pr(0x40, 0x5f, 7)]),
            ("adjacent-endpoints".into(), vec![mi, ep(1, 0x1000_0000, 0), ep(2, 0x1000_1000, 0), ep(3, 0x1000_2000, 0), ep(3, 0x1000_2000, 0)]),
            // a range whose first device is numerically above its last (two-segment windows look like this), then nodes
            // whose offsets depend on it having been emitted
            ("descending-range".into(), vec![pi, pr(0x80, 0x7f, 0), mi, pr(0, 0x10, 7), ep(5, 0x2000_0000, 7), pi, pr(0xff, 0, 7)]),
            ("single-device-range".into(), vec![pi, pr(0x42, 0x42, 0), mi, ep(5, 0x2000_0000, 7)]),
            ("endpoint-equal-to-iommu-base".into(), vec![Op { k: V_MMIO_IOMMU, shape: 0, fill: Fill::b(0).with(0, 0x1000_0000) }, ep(0, 0x1000_0000, 0), ep(0x1000_0000, 0, 0)]),
        ]
        .into_iter()
        .chain({
            // a range placed relative to the very IOMMU it points at (and to another one): below it, ending at it, starting
            // at it, around it, above it; in the IOMMU's segment, the next one, and spanning both - followed by nodes whose
            // offsets depend on exactly one range node having been emitted
            let mut v: Vec<(String, Vec<Op>)> = vec![];
            for (seg, bus, dev, func) in [(0u64, 0u64, 1u64, 0u64), (0, 0x10, 0, 0), (5, 0x20, 3, 2), (0xffff, 0xff, 31, 7)] {
                let iommu = Op { k: V_PCI_IOMMU, shape: 0, fill: Fill::b(0).with(0, seg).with(1, bus).with(2, dev).with(3, func) };
                let near = |x: u64, m: u64| -> Vec<u64> {
                    let mut n = vec![0, x.saturating_sub(1), x, (x + 1).min(m), m];
                    n.sort();
                    n.dedup();
                    n
                };
                for fb in near(bus, 0xff) {
                    for lb in near(bus, 0xff) {
                        for (s0, s1) in [(seg, seg), (seg, (seg + 1) & 0xffff), ((seg + 1) & 0xffff, (seg + 1) & 0xffff), (0, 0xffff)] {
                            for whole in [false, true] {
                                for target in [0u16, 7] {
                                    let mut f = Fill::b(0).with(0, s0).with(1, fb).with(4, s1).with(5, lb);
                                    if whole {
                                        f = f.with(6, 31).with(7, 7);
                                    }
                                    let r = Op { k: V_PCI_RANGE, shape: target, fill: f };
                                    v.push((
                                        format!("range-around-its-iommu[iommu {:04x}:{:02x}:{:02x}.{} range {:04x}:{:02x}..{:04x}:{:02x}{} target {}]", seg, bus, dev, func, s0, fb, s1, lb, if whole { " to 1f.7" } else { "" }, target),
                                        vec![iommu, mi, r, mi, ep(9, 0x3000_0000, 7), pr(1, 2, 7), pi, pr(3, 4, 7)],
                                    ));
                                }
                            }
                        }
                    }
                }
            }
            v
        })
        .collect()
    }
    fn run(&self, c: &Ctor, ops: &[Op], obs: &mut dyn FnMut(usize, &dyn Aml, &[u32])) {
        let mut t = viot::VIOT::new(c.oem_id(), c.oem_table_id(), c.oem_rev());
        let mut hs: Vec<viot::TranslationHandle> = vec![];
        obs(0, &t, &[]);
        for (i, op) in ops.iter().enumerate() {
            let f = &op.fill;
            match op.k {
                V_PCI_IOMMU => hs.push(t.add_virtio_pci_iommu(viot::VirtIoPciIommu::new(vdev(f, 0)))),
                V_MMIO_IOMMU => hs.push(t.add_virtio_mmio_iommu(viot::VirtIoMmioIommu::new(f.u64(0)))),
                V_PCI_RANGE => t.add_pci_range(viot::PciRange::new(vdev(f, 0), vdev(f, 4), &hs[sel(op.shape & 7, hs.len())])),
                _ => t.add_mmio_endpoint(viot::MmioEndpoint::new(f.u32(0), f.u64(1), &hs[sel(op.shape & 7, hs.len())])),
            }
            obs(i + 1, &t, &[]);
        }
    }
    fn reference(&self, c: &Ctor, ops: &[Op]) -> RefOut {
        // ACPI 6.5 5.2.33: header, node count(2), node offset(2)=48, reserved(8), nodes
        let mut w = W::new();
        ref_header(&mut w, b"VIOT", 1, c);
        w.u16(ops.len() as u16).u16(48).u64(0);
        let mut out = RefOut::default();
        let mut hs: Vec<usize> = vec![];
        for op in ops {
            let f = &op.fill;
            let o = w.len();
            let ei = out.ents.len();
            let ty;
            match op.k {
                V_PCI_IOMMU => {
                    // type 3, reserved, length 16, segment(2), BDF(2), reserved(8)
                    w.u8(3).u8(0).u16(16).u16(f.u16(0)).u16(vbdf(f, 0)).u64(0);
                    ty = 3;
                    hs.push(ei);
                    out.handles.push(o as u32);
                    out.handle_ents.push(ei);
                }
                V_MMIO_IOMMU => {
                    // type 4, reserved, length 16, reserved(4), base address(8)
                    w.u8(4).u8(0).u16(16).u32(0).u64(f.u64(0));
                    ty = 4;
                    hs.push(ei);
                    out.handles.push(o as u32);
                    out.handle_ents.push(ei);
                }
                V_PCI_RANGE => {
                    // type 1, reserved, length 24, endpoint start(4), segment start(2), segment end(2), BDF start(2), BDF end(2), output node(2), reserved(6)
                    // (the crate derives "endpoint start" from the first device's BDF; there is no separate argument)
                    let tgt = hs[sel(op.shape & 7, hs.len())];
                    w.u8(1).u8(0).u16(24).u32(vbdf(f, 0) as u32).u16(f.u16(0)).u16(f.u16(4)).u16(vbdf(f, 0)).u16(vbdf(f, 4));
                    out.refs.push(RefField { at: w.len(), width: 2, target: tgt, what: "output node" });
                    w.u16(out.ents[tgt].off as u16).z(6);
                    ty = 1;
                }
                _ => {
                    // type 2, reserved, length 24, endpoint id(4), base address(8), output node(2), reserved(6)
                    let tgt = hs[sel(op.shape & 7, hs.len())];
                    w.u8(2).u8(0).u16(24).u32(f.u32(0)).u64(f.u64(1));
                    out.refs.push(RefField { at: w.len(), width: 2, target: tgt, what: "output node" });
                    w.u16(out.ents[tgt].off as u16).z(6);
                    ty = 2;
                }
            }
            out.ents.push(Ent { off: o, ty, len: w.len() - o });
        }
        ref_finish(&mut w);
        out.image = w.0;
        out
    }
    fn walk(&self, img: &[u8]) -> Result<Vec<Ent>, String> {
        if img.len() < 48 {
            return Err(format!("image of {} bytes shorter than the fixed part (48)", img.len()));
        }
        let first = rd16(img, 38) as usize;
        if first != 48 {
            return Err(format!("node offset {} but nodes start at 48", first));
        }
        let v = tl16_walk(img, first, 0, 1, 2)?;
        for e in &v {
            let want = match e.ty {
                1 | 2 => 24,
                3 | 4 => 16,
                _ => e.len,
            };
            if e.len != want {
                return Err(format!("node at {} of type {} has length {} (spec: {})", e.off, e.ty, e.len, want));
            }
        }
        Ok(v)
    }
    fn counts(&self, img: &[u8], ents: &[Ent]) -> Result<(), String> {
        let n = rd16(img, 36) as usize;
        if n != ents.len() {
            return Err(format!("node count field {} but the body holds {} nodes", n, ents.len()));
        }
        Ok(())
    }
    fn fields(&self, k: u8, _s: u16) -> Vec<FT> {
        use FT::*;
        match k {
            V_PCI_IOMMU => vec![U(16), U(8), E(32), E(8)],
            V_MMIO_IOMMU => vec![U(64)],
            V_PCI_RANGE => vec![U(16), U(8), E(32), E(8), U(16), U(8), E(32), E(8)],
            _ => vec![U(32), U(64)],
        }
    }
    fn prelude(&self, _k: u8, _s: u16) -> Vec<Op> {
        self.enable_all()
    }
}
