//! Table subjects: for every table the crate builds, (a) a driver that executes builder
//! programs on the real crate, (b) a specification-derived reference encoder (oracle O1),
//! (c) an independent body walker (oracle O2). (b) and (c) share no code with the crate.
use crate::fill::{Ctor, Op};
use crate::util::W;
use acpi_tables::Aml;

pub mod cedt_hest;
pub mod fixed;
pub mod madt;
pub mod numa;
pub mod rqsc;
pub mod simple;
pub mod topo;

#[derive(Clone, Debug, PartialEq, Eq)]
pub struct Ent {
    pub off: usize,
    pub ty: u32,
    pub len: usize,
}

/// a reference field that must hold the offset of another node
#[derive(Clone, Debug)]
pub struct RefField {
    pub at: usize,
    pub width: u8,
    pub target: usize, // index into RefOut::ents
    pub what: &'static str,
}

#[derive(Clone, Debug, Default)]
pub struct RefOut {
    pub image: Vec<u8>,
    pub ents: Vec<Ent>,
    /// expected value of every handle the history returns, in order of return
    pub handles: Vec<u32>,
    /// which entry (index into ents) each returned handle names
    pub handle_ents: Vec<usize>,
    pub refs: Vec<RefField>,
}

#[derive(Clone, Copy, Debug, PartialEq, Eq)]
pub enum FT {
    U(u32),   // unsigned of given bit width
    B,        // bool
    E(usize), // enumerated / range-limited 0..n
    A(usize), // byte array
}

pub trait Table: Send + Sync {
    fn name(&self) -> &'static str;
    fn kinds(&self) -> &'static [&'static str];
    /// constructor variants explored at depth <= 2 (level 0: one; level >= 1: all)
    fn ctors(&self, level: u8) -> Vec<Ctor> {
        if level == 0 {
            vec![Ctor::new(2, 0, 2)]
        } else if self.ctor_fields().is_empty() {
            vec![Ctor::new(2, 0, 2), Ctor::new(0, 0, 0), Ctor::new(1, 0, 1), Ctor::new(3, 0, 2), Ctor::new(4, 0, 2), Ctor::new(5, 0, 2), Ctor::new(6, 0, 2)]
        } else {
            // constructor arguments too: header variant x argument filling
            vec![Ctor::new(2, 0, 2), Ctor::new(0, 0, 0), Ctor::new(1, 0, 1), Ctor::new(2, 0, 3), Ctor::new(0, 0, 1), Ctor::new(1, 0, 0), Ctor::new(3, 0, 10), Ctor::new(4, 0, 11), Ctor::new(5, 0, 2), Ctor::new(6, 0, 9)]
        }
    }
    /// operations enabled after `hist`, simplest first. level 0 = one op per kind (lanes),
    /// 1 = quick alphabet, 2 = thorough alphabet
    fn alphabet(&self, c: &Ctor, hist: &[Op], level: u8) -> Vec<Op>;
    /// shortest history after which every kind is enabled (for lanes)
    fn enable_all(&self) -> Vec<Op> {
        vec![]
    }
    /// execute on the real crate; `obs(prefix_len, live_object, handle_values_seen)`
    fn run(&self, c: &Ctor, ops: &[Op], obs: &mut dyn FnMut(usize, &dyn Aml, &[u32]));
    /// specification-derived expectation
    fn reference(&self, c: &Ctor, ops: &[Op]) -> RefOut;
    /// walk the body of `img` by the entries' own length fields; Err = where tiling failed.
    /// Also validates per-entry summarising fields against what the walk finds.
    fn walk(&self, img: &[u8]) -> Result<Vec<Ent>, String>;
    /// byte offsets whose specification value could not be settled offline (DESIGN.md 9.1): they are *not judged* by the
    /// image comparisons of C04/C11, so that a maintainer correcting such a constant does not raise a false alarm.
    /// When the list is non-empty the checksum byte (judged by C01) is left out of those comparisons too.
    fn unjudged(&self, _ops: &[Op]) -> Vec<usize> {
        vec![]
    }
    /// every per-entry summarising field (element counts, array offsets, string lengths) read from the image by the walker's
    /// own layout knowledge; C03 compares this list between the emitted image and the reference image of the history, so a
    /// count that is self-consistent but describes something other than what was added is seen
    fn summary(&self, _img: &[u8], _ents: &[Ent]) -> Vec<u64> {
        vec![]
    }
    /// table-level summarising fields (counts, offsets) against the walk
    fn counts(&self, _img: &[u8], _ents: &[Ent]) -> Result<(), String> {
        Ok(())
    }
    /// true when the structure carries the standard header with a checksum (FACS: false)
    fn checksummed(&self) -> bool {
        true
    }
    /// offset of the 32-bit length field and of the checksum-covered ranges
    fn length_at(&self) -> usize {
        4
    }
    fn variable_body(&self) -> bool {
        true
    }
    /// true when the history contains an entry that is not self-describing by construction (C03 does not judge it)
    fn unwalkable(&self, _ops: &[Op]) -> bool {
        false
    }
    /// largest image the table can describe (VIOT: node offsets are 16-bit, the crate refuses to grow past 64 KiB)
    fn max_image(&self) -> Option<usize> {
        None
    }
    /// explicit programs beyond the alphabets: every size of each variable-size entry over a contiguous range,
    /// continuation chains (arguments derived from the previous operation), special string values.
    /// Every prefix of every program is judged.
    fn sweeps(&self, _level: u8) -> Vec<(String, Vec<Op>)> {
        vec![]
    }
    /// names of the open known findings that change this table's image ("switches" of DESIGN.md 6)
    fn quirks(&self) -> &'static [&'static str] {
        &[]
    }
    /// the reference with one switch applied: exactly what the crate emits while that finding is open
    fn reference_q(&self, _c: &Ctor, _ops: &[Op], _quirk: &str) -> Option<RefOut> {
        None
    }
    /// byte ranges of the image that must each sum to 0 mod 256
    fn sum_ranges(&self, len: usize) -> Vec<(usize, usize)> {
        vec![(0, len)]
    }
    /// field types of op kind `k` under `shape` (index = Fill field index)
    fn fields(&self, _k: u8, _shape: u16) -> Vec<FT> {
        vec![]
    }
    fn ctor_fields(&self) -> Vec<FT> {
        vec![]
    }
    /// shapes of kind k worth enumerating in the entry layer of C04
    fn shapes(&self, _k: u8) -> Vec<u16> {
        vec![0]
    }
    /// history needed before an op of kind k with given shape is enabled (handles)
    fn prelude(&self, _k: u8, _shape: u16) -> Vec<Op> {
        vec![]
    }
}

/// standard 36-byte header with length and checksum left zero
pub fn ref_header(w: &mut W, sig: &[u8; 4], rev: u8, c: &Ctor) {
    w.b(sig).u32(0).u8(rev).u8(0).b(&c.oem_id()).b(&c.oem_table_id()).u32(c.oem_rev()).b(b"RVAT").b(&[0, 0, 0, 1]);
}

/// fill in Length (offset 4) and the checksum byte (offset 9) from scratch
pub fn ref_finish(w: &mut W) {
    let n = w.len() as u32;
    w.put32(4, n);
    w.0[9] = 0;
    let s = crate::util::sum8(&w.0);
    w.0[9] = 0u8.wrapping_sub(s);
}

/// image equality on the judged bytes
pub fn eq_judged(t: &dyn Table, ops: &[Op], img: &[u8], want: &[u8]) -> bool {
    if img == want {
        return true;
    }
    let u = t.unjudged(ops);
    if u.is_empty() || img.len() != want.len() {
        return false;
    }
    let (mut a, mut b) = (img.to_vec(), want.to_vec());
    for o in u.iter().chain([9usize].iter()) {
        if *o < a.len() {
            a[*o] = 0;
            b[*o] = 0;
        }
    }
    a == b
}

pub fn all() -> Vec<Box<dyn Table>> {
    let mut v: Vec<Box<dyn Table>> = Vec::new();
    v.push(Box::new(simple::Xsdt));
    v.push(Box::new(simple::Mcfg));
    v.push(Box::new(madt::Madt));
    v.push(Box::new(numa::Srat));
    v.push(Box::new(numa::Slit));
    v.push(Box::new(numa::Hmat));
    v.push(Box::new(topo::Pptt));
    v.push(Box::new(topo::Rhct));
    v.push(Box::new(topo::Rimt));
    v.push(Box::new(topo::Viot));
    v.push(Box::new(cedt_hest::Cedt));
    v.push(Box::new(cedt_hest::Hest));
    v.push(Box::new(rqsc::Rqsc));
    v.push(Box::new(fixed::Tpm2T));
    v.push(Box::new(fixed::TpmServer));
    v.push(Box::new(fixed::TpmClient));
    v.push(Box::new(fixed::Bert));
    v.push(Box::new(fixed::Spcr));
    v.push(Box::new(fixed::RsdpT));
    v.push(Box::new(fixed::Facs));
    v.push(Box::new(fixed::Fadt));
    v.push(Box::new(fixed::SdtT));
    v
}

pub fn by_name(n: &str) -> Option<Box<dyn Table>> {
    all().into_iter().find(|t| t.name() == n)
}

/// GAS value helper shared by several subjects: 5 consecutive fill fields starting at `i`
pub fn gas_fields() -> Vec<FT> {
    vec![FT::E(13), FT::U(8), FT::U(8), FT::E(5), FT::U(64)]
}
pub const GAS_SPACES: [u8; 13] = [0, 1, 2, 3, 4, 5, 6, 7, 8, 9, 0xa, 0xb, 0x7f];
pub fn real_gas(f: &crate::fill::Fill, i: u8) -> acpi_tables::gas::GAS {
    use acpi_tables::gas::{AccessSize as S, AddressSpace as P, GAS};
    let sp = [
        P::SystemMemory,
        P::SystemIo,
        P::PciConfigSpace,
        P::EmbeddedController,
        P::Smbus,
        P::SystemCmos,
        P::PciBarTarget,
        P::Ipmi,
        P::GeneralPursposeIo,
        P::GenericSerialBus,
        P::PlatformCommunicationsChannel,
        P::PlatformRuntimeMechanism,
        P::FunctionalFixedHardware,
    ][f.e(i, 13)];
    let ac = [S::Undefined, S::ByteAccess, S::WordAccess, S::DwordAccess, S::QwordAccess][f.e(i + 3, 5)];
    GAS::new(sp, f.u8(i + 1), f.u8(i + 2), ac, f.u64(i + 4))
}
/// ACPI 6.5 5.2.3.2: space id, bit width, bit offset, access size, 64-bit address
pub fn ref_gas(w: &mut W, f: &crate::fill::Fill, i: u8) {
    w.u8(GAS_SPACES[f.e(i, 13)]).u8(f.u8(i + 1)).u8(f.u8(i + 2)).u8(f.e(i + 3, 5) as u8).u64(f.u64(i + 4));
}
