//! Fixed-layout / setter-style structures: TPM2, TCPA client+server, BERT, SPCR, RSDP, FACS, FADT
//! and the generic Sdt (its full state-machine model is props/c13.rs).
use super::*;
use crate::fill::{Ctor, Fill, Op};
use crate::util::W;
use acpi_tables::{bert, facs, fadt, rsdp, sdt, spcr, tpm2};

// ------------------------------------------------------------------ TPM2
pub struct Tpm2T;
const START_METHODS: [u32; 7] = [1, 2, 6, 7, 8, 11, 12];
impl Table for Tpm2T {
    fn name(&self) -> &'static str {
        "tpm2"
    }
    fn unjudged(&self, _ops: &[Op]) -> Vec<usize> {
        vec![8] // table Revision: pinned to the baseline, not judged
    }
    fn kinds(&self) -> &'static [&'static str] {
        &["set_log_area"]
    }
    fn ctor_fields(&self) -> Vec<FT> {
        vec![FT::E(2), FT::U(64), FT::E(7)]
    }
    fn alphabet(&self, _c: &Ctor, h: &[Op], level: u8) -> Vec<Op> {
        // set_log_area documents that it may be called once; a repeated call is still offered (it must either be
        // refused, leaving the table as it was, or leave a consistent table)
        if h.len() >= 2 {
            return vec![];
        }
        if !h.is_empty() {
            return vec![Op::new(0, 0, 1), Op::new(0, 0, 3)];
        }
        super::simple::fills(level).iter().map(|f| Op::new(0, 0, *f)).collect()
    }
    fn run(&self, c: &Ctor, ops: &[Op], obs: &mut dyn FnMut(usize, &dyn Aml, &[u32])) {
        use tpm2::StartMethod as S;
        let pc = [tpm2::PlatformClass::Client, tpm2::PlatformClass::Server][c.fill.e(0, 2)];
        let sm = [S::LegacyUse, S::AcpiStart, S::Mmio, S::Crb, S::CrbAndAcpiStart, S::CrbAndSmcHvc, S::I2cFifo][c.fill.e(2, 7)];
        let mut t = tpm2::Tpm2::new(c.oem_id(), c.oem_table_id(), c.oem_rev(), pc, c.fill.u64(1), sm);
        obs(0, &t, &[]);
        for (i, op) in ops.iter().enumerate() {
            if i == 0 {
                t.set_log_area(op.fill.u32(0), op.fill.u64(1));
            } else if crate::util::catch(|| t.set_log_area(op.fill.u32(0), op.fill.u64(1))).is_err() {
                crate::seq::note_refused(i);
            }
            obs(i + 1, &t, &[]);
        }
    }
    fn reference(&self, c: &Ctor, ops: &[Op]) -> RefOut {
        // TCG ACPI spec: header, platform class(2), reserved(2), control area / FIFO base(8), start method(4),
        // [start method specific parameters(12), log area minimum length(4), log area start address(8)]
        let mut w = W::new();
        ref_header(&mut w, b"TPM2", 1, c);
        w.u16(c.fill.e(0, 2) as u16).u16(0).u64(c.fill.u64(1)).u32(START_METHODS[c.fill.e(2, 7)]);
        if let Some(op) = ops.last() {
            w.z(12).u32(op.fill.u32(0)).u64(op.fill.u64(1));
        }
        ref_finish(&mut w);
        RefOut { image: w.0, ..Default::default() }
    }
    fn walk(&self, _img: &[u8]) -> Result<Vec<Ent>, String> {
        Ok(vec![])
    }
    fn variable_body(&self) -> bool {
        false
    }
    fn fields(&self, _k: u8, _s: u16) -> Vec<FT> {
        vec![FT::U(32), FT::U(64)]
    }
}

// ------------------------------------------------------------------ TCPA server
pub struct TpmServer;
pub const TS_KINDS: [&str; 9] = ["log_area", "active_low", "edge_triggered", "sci_gpe", "gsi", "bus_is_pnp", "pci_sbdf", "base_addr", "config_addr"];
pub fn ts_apply(t: tpm2::TpmServer1_2, op: &Op) -> tpm2::TpmServer1_2 {
    let f = &op.fill;
    match op.k {
        0 => t.log_area(f.u64(0), f.u64(1)),
        1 => t.active_low(),
        2 => t.edge_triggered(),
        3 => t.sci_gpe(f.u8(0)),
        4 => t.gsi(f.u32(0)),
        5 => t.bus_is_pnp(),
        6 => t.pci_sbdf(f.u8(0), f.u8(1), f.e(2, 32) as u8, f.e(3, 8) as u8),
        7 => t.base_addr(real_gas(f, 0)),
        _ => t.config_addr(real_gas(f, 0)),
    }
}
/// TCG ACPI spec (TCPA, server class): header, platform class(2)=1, reserved(2), LAML(8), LASA(8), spec revision(2, pinned 01 02),
/// device flags(1: bit0 PCI device, bit1 bus is PNP, bit2 config address valid), interrupt flags(1: bit0 edge, bit1 active low,
/// bit2 SCI via GPE, bit3 GSI supported), GPE(1), reserved(3), GSI(4), base address GAS(12), reserved(4), config address GAS(12),
/// PCI segment, bus, device, function (1 each)
pub fn ts_reference(c: &Ctor, ops: &[Op]) -> Vec<u8> {
    let mut w = W::new();
    ref_header(&mut w, b"TCPA", 2, c);
    w.u16(1).u16(0).u64(0).u64(0).b(&[1, 2]).u8(0).u8(0).u8(0).z(3).u32(0).z(12).u32(0).z(12).z(4);
    for op in ops {
        let f = &op.fill;
        let put = |w: &mut W, off: usize, b: &[u8]| w.0[off..off + b.len()].copy_from_slice(b);
        match op.k {
            0 => {
                put(&mut w, 40, &f.u64(0).to_le_bytes());
                put(&mut w, 48, &f.u64(1).to_le_bytes());
            }
            1 => w.0[59] |= 2,
            2 => w.0[59] |= 1,
            3 => {
                w.0[60] = f.u8(0);
                w.0[59] |= 4;
            }
            4 => {
                put(&mut w, 64, &f.u32(0).to_le_bytes());
                w.0[59] |= 8;
            }
            5 => w.0[58] |= 2,
            6 => {
                w.0[96] = f.u8(0);
                w.0[97] = f.u8(1);
                w.0[98] = f.e(2, 32) as u8;
                w.0[99] = f.e(3, 8) as u8;
                w.0[58] |= 1;
            }
            7 => {
                let mut g = W::new();
                ref_gas(&mut g, f, 0);
                put(&mut w, 68, &g.0);
            }
            _ => {
                let mut g = W::new();
                ref_gas(&mut g, f, 0);
                put(&mut w, 84, &g.0);
                w.0[58] |= 4;
            }
        }
    }
    ref_finish(&mut w);
    w.0
}
impl Table for TpmServer {
    fn name(&self) -> &'static str {
        "tcpa_server"
    }
    fn unjudged(&self, _ops: &[Op]) -> Vec<usize> {
        vec![56, 57] // TCG spec revision BCD bytes: pinned to the baseline, not judged
    }
    fn kinds(&self) -> &'static [&'static str] {
        &TS_KINDS
    }
    fn alphabet(&self, _c: &Ctor, _h: &[Op], level: u8) -> Vec<Op> {
        let mut v = vec![];
        for k in 0..9u8 {
            let valued = matches!(k, 0 | 3 | 4 | 6 | 7 | 8);
            let fl: &[u8] = if !valued || level == 0 { &[2] } else { &[2, 1] };
            for f in fl {
                v.push(Op::new(k, 0, *f));
            }
        }
        v
    }
    fn run(&self, c: &Ctor, ops: &[Op], obs: &mut dyn FnMut(usize, &dyn Aml, &[u32])) {
        let mut t = tpm2::TpmServer1_2::new(c.oem_id(), c.oem_table_id(), c.oem_rev());
        obs(0, &t, &[]);
        for (i, op) in ops.iter().enumerate() {
            t = ts_apply(t, op);
            obs(i + 1, &t, &[]);
        }
    }
    fn reference(&self, c: &Ctor, ops: &[Op]) -> RefOut {
        RefOut { image: ts_reference(c, ops), ..Default::default() }
    }
    fn walk(&self, _img: &[u8]) -> Result<Vec<Ent>, String> {
        Ok(vec![])
    }
    fn variable_body(&self) -> bool {
        false
    }
    fn fields(&self, k: u8, _s: u16) -> Vec<FT> {
        use FT::*;
        match k {
            0 => vec![U(64), U(64)],
            3 => vec![U(8)],
            4 => vec![U(32)],
            6 => vec![U(8), U(8), E(32), E(8)],
            7 | 8 => gas_fields(),
            _ => vec![],
        }
    }
}

// ------------------------------------------------------------------ TCPA client
pub struct TpmClient;
impl Table for TpmClient {
    fn name(&self) -> &'static str {
        "tcpa_client"
    }
    fn kinds(&self) -> &'static [&'static str] {
        &[]
    }
    fn ctor_fields(&self) -> Vec<FT> {
        vec![FT::U(32), FT::U(64)]
    }
    fn alphabet(&self, _c: &Ctor, _h: &[Op], _l: u8) -> Vec<Op> {
        vec![]
    }
    fn run(&self, c: &Ctor, _ops: &[Op], obs: &mut dyn FnMut(usize, &dyn Aml, &[u32])) {
        let t = tpm2::TpmClient1_2::new(c.oem_id(), c.oem_table_id(), c.oem_rev(), c.fill.u32(0), c.fill.u64(1));
        obs(0, &t, &[]);
    }
    fn reference(&self, c: &Ctor, _ops: &[Op]) -> RefOut {
        // header, platform class(2)=0, LAML(4), LASA(8)
        let mut w = W::new();
        ref_header(&mut w, b"TCPA", 2, c);
        w.u16(0).u32(c.fill.u32(0)).u64(c.fill.u64(1));
        ref_finish(&mut w);
        RefOut { image: w.0, ..Default::default() }
    }
    fn walk(&self, _img: &[u8]) -> Result<Vec<Ent>, String> {
        Ok(vec![])
    }
    fn variable_body(&self) -> bool {
        false
    }
}

// ------------------------------------------------------------------ BERT
pub struct Bert;
impl Table for Bert {
    fn name(&self) -> &'static str {
        "bert"
    }
    fn kinds(&self) -> &'static [&'static str] {
        &[]
    }
    fn ctor_fields(&self) -> Vec<FT> {
        vec![FT::U(32), FT::U(64)]
    }
    fn alphabet(&self, _c: &Ctor, _h: &[Op], _l: u8) -> Vec<Op> {
        vec![]
    }
    fn run(&self, c: &Ctor, _ops: &[Op], obs: &mut dyn FnMut(usize, &dyn Aml, &[u32])) {
        let t = bert::BERT::new(c.oem_id(), c.oem_table_id(), c.oem_rev(), c.fill.u32(0), c.fill.u64(1));
        obs(0, &t, &[]);
    }
    fn reference(&self, c: &Ctor, _ops: &[Op]) -> RefOut {
        // ACPI 6.5 18.3.1: header, boot error region length(4), boot error region(8)
        let mut w = W::new();
        ref_header(&mut w, b"BERT", 1, c);
        w.u32(c.fill.u32(0)).u64(c.fill.u64(1));
        ref_finish(&mut w);
        RefOut { image: w.0, ..Default::default() }
    }
    fn walk(&self, _img: &[u8]) -> Result<Vec<Ent>, String> {
        Ok(vec![])
    }
    fn variable_body(&self) -> bool {
        false
    }
}

// ------------------------------------------------------------------ SPCR
pub struct Spcr;
impl Table for Spcr {
    fn name(&self) -> &'static str {
        "spcr"
    }
    fn kinds(&self) -> &'static [&'static str] {
        &[]
    }
    fn alphabet(&self, _c: &Ctor, _h: &[Op], _l: u8) -> Vec<Op> {
        vec![]
    }
    fn run(&self, c: &Ctor, _ops: &[Op], obs: &mut dyn FnMut(usize, &dyn Aml, &[u32])) {
        let t = spcr::SPCR::sbi(c.oem_id(), c.oem_table_id(), c.oem_rev());
        obs(0, &t, &[]);
    }
    fn reference(&self, c: &Ctor, _ops: &[Op]) -> RefOut {
        // SPCR revision 4: header, interface type(1)=0x15 RISC-V SBI, reserved(3), base address GAS(12), interrupt type, IRQ,
        // GSI(4), baud, parity, stop bits, flow control, terminal type, language, PCI device id(2)=FFFF, vendor id(2)=FFFF,
        // bus, device, function, PCI flags(4), segment, UART clock(4), precise baud(4), namespace string length(2),
        // namespace string offset(2) from the start of the table = 88, namespace string "." NUL
        let mut w = W::new();
        ref_header(&mut w, b"SPCR", 4, c);
        w.u8(0x15).z(3).z(12).u8(0).u8(0).u32(0).z(6).u16(0xffff).u16(0xffff).z(3).u32(0).u8(0).u32(0).u32(0).u16(2).u16(88).b(b".\0");
        ref_finish(&mut w);
        RefOut { image: w.0, ..Default::default() }
    }
    fn walk(&self, _img: &[u8]) -> Result<Vec<Ent>, String> {
        Ok(vec![])
    }
    fn variable_body(&self) -> bool {
        false
    }
}

// ------------------------------------------------------------------ RSDP
pub struct RsdpT;
impl Table for RsdpT {
    fn name(&self) -> &'static str {
        "rsdp"
    }
    fn kinds(&self) -> &'static [&'static str] {
        &[]
    }
    fn ctor_fields(&self) -> Vec<FT> {
        vec![FT::U(64)]
    }
    fn alphabet(&self, _c: &Ctor, _h: &[Op], _l: u8) -> Vec<Op> {
        vec![]
    }
    fn run(&self, c: &Ctor, _ops: &[Op], obs: &mut dyn FnMut(usize, &dyn Aml, &[u32])) {
        let t = rsdp::Rsdp::new(c.oem_id(), c.fill.u64(0));
        obs(0, &t, &[]);
    }
    fn reference(&self, c: &Ctor, _ops: &[Op]) -> RefOut {
        // ACPI 6.5 5.2.5.3: "RSD PTR ", checksum (first 20 bytes), OEM id(6), revision 2, RSDT address(4)=0, length(4)=36,
        // XSDT address(8), extended checksum (all 36 bytes), reserved(3)
        let mut w = W::new();
        w.b(b"RSD PTR ").u8(0).b(&c.oem_id()).u8(2).u32(0).u32(36).u64(c.fill.u64(0)).u8(0).z(3);
        w.0[8] = 0u8.wrapping_sub(crate::util::sum8(&w.0[..20]));
        w.0[32] = 0u8.wrapping_sub(crate::util::sum8(&w.0));
        RefOut { image: w.0, ..Default::default() }
    }
    fn walk(&self, _img: &[u8]) -> Result<Vec<Ent>, String> {
        Ok(vec![])
    }
    fn variable_body(&self) -> bool {
        false
    }
    fn length_at(&self) -> usize {
        20
    }
    fn sum_ranges(&self, len: usize) -> Vec<(usize, usize)> {
        vec![(0, 20), (0, len)]
    }
}

// ------------------------------------------------------------------ FACS
pub struct Facs;
pub const FACS_FIELDS: [(&str, usize, usize); 7] =
    [("hardware_signature", 8, 4), ("waking", 12, 4), ("lock", 16, 4), ("flags", 20, 4), ("x_waking", 24, 8), ("version", 32, 1), ("ospm_flags", 36, 4)];
impl Table for Facs {
    fn name(&self) -> &'static str {
        "facs"
    }
    fn unjudged(&self, ops: &[Op]) -> Vec<usize> {
        // default FACS version: not judged unless the caller set it (shape 5 = version)
        if ops.iter().any(|o| o.shape == 5) {
            vec![]
        } else {
            vec![32]
        }
    }
    fn kinds(&self) -> &'static [&'static str] {
        &["set_field"]
    }
    fn alphabet(&self, _c: &Ctor, _h: &[Op], level: u8) -> Vec<Op> {
        let mut v = vec![];
        for i in 0..7u16 {
            for f in super::simple::fills(level.max(1)) {
                v.push(Op::new(0, i, *f));
            }
        }
        v
    }
    fn run(&self, _c: &Ctor, ops: &[Op], obs: &mut dyn FnMut(usize, &dyn Aml, &[u32])) {
        let mut t = facs::FACS::new();
        obs(0, &t, &[]);
        for (i, op) in ops.iter().enumerate() {
            let f = &op.fill;
            match op.shape {
                0 => t.hardware_signature = f.u32(0).into(),
                1 => t.waking = f.u32(0).into(),
                2 => t.lock = f.u32(0).into(),
                3 => t.flags = f.u32(0).into(),
                4 => t.x_waking = f.u64(0).into(),
                5 => t.version = f.u8(0),
                _ => t.ospm_flags = f.u32(0).into(),
            }
            obs(i + 1, &t, &[]);
        }
    }
    fn reference(&self, _c: &Ctor, ops: &[Op]) -> RefOut {
        // ACPI 6.5 5.2.10: "FACS", length(4)=64, hardware signature, waking vector, global lock, flags, X waking vector(8),
        // version(1, pinned 1), reserved(3), OSPM flags(4), reserved(24)
        let mut w = W::new();
        w.b(b"FACS").u32(64).z(24).u8(1).z(31);
        for op in ops {
            let (_, off, width) = FACS_FIELDS[op.shape as usize];
            let v = op.fill.raw(0, 8 * width as u32).to_le_bytes();
            w.0[off..off + width].copy_from_slice(&v[..width]);
        }
        RefOut { image: w.0, ..Default::default() }
    }
    fn walk(&self, _img: &[u8]) -> Result<Vec<Ent>, String> {
        Ok(vec![])
    }
    fn variable_body(&self) -> bool {
        false
    }
    fn checksummed(&self) -> bool {
        false
    }
    fn fields(&self, _k: u8, s: u16) -> Vec<FT> {
        vec![FT::U(8 * FACS_FIELDS[s as usize].2 as u32)]
    }
    fn shapes(&self, _k: u8) -> Vec<u16> {
        (0..7).collect()
    }
}

// ------------------------------------------------------------------ FADT
pub struct Fadt;
pub const F_FLAG: u8 = 0;
pub const F_PROFILE: u8 = 1;
pub const F_ENABLE: u8 = 2;
pub const F_DISABLE: u8 = 3;
pub const F_DSDT32: u8 = 4;
pub const F_DSDT64: u8 = 5;
pub const F_FW32: u8 = 6;
pub const F_FW64: u8 = 7;
pub const F_GPE: u8 = 8;
pub const F_FIELD: u8 = 9;
/// (name, offset, width in bytes; 12 = GAS) — ACPI 6.5 table 5.9
pub const FADT_FIELDS: [(&str, usize, usize); 55] = [
    ("firmware_ctrl", 36, 4),
    ("dsdt", 40, 4),
    ("preferred_pm_profile", 45, 1),
    ("sci_int", 46, 2),
    ("smi_cmd", 48, 4),
    ("acpi_enable", 52, 1),
    ("acpi_disable", 53, 1),
    ("s4bios_req", 54, 1),
    ("pstate_cnt", 55, 1),
    ("pm1a_evt_blk", 56, 4),
    ("pm1b_evt_blk", 60, 4),
    ("pm1a_cnt_blk", 64, 4),
    ("pm1b_cnt_blk", 68, 4),
    ("pm2_cnt_blk", 72, 4),
    ("pm_tmr_blk", 76, 4),
    ("gpe0_blk", 80, 4),
    ("gpe1_blk", 84, 4),
    ("pm1_evt_len", 88, 1),
    ("pm1_cnt_len", 89, 1),
    ("pm2_cnt_len", 90, 1),
    ("pm_tmr_len", 91, 1),
    ("gpe0_blk_len", 92, 1),
    ("gpe1_blk_len", 93, 1),
    ("gpe1_base", 94, 1),
    ("cst_cnt", 95, 1),
    ("p_lvl2_lat", 96, 2),
    ("p_lvl3_lat", 98, 2),
    ("flush_size", 100, 2),
    ("flush_stride", 102, 2),
    ("duty_offset", 104, 1),
    ("duty_width", 105, 1),
    ("day_alrm", 106, 1),
    ("mon_alrm", 107, 1),
    ("century", 108, 1),
    ("iapc_boot_arch", 109, 2),
    ("flags", 112, 4),
    ("reset_reg", 116, 12),
    ("reset_value", 128, 1),
    ("arm_boot_arch", 129, 2),
    ("x_firmware_ctrl", 132, 8),
    ("x_dsdt", 140, 8),
    ("x_pm1a_evt_blk", 148, 12),
    ("x_pm1b_evt_blk", 160, 12),
    ("x_pm1a_cnt_blk", 172, 12),
    ("x_pm1b_cnt_blk", 184, 12),
    ("x_pm2_cnt_blk", 196, 12),
    ("x_pm_tmr_blk", 208, 12),
    ("x_gpe0_blk", 220, 12),
    ("x_gpe1_blk", 232, 12),
    ("sleep_control_reg", 244, 12),
    ("sleep_status_reg", 256, 12),
    ("hypervisor_vendor_identity", 268, 8),
    // public header / version fields a caller may set as well
    ("major_version", 8, 1),
    ("fadt_minor_version", 131, 1),
    ("oem_revision", 24, 4),
];
pub const FADT_FLAG_BITS: [u32; 25] = [
    1 << 0,
    1 << 1,
    1 << 2,
    1 << 3,
    1 << 4,
    1 << 5,
    1 << 6,
    1 << 7,
    1 << 8,
    1 << 9,
    1 << 10,
    1 << 11,
    1 << 12,
    1 << 13,
    1 << 14,
    1 << 15,
    1 << 16,
    1 << 17,
    1 << 18,
    1 << 19,
    1 << 20,
    1 << 21,
    0,       // persistent CPU caches: not reported (bits 23:22 = 0)
    1 << 22, // not persistent
    2 << 22, // persistent
];
pub fn fadt_flag(i: usize) -> fadt::Flags {
    use fadt::Flags::*;
    [
        Wbinvd,
        WbinvdFlush,
        ProcC1,
        PLvl2Up,
        PwrButton,
        SlpButton,
        FixRtc,
        RtcS4,
        TmrValExt,
        DckCap,
        ResetRegSup,
        SealedCase,
        Headless,
        CpuSwSlp,
        PciExpWak,
        UsePlatformClock,
        S4RtcStsValid,
        RemotePowerOnCapable,
        ForceApicClusterModel,
        ForceApicPhysicalDestinationMode,
        HwReducedAcpi,
        LowPowerS0IdleCapable,
        PersistentCpuCachesNotReported,
        PersistentCpuCachesNotPersistent,
        PersistentCpuCachesArePersistent,
    ][i]
}
pub fn fadt_apply(b: fadt::FADTBuilder, op: &Op) -> fadt::FADTBuilder {
    use fadt::PmProfile::*;
    let f = &op.fill;
    let mut b = b;
    match op.k {
        F_FLAG => b.flag(fadt_flag(op.shape as usize)),
        F_PROFILE => b.preferred_pm_profile([Unspecified, Desktop, Mobile, Workstation, EnterpriseServer, SohoServer, AppliancePc, PerformanceServer, Tablet][op.shape as usize]),
        F_ENABLE => b.acpi_enable(),
        F_DISABLE => b.acpi_disable(),
        F_DSDT32 => b.dsdt_32(f.u32(0)),
        F_DSDT64 => b.dsdt_64(f.u64(0)),
        F_FW32 => b.firmware_ctrl_32(f.u32(0)),
        F_FW64 => b.firmware_ctrl_64(f.u64(0)),
        F_GPE => b.gpe_info(f.u32(0), f.u32(1), f.u8(2), f.u8(3), f.u8(4)),
        _ => {
            macro_rules! setf {
                ($($i:expr => $name:ident : $t:tt),*) => {
                    match op.shape { $($i => setf!(@one $name $t),)* _ => unreachable!() }
                };
                (@one $name:ident 1) => { b.$name = f.u8(0) };
                (@one $name:ident 2) => { b.$name = f.u16(0).into() };
                (@one $name:ident 4) => { b.$name = f.u32(0).into() };
                (@one $name:ident 8) => { b.$name = f.u64(0).into() };
                (@one $name:ident 12) => { b.$name = real_gas(f, 0) };
            }
            setf!(0 => firmware_ctrl:4, 1 => dsdt:4, 2 => preferred_pm_profile:1, 3 => sci_int:2, 4 => smi_cmd:4, 5 => acpi_enable:1,
                6 => acpi_disable:1, 7 => s4bios_req:1, 8 => pstate_cnt:1, 9 => pm1a_evt_blk:4, 10 => pm1b_evt_blk:4, 11 => pm1a_cnt_blk:4,
                12 => pm1b_cnt_blk:4, 13 => pm2_cnt_blk:4, 14 => pm_tmr_blk:4, 15 => gpe0_blk:4, 16 => gpe1_blk:4, 17 => pm1_evt_len:1,
                18 => pm1_cnt_len:1, 19 => pm2_cnt_len:1, 20 => pm_tmr_len:1, 21 => gpe0_blk_len:1, 22 => gpe1_blk_len:1, 23 => gpe1_base:1,
                24 => cst_cnt:1, 25 => p_lvl2_lat:2, 26 => p_lvl3_lat:2, 27 => flush_size:2, 28 => flush_stride:2, 29 => duty_offset:1,
                30 => duty_width:1, 31 => day_alrm:1, 32 => mon_alrm:1, 33 => century:1, 34 => iapc_boot_arch:2, 35 => flags:4,
                36 => reset_reg:12, 37 => reset_value:1, 38 => arm_boot_arch:2, 39 => x_firmware_ctrl:8, 40 => x_dsdt:8,
                41 => x_pm1a_evt_blk:12, 42 => x_pm1b_evt_blk:12, 43 => x_pm1a_cnt_blk:12, 44 => x_pm1b_cnt_blk:12, 45 => x_pm2_cnt_blk:12,
                46 => x_pm_tmr_blk:12, 47 => x_gpe0_blk:12, 48 => x_gpe1_blk:12, 49 => sleep_control_reg:12, 50 => sleep_status_reg:12,
                51 => hypervisor_vendor_identity:8, 52 => major_version:1, 53 => fadt_minor_version:1, 54 => oem_revision:4);
            b
        }
    }
}
pub fn fadt_reference(c: &Ctor, ops: &[Op]) -> Vec<u8> {
    // header "FACP", length 276, FADT major version 6 (pinned), minor version 5 at offset 131 (pinned)
    let mut w = W::new();
    ref_header(&mut w, b"FACP", 6, c);
    w.z(276 - 36);
    w.0[131] = 5;
    let put = |w: &mut W, off: usize, b: &[u8]| w.0[off..off + b.len()].copy_from_slice(b);
    for op in ops {
        let f = &op.fill;
        match op.k {
            F_FLAG => {
                let v = crate::util::rd32(&w.0, 112) | FADT_FLAG_BITS[op.shape as usize];
                put(&mut w, 112, &v.to_le_bytes());
            }
            F_PROFILE => w.0[45] = op.shape as u8,
            F_ENABLE => {
                w.0[52] = 1;
                w.0[53] = 0;
            }
            F_DISABLE => {
                w.0[52] = 0;
                w.0[53] = 1;
            }
            F_DSDT32 => {
                put(&mut w, 40, &f.u32(0).to_le_bytes());
                put(&mut w, 140, &[0; 8]);
            }
            F_DSDT64 => {
                put(&mut w, 40, &[0; 4]);
                put(&mut w, 140, &f.u64(0).to_le_bytes());
            }
            F_FW32 => {
                put(&mut w, 36, &f.u32(0).to_le_bytes());
                put(&mut w, 132, &[0; 8]);
            }
            F_FW64 => {
                put(&mut w, 36, &[0; 4]);
                put(&mut w, 132, &f.u64(0).to_le_bytes());
            }
            F_GPE => {
                put(&mut w, 80, &f.u32(0).to_le_bytes());
                put(&mut w, 84, &f.u32(1).to_le_bytes());
                w.0[92] = f.u8(2);
                w.0[93] = f.u8(3);
                w.0[94] = f.u8(4);
            }
            _ => {
                let (_, off, width) = FADT_FIELDS[op.shape as usize];
                if width == 12 {
                    let mut g = W::new();
                    ref_gas(&mut g, f, 0);
                    put(&mut w, off, &g.0);
                } else {
                    let v = f.raw(0, 8 * width as u32).to_le_bytes();
                    put(&mut w, off, &v[..width]);
                }
            }
        }
    }
    ref_finish(&mut w);
    w.0
}
impl Table for Fadt {
    fn name(&self) -> &'static str {
        "fadt"
    }
    fn unjudged(&self, ops: &[Op]) -> Vec<usize> {
        // FADT minor version follows the ACPI release the crate targets: not judged unless the caller set it
        if ops.iter().any(|o| o.k == F_FIELD && FADT_FIELDS[o.shape as usize].1 == 131) {
            vec![]
        } else {
            vec![131]
        }
    }
    fn kinds(&self) -> &'static [&'static str] {
        &["flag", "preferred_pm_profile", "acpi_enable", "acpi_disable", "dsdt_32", "dsdt_64", "firmware_ctrl_32", "firmware_ctrl_64", "gpe_info", "set_field"]
    }
    fn alphabet(&self, _c: &Ctor, _h: &[Op], level: u8) -> Vec<Op> {
        let mut v = vec![];
        let nflags = if level == 0 { 3 } else { 25 };
        for i in 0..nflags {
            v.push(Op::new(F_FLAG, i, 2));
        }
        for i in (0..9).step_by(if level == 0 { 4 } else { 1 }) {
            v.push(Op::new(F_PROFILE, i, 2));
        }
        for k in [F_ENABLE, F_DISABLE] {
            v.push(Op::new(k, 0, 2));
        }
        for k in [F_DSDT32, F_DSDT64, F_FW32, F_FW64, F_GPE] {
            v.push(Op::new(k, 0, 2));
            if level > 0 {
                v.push(Op::new(k, 0, 1));
            }
        }
        if level > 0 {
            for i in 0..55 {
                v.push(Op::new(F_FIELD, i, 3));
            }
        }
        v
    }
    fn run(&self, c: &Ctor, ops: &[Op], obs: &mut dyn FnMut(usize, &dyn Aml, &[u32])) {
        let mut b = fadt::FADTBuilder::new(c.oem_id(), c.oem_table_id(), c.oem_rev());
        obs(0, &b.finalize(), &[]);
        for (i, op) in ops.iter().enumerate() {
            b = fadt_apply(b, op);
            obs(i + 1, &b.finalize(), &[]);
        }
    }
    fn reference(&self, c: &Ctor, ops: &[Op]) -> RefOut {
        RefOut { image: fadt_reference(c, ops), ..Default::default() }
    }
    fn walk(&self, _img: &[u8]) -> Result<Vec<Ent>, String> {
        Ok(vec![])
    }
    fn variable_body(&self) -> bool {
        false
    }
    fn fields(&self, k: u8, s: u16) -> Vec<FT> {
        use FT::*;
        match k {
            F_DSDT32 | F_FW32 => vec![U(32)],
            F_DSDT64 | F_FW64 => vec![U(64)],
            F_GPE => vec![U(32), U(32), U(8), U(8), U(8)],
            F_FIELD => {
                let w = FADT_FIELDS[s as usize].2;
                if w == 12 {
                    gas_fields()
                } else {
                    vec![U(8 * w as u32)]
                }
            }
            _ => vec![],
        }
    }
    fn shapes(&self, k: u8) -> Vec<u16> {
        match k {
            F_FLAG => (0..25).collect(),
            F_PROFILE => (0..9).collect(),
            F_FIELD => (0..55).collect(),
            _ => vec![0],
        }
    }
}

// ------------------------------------------------------------------ generic Sdt (short alphabet; C13 has the full model)
pub struct SdtT;
impl Table for SdtT {
    fn name(&self) -> &'static str {
        "sdt"
    }
    fn kinds(&self) -> &'static [&'static str] {
        &["append_u8", "append_u16", "append_u32", "append_u64", "append_slice", "write_u8", "write_u32", "sink_byte", "write_u64 running past the end (refusable)", "write_u32(4, len + shape): Length announced ahead of an append"]
    }
    fn ctors(&self, level: u8) -> Vec<Ctor> {
        if level == 0 {
            vec![Ctor::new(2, 36, 2)]
        } else {
            vec![Ctor::new(2, 36, 2), Ctor::new(0, 37, 0), Ctor::new(1, 40, 1), Ctor::new(2, 255, 3), Ctor::new(3, 36, 2), Ctor::new(4, 38, 2), Ctor::new(5, 36, 2), Ctor::new(6, 41, 2)]
        }
    }
    fn ctor_fields(&self) -> Vec<FT> {
        vec![FT::U(8)]
    }
    fn alphabet(&self, c: &Ctor, h: &[Op], level: u8) -> Vec<Op> {
        let mut v = vec![];
        for k in 0..4u8 {
            v.push(Op::new(k, 0, 1));
            if level > 0 {
                v.push(Op::new(k, 0, 2));
            }
        }
        for n in [0u16, 3] {
            v.push(Op::new(4, n, 2));
        }
        let len = sdt_len(c, h);
        let mut offs = vec![0usize, 4, 9, 10, 32];
        if len > 36 {
            offs.push(len - 1);
        }
        for o in offs {
            v.push(Op::new(5, o as u16, 1));
            if o + 4 <= len && level > 0 {
                v.push(Op::new(6, o as u16, 2));
            }
        }
        v.push(Op::new(7, 0, 1));
        // the caller writes the Length field itself, to a value RELATED to the state: what it is now, what it will be after
        // the next append of 1 / 3 / 8 bytes (the value principle: a write that "changes nothing" or an append whose own
        // Length update "changes nothing" is where a skipped recomputation hides)
        for d in if level > 0 { &[0u16, 1, 2, 3, 8][..] } else { &[1u16, 3][..] } {
            v.push(Op::new(9, *d, 1));
        }
        // a write that starts inside the table and runs past its end: refused, table unchanged (offered once per history)
        if level > 0 && !h.iter().any(|o| o.k == 8) {
            v.push(Op::new(8, (len - 3) as u16, 2));
            v.push(Op::new(8, (len - 7) as u16, 1));
        }
        v
    }
    fn run(&self, c: &Ctor, ops: &[Op], obs: &mut dyn FnMut(usize, &dyn Aml, &[u32])) {
        let mut t = sdt::Sdt::new(*b"TEST", c.p, c.fill.u8(0), c.oem_id(), c.oem_table_id(), c.oem_rev());
        obs(0, &t, &[]);
        for (i, op) in ops.iter().enumerate() {
            let f = &op.fill;
            match op.k {
                0 => t.append(f.u8(0)),
                1 => t.append(f.u16(0)),
                2 => t.append(f.u32(0)),
                3 => t.append(f.u64(0)),
                4 => t.append_slice(&f.arr::<8>(0)[..op.shape as usize]),
                5 => t.write_u8(op.shape as usize, f.u8(0)),
                6 => t.write_u32(op.shape as usize, f.u32(0)),
                8 => {
                    if crate::util::catch(|| t.write_u64(op.shape as usize, f.u64(0))).is_err() {
                        crate::seq::note_refused(i);
                    }
                }
                9 => {
                    let l = t.len() as u32 + op.shape as u32;
                    t.write_u32(4, l)
                }
                _ => acpi_tables::AmlSink::byte(&mut t, f.u8(0)),
            }
            obs(i + 1, &t, &[]);
        }
    }
    fn reference(&self, c: &Ctor, ops: &[Op]) -> RefOut {
        // plain byte vector: header as given, zero-filled to the declared length; appends rewrite Length,
        // every operation recomputes byte 9 so that the image sums to 0
        let mut w = W::new();
        w.b(b"TEST").u32(c.p).u8(c.fill.u8(0)).u8(0).b(&c.oem_id()).b(&c.oem_table_id()).u32(c.oem_rev()).b(b"RVAT").b(&[0, 0, 0, 1]);
        w.z(c.p as usize - 36);
        let fix = |w: &mut W| {
            w.0[9] = 0;
            let s = crate::util::sum8(&w.0);
            w.0[9] = 0u8.wrapping_sub(s);
        };
        fix(&mut w);
        for op in ops {
            let f = &op.fill;
            let app = |w: &mut W, b: &[u8]| {
                w.b(b);
                let n = w.len() as u32;
                w.put32(4, n);
            };
            match op.k {
                0 | 7 => app(&mut w, &[f.u8(0)]),
                1 => app(&mut w, &f.u16(0).to_le_bytes()),
                2 => app(&mut w, &f.u32(0).to_le_bytes()),
                3 => app(&mut w, &f.u64(0).to_le_bytes()),
                4 => app(&mut w, &f.arr::<8>(0)[..op.shape as usize]),
                5 => w.0[op.shape as usize] = f.u8(0),
                9 => {
                    let l = w.len() as u32 + op.shape as u32;
                    w.put32(4, l);
                }
                8 => {
                    // in range: a plain write; running past the end: refused, nothing changes
                    let o = op.shape as usize;
                    if o + 8 <= w.0.len() {
                        w.0[o..o + 8].copy_from_slice(&f.u64(0).to_le_bytes());
                    }
                }
                _ => {
                    let o = op.shape as usize;
                    w.0[o..o + 4].copy_from_slice(&f.u32(0).to_le_bytes());
                }
            }
            fix(&mut w);
        }
        RefOut { image: w.0, ..Default::default() }
    }
    fn walk(&self, _img: &[u8]) -> Result<Vec<Ent>, String> {
        Ok(vec![])
    }
    fn variable_body(&self) -> bool {
        false
    }
    fn fields(&self, k: u8, _s: u16) -> Vec<FT> {
        use FT::*;
        match k {
            0 | 5 | 7 => vec![U(8)],
            1 => vec![U(16)],
            2 | 6 => vec![U(32)],
            3 | 8 => vec![U(64)],
            9 => vec![],
            _ => vec![A(8)],
        }
    }
}
fn sdt_len(c: &Ctor, h: &[Op]) -> usize {
    let mut n = c.p as usize;
    for op in h {
        n += match op.k {
            0 | 7 => 1,
            1 => 2,
            2 => 4,
            3 => 8,
            4 => op.shape as usize,
            _ => 0,
        };
    }
    n
}
