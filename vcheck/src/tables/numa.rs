//! SRAT, SLIT, HMAT (ACPI 6.5 5.2.16, 5.2.17, 5.2.28; RINTC affinity from ACPI 6.6).
use super::simple::fills;
use super::*;
use crate::fill::{Ctor, Fill, Op};
use crate::util::{rd16, rd32, rd64, W};
use acpi_tables::{hmat, slit::SLIT, srat};

// ------------------------------------------------------------------ SRAT
pub struct Srat;
pub const S_MEM: u8 = 0;
pub const S_GI_ACPI: u8 = 1;
pub const S_GI_PCI: u8 = 2;
pub const S_RINTC: u8 = 3;
/// an RINTC affinity structure obtained through the derived Default (20 zero bytes: not self-describing)
pub const S_RINTC_DEFAULT: u8 = 4;

pub fn real_mem(f: &Fill, mask: u16) -> srat::MemoryAffinity {
    let mut m = srat::MemoryAffinity::new(f.u32(0), f.u64(1), f.u64(2));
    if mask & 1 != 0 {
        m = m.enabled();
    }
    if mask & 2 != 0 {
        m = m.hotpluggable();
    }
    if mask & 4 != 0 {
        m = m.nonvolatile();
    }
    m
}
pub fn real_gi(k: u8, f: &Fill, mask: u16) -> srat::GenericInitiator {
    let h = if k == S_GI_ACPI {
        srat::Handle::new_acpi(f.arr::<8>(1), f.arr::<4>(2))
    } else {
        srat::Handle::new_pci(f.u16(1), f.u8(2), f.e(3, 32) as u8, f.e(4, 8) as u8)
    };
    let mut g = srat::GenericInitiator::new(f.u32(0), h);
    if mask & 1 != 0 {
        g = g.enabled();
    }
    if mask & 2 != 0 {
        g = g.architectural();
    }
    g
}
pub fn real_rintc_aff(f: &Fill, mask: u16) -> srat::RintcAffinity {
    let mut r = srat::RintcAffinity::new(f.arr::<4>(0), f.u32(1));
    if mask & 2 != 0 {
        r = r.proximity_domain(f.u32(2));
    }
    if mask & 1 != 0 {
        r = r.enabled();
    }
    r
}
pub fn srat_ref_entry(w: &mut W, op: &Op) {
    let f = &op.fill;
    let m = op.shape;
    match op.k {
        S_MEM => {
            // type 1, length 40, proximity domain(4), reserved(2), base lo/hi, length lo/hi, reserved(4), flags(4), reserved(8)
            // flags: bit0 enabled, bit1 hot pluggable, bit2 non-volatile
            let (b, l) = (f.u64(1), f.u64(2));
            w.u8(1).u8(40).u32(f.u32(0)).u16(0).u32(b as u32).u32((b >> 32) as u32).u32(l as u32).u32((l >> 32) as u32);
            w.u32(0).u32((m & 7) as u32).u64(0);
        }
        S_GI_ACPI | S_GI_PCI => {
            // type 5, length 32, reserved(1), device handle type(1), proximity domain(4), device handle(16), flags(4), reserved(4)
            w.u8(5).u8(32).u8(0).u8(if op.k == S_GI_ACPI { 0 } else { 1 }).u32(f.u32(0));
            if op.k == S_GI_ACPI {
                w.b(&f.arr::<8>(1)).b(&f.arr::<4>(2)).u32(0);
            } else {
                // segment(2), bus(1), device[7:3] function[2:0](1), reserved(12)
                w.u16(f.u16(1)).u8(f.u8(2)).u8(((f.e(3, 32) as u8) << 3) | f.e(4, 8) as u8).z(12);
            }
            w.u32((m & 3) as u32).u32(0);
        }
        S_RINTC_DEFAULT => {
            w.z(20);
        }
        S_RINTC => {
            // ACPI 6.6 type 7, length 20: reserved(2), proximity domain(4), ACPI processor UID(4), flags(4), clock domain(4)
            w.u8(7).u8(20).u16(0).u32(if m & 2 != 0 { f.u32(2) } else { 0 }).b(&f.arr::<4>(0)).u32((m & 1) as u32).u32(f.u32(1));
        }
        _ => unreachable!(),
    }
}
impl Table for Srat {
    fn name(&self) -> &'static str {
        "srat"
    }
    fn unjudged(&self, _ops: &[Op]) -> Vec<usize> {
        vec![8] // table Revision: pinned to the baseline, not judged
    }
    fn kinds(&self) -> &'static [&'static str] {
        &["memory_affinity", "generic_initiator_acpi", "generic_initiator_pci", "rintc_affinity", "rintc_affinity(RintcAffinity::default())"]
    }
    fn alphabet(&self, _c: &Ctor, _h: &[Op], level: u8) -> Vec<Op> {
        let mut v = vec![];
        for k in 0..4u8 {
            let full = match k {
                S_MEM => 7,
                _ => 3,
            };
            for (j, f) in fills(level).iter().enumerate() {
                v.push(Op::new(k, if j % 2 == 0 { full } else { 0 }, *f));
            }
        }
        if level >= 1 && !_h.iter().any(|o| o.k == S_RINTC_DEFAULT) {
            v.push(Op::new(S_RINTC_DEFAULT, 0, 0));
        }
        v
    }
    fn unwalkable(&self, ops: &[Op]) -> bool {
        ops.iter().any(|o| o.k == S_RINTC_DEFAULT)
    }
    fn run(&self, c: &Ctor, ops: &[Op], obs: &mut dyn FnMut(usize, &dyn Aml, &[u32])) {
        let mut t = srat::SRAT::new(c.oem_id(), c.oem_table_id(), c.oem_rev());
        obs(0, &t, &[]);
        for (i, op) in ops.iter().enumerate() {
            match op.k {
                S_MEM => t.add_memory_affinity(real_mem(&op.fill, op.shape)),
                S_GI_ACPI | S_GI_PCI => t.add_generic_initiator(real_gi(op.k, &op.fill, op.shape)),
                S_RINTC_DEFAULT => t.add_rintc_affinity(srat::RintcAffinity::default()),
                _ => t.add_rintc_affinity(real_rintc_aff(&op.fill, op.shape)),
            }
            obs(i + 1, &t, &[]);
        }
    }
    fn reference(&self, c: &Ctor, ops: &[Op]) -> RefOut {
        let mut w = W::new();
        ref_header(&mut w, b"SRAT", 1, c);
        w.u32(1).u64(0); // reserved: must be 1 for backward compatibility; reserved(8)
        let mut ents = vec![];
        for op in ops {
            let o = w.len();
            srat_ref_entry(&mut w, op);
            ents.push(Ent { off: o, ty: [1, 5, 5, 7, 0][op.k as usize], len: w.len() - o });
        }
        ref_finish(&mut w);
        RefOut { image: w.0, ents, ..Default::default() }
    }
    fn walk(&self, img: &[u8]) -> Result<Vec<Ent>, String> {
        super::madt::tl8_walk(img, 48)
    }
    /// memory ranges related to the previous one: adjacent (base = previous base + length), identical, overlapping,
    /// same domain / other domain, with equal and different flags
    fn sweeps(&self, _level: u8) -> Vec<(String, Vec<Op>)> {
        let m = |pd: u64, base: u64, len: u64, flags: u16| Op { k: S_MEM, shape: flags, fill: Fill::b(0).with(0, pd).with(1, base).with(2, len) };
        let mut v = vec![];
        for (b, l) in [(0u64, 0x8000_0000u64), (0x1_0000_0000, 0x4000_0000), (0xa_0000, 0x6_0000), (0xffff_f000, 0x2000)] {
            for (fa, fb) in [(1u16, 1u16), (1, 3), (7, 1), (0, 0)] {
                v.push((format!("adjacent[{:#x}+{:#x},{}{}]", b, l, fa, fb), vec![m(0, b, l, fa), m(0, b + l, l, fb), m(0, b + 2 * l, 1, fa), m(1, b + 2 * l + 1, l, fb)]));
            }
            v.push((format!("identical[{:#x}]", b), vec![m(3, b, l, 1), m(3, b, l, 1), m(3, b, l, 1)]));
            v.push((format!("overlap[{:#x}]", b), vec![m(3, b, l, 1), m(3, b + l / 2, l, 1), m(4, b, l / 2, 1)]));
            v.push((format!("adjacent-descending[{:#x}]", b), vec![m(0, b + l, l, 1), m(0, b, l, 1)]));
            v.push((format!("adjacent-after-other-kind[{:#x}]", b), vec![m(0, b, l, 1), Op::new(S_GI_PCI, 1, 2), m(0, b + l, l, 1), Op::new(S_RINTC, 3, 2), m(0, b + 2 * l, l, 1)]));
        }
        v
    }
    fn fields(&self, k: u8, _s: u16) -> Vec<FT> {
        use FT::*;
        match k {
            S_MEM => vec![U(32), U(64), U(64)],
            S_GI_ACPI => vec![U(32), A(8), A(4)],
            S_GI_PCI => vec![U(32), U(16), U(8), E(32), E(8)],
            S_RINTC_DEFAULT => vec![],
            _ => vec![A(4), U(32), U(32)],
        }
    }
    fn shapes(&self, k: u8) -> Vec<u16> {
        match k {
            S_MEM => (0..8).collect(),
            S_RINTC => vec![0, 1, 2, 3],
            S_RINTC_DEFAULT => vec![0],
            _ => (0..4).collect(),
        }
    }
}

// ------------------------------------------------------------------ SLIT
pub struct Slit;
pub fn slit_pair(op: &Op) -> (usize, usize) {
    if op.shape == 0xffff {
        (op.fill.u16(1) as usize, op.fill.u16(2) as usize)
    } else {
        ((op.shape & 255) as usize, (op.shape >> 8) as usize)
    }
}
pub fn slit_op(a: usize, b: usize, v: u8) -> Op {
    // small indices travel in the shape; indices above 255 in two argument overrides under the marker shape 0xffff
    if a < 256 && b < 255 {
        Op { k: 0, shape: (a as u16) | ((b as u16) << 8), fill: Fill::b(0).with(0, v as u64) }
    } else {
        Op { k: 0, shape: 0xffff, fill: Fill::b(0).with(0, v as u64).with(1, a as u64).with(2, b as u64) }
    }
}
impl Table for Slit {
    fn name(&self) -> &'static str {
        "slit"
    }
    fn kinds(&self) -> &'static [&'static str] {
        &["set_distance"]
    }
    fn ctors(&self, level: u8) -> Vec<Ctor> {
        if level == 0 {
            vec![Ctor::new(2, 3, 2)]
        } else {
            vec![Ctor::new(2, 3, 2), Ctor::new(0, 0, 0), Ctor::new(1, 1, 1), Ctor::new(2, 2, 2), Ctor::new(2, 60, 2), Ctor::new(2, 256, 2), Ctor::new(1, 300, 2), Ctor::new(3, 3, 2), Ctor::new(4, 2, 2), Ctor::new(5, 3, 2), Ctor::new(6, 4, 2)]
        }
    }
    fn alphabet(&self, c: &Ctor, _h: &[Op], level: u8) -> Vec<Op> {
        let l = c.p as usize;
        let vals: &[u8] = if level == 0 { &[20] } else { &[20, 0xff, 10] };
        let mut v = vec![];
        for a in 0..l {
            for b in 0..l {
                if level == 0 && !(a == 0 && b == 1 || a == 1 && b == 1 || a == 2 && b == 0) {
                    continue;
                }
                // large matrices: corners, one diagonal and one interior pair only
                if l > 4 && !((a == 0 && b == 1) || (a == 1 && b == 1) || (a == l - 1 && b == 0) || (a == l - 1 && b == l - 1) || (a == 2 && b == l - 2)) {
                    continue;
                }
                for x in vals {
                    v.push(slit_op(a, b, *x));
                }
            }
        }
        v
    }
    fn run(&self, c: &Ctor, ops: &[Op], obs: &mut dyn FnMut(usize, &dyn Aml, &[u32])) {
        let mut t = SLIT::new(c.oem_id(), c.oem_table_id(), c.oem_rev(), c.p);
        obs(0, &t, &[]);
        for (i, op) in ops.iter().enumerate() {
            let (a, b) = slit_pair(op);
            t.set_distance(a, b, op.fill.u8(0));
            obs(i + 1, &t, &[]);
        }
    }
    fn reference(&self, c: &Ctor, ops: &[Op]) -> RefOut {
        // ACPI 6.5 5.2.17: header, number of localities (8), then L*L bytes, entry[i][j] at i*L+j
        let l = c.p as usize;
        let mut m = vec![10u8; l * l];
        for op in ops {
            let (a, b) = slit_pair(op);
            m[a * l + b] = op.fill.u8(0);
            m[b * l + a] = op.fill.u8(0);
        }
        let mut w = W::new();
        ref_header(&mut w, b"SLIT", 1, c);
        w.u64(l as u64);
        let ents = (0..l * l).map(|i| Ent { off: 44 + i, ty: 0, len: 1 }).collect();
        w.b(&m);
        ref_finish(&mut w);
        RefOut { image: w.0, ents, ..Default::default() }
    }
    fn walk(&self, img: &[u8]) -> Result<Vec<Ent>, String> {
        super::simple::fixed_walk(img, 44, 1)
    }
    fn counts(&self, img: &[u8], ents: &[Ent]) -> Result<(), String> {
        let l = rd64(img, 36);
        if l.checked_mul(l) != Some(ents.len() as u64) {
            return Err(format!("locality count {} but the matrix region holds {} bytes", l, ents.len()));
        }
        Ok(())
    }
    fn fields(&self, _k: u8, _s: u16) -> Vec<FT> {
        vec![FT::U(8)]
    }
}

// ------------------------------------------------------------------ HMAT
pub struct Hmat;
pub const H_MPD: u8 = 0;
pub const H_SLL: u8 = 1;
pub const H_MSC: u8 = 2;
/// a memory proximity domain structure obtained through the derived Default (40 zero bytes: not self-describing)
pub const H_MPD_DEFAULT: u8 = 3;

/// matrix dimensions: from the shape bits, or from the explicit size overrides of a sweep program
pub fn sll_dims(f: &Fill, shape: u16) -> (usize, usize) {
    (f.size().unwrap_or((shape & 15) as usize), f.size2().unwrap_or(((shape >> 4) & 15) as usize))
}
pub fn sll_shape(i: usize, t: usize, opts: u16) -> u16 {
    (i as u16) | ((t as u16) << 4) | (opts << 8)
}
pub fn sll_cell(f: &Fill, i: usize, j: usize) -> u16 {
    f.u16(4).wrapping_add(((i * 4 + j) as u16).wrapping_mul(0x0101))
}
pub fn sll_init(f: &Fill, i: usize) -> u32 {
    f.u32(5).wrapping_add((i as u32).wrapping_mul(0x0101_0101))
}
pub fn sll_tgt(f: &Fill, j: usize) -> u32 {
    f.u32(6).wrapping_add((j as u32).wrapping_mul(0x0101_0101))
}
pub fn real_sll_new(f: &Fill, shape: u16) -> hmat::SystemLocality {
    use hmat::{DataType as D, LocalityType as L, MinTransferSize as M};
    let (ni, nt) = sll_dims(f, shape);
    let lt = [L::Memory, L::FirstLevelCache, L::SecondLevelCache, L::ThirdLevelCache].into_iter().nth(f.e(0, 4)).unwrap();
    let dt = [D::AccessLatency, D::ReadLatency, D::WriteLatency, D::AccessBandwidth, D::ReadBandwidth, D::WriteBandwidth][f.e(1, 6)];
    let mt = [
        M::SizeByteAligned,
        M::Size64b,
        M::Size128b,
        M::Size256b,
        M::Size512b,
        M::Size1k,
        M::Size2k,
        M::Size4k,
        M::Size8k,
        M::Size16k,
        M::Size32k,
        M::Size64k,
    ][f.e(2, 12)];
    hmat::SystemLocality::new(lt, dt, mt, f.u64(3), ni, nt)
}
pub fn real_sll(f: &Fill, shape: u16) -> hmat::SystemLocality {
    let (ni, nt) = sll_dims(f, shape);
    let mut s = real_sll_new(f, shape);
    if shape & 0x100 != 0 {
        s.non_sequential_transfers();
    }
    if shape & 0x200 != 0 {
        s.minimum_transfer_size_required();
    }
    for i in 0..ni {
        s.set_initiator_value(i, sll_init(f, i));
    }
    for j in 0..nt {
        s.set_target_value(j, sll_tgt(f, j));
    }
    for i in 0..ni {
        for j in 0..nt {
            s.set_entry_value(i, j, sll_cell(f, i, j));
        }
    }
    s
}
/// ACPI 6.5 table 5.146: type 1, reserved(2), length(4), flags(1), data type(1), min transfer size(1), reserved(1),
/// initiators(4), targets(4), reserved(4), entry base unit(8), initiator list, target list, entries[i*T + j]
pub fn ref_sll_with(w: &mut W, f: &Fill, shape: u16, inits: &[u32], tgts: &[u32], cells: &[u16]) {
    let (ni, nt) = sll_dims(f, shape);
    let mut flags = f.e(0, 4) as u8;
    if shape & 0x100 != 0 {
        flags |= 0x20; // bit 5: non-sequential transfers
    }
    if shape & 0x200 != 0 {
        flags |= 0x10; // bit 4: minimum transfer size required
    }
    w.u16(1).u16(0).u32((32 + 4 * ni + 4 * nt + 2 * ni * nt) as u32);
    w.u8(flags).u8(f.e(1, 6) as u8).u8(f.e(2, 12) as u8).u8(0).u32(ni as u32).u32(nt as u32).u32(0).u64(f.u64(3));
    for x in inits {
        w.u32(*x);
    }
    for x in tgts {
        w.u32(*x);
    }
    for x in cells {
        w.u16(*x);
    }
}
pub fn ref_sll(w: &mut W, f: &Fill, shape: u16) {
    let (ni, nt) = sll_dims(f, shape);
    let inits: Vec<u32> = (0..ni).map(|i| sll_init(f, i)).collect();
    let tgts: Vec<u32> = (0..nt).map(|j| sll_tgt(f, j)).collect();
    let mut cells = vec![];
    for i in 0..ni {
        for j in 0..nt {
            cells.push(sll_cell(f, i, j));
        }
    }
    ref_sll_with(w, f, shape, &inits, &tgts, &cells);
}
pub fn msc_count(f: &Fill, shape: u16) -> u16 {
    f.size().map(|n| n as u16).unwrap_or(shape)
}
pub fn real_msc(f: &Fill, n: u16) -> hmat::MemorySideCache {
    let n = msc_count(f, n);
    use hmat::{Associativity as A, CacheLevel as C, WritePolicy as P};
    let lv = |i: usize| [C::None, C::One, C::Two, C::Three].into_iter().nth(i).unwrap();
    let mut m = hmat::MemorySideCache::new(
        f.u32(0),
        f.u64(1),
        lv(f.e(2, 4)),
        lv(f.e(3, 4)),
        [A::None, A::DirectMapped, A::Complex].into_iter().nth(f.e(4, 3)).unwrap(),
        [P::None, P::Writeback, P::Writethrough].into_iter().nth(f.e(5, 3)).unwrap(),
        f.u16(6),
    );
    for i in 0..n {
        m.add_smbios_handle(f.u16(7 + (i % 8) as u8).wrapping_add(i / 8));
    }
    m
}
pub fn hmat_ref_entry(w: &mut W, op: &Op) {
    let f = &op.fill;
    match op.k {
        H_MPD => {
            // type 0, reserved(2), length 40, flags(2) bit0 = initiator PD valid, reserved(2), initiator PD, memory PD, reserved(20)
            w.u16(0).u16(0).u32(40).u16(1).u16(0).u32(f.u32(0)).u32(f.u32(1)).z(20);
        }
        H_MPD_DEFAULT => {
            w.z(40);
        }
        H_SLL => ref_sll(w, f, op.shape),
        H_MSC => {
            // type 2, reserved(2), length, memory PD(4), reserved(4), cache size(8), attributes(4), reserved(2), n handles(2), handles
            let n = msc_count(f, op.shape) as usize;
            let attr = (f.e(2, 4) as u32) | ((f.e(3, 4) as u32) << 4) | ((f.e(4, 3) as u32) << 8) | ((f.e(5, 3) as u32) << 12) | ((f.u16(6) as u32) << 16);
            w.u16(2).u16(0).u32((32 + 2 * n) as u32).u32(f.u32(0)).u32(0).u64(f.u64(1)).u32(attr).u16(0).u16(n as u16);
            for i in 0..n {
                w.u16(f.u16(7 + (i % 8) as u8).wrapping_add((i / 8) as u16));
            }
        }
        _ => unreachable!(),
    }
}
impl Table for Hmat {
    fn name(&self) -> &'static str {
        "hmat"
    }
    fn unjudged(&self, _ops: &[Op]) -> Vec<usize> {
        vec![8] // table Revision: pinned to the baseline, not judged
    }
    fn kinds(&self) -> &'static [&'static str] {
        &["memory_proximity", "system_locality", "memory_side_cache", "memory_proximity(MemoryProximityDomain::default())"]
    }
    fn alphabet(&self, _c: &Ctor, _h: &[Op], level: u8) -> Vec<Op> {
        let mut v = vec![];
        if level == 0 {
            return vec![Op::new(H_MPD, 0, 2), Op::new(H_SLL, sll_shape(2, 2, 3), 2), Op::new(H_MSC, 1, 2)];
        }
        for f in fills(level) {
            v.push(Op::new(H_MPD, 0, *f));
        }
        let dims: &[(usize, usize)] = if level == 1 { &[(1, 1), (2, 2), (3, 2), (1, 3)] } else { &[(1, 1), (2, 2), (3, 2), (1, 3), (2, 1), (2, 3), (3, 3), (3, 1), (1, 2)] };
        for (n, (i, t)) in dims.iter().enumerate() {
            let f = fills(level)[n % fills(level).len()];
            v.push(Op::new(H_SLL, sll_shape(*i, *t, (n % 4) as u16), f));
        }
        for (n, f) in fills(level).iter().enumerate() {
            v.push(Op::new(H_MSC, (n % 3) as u16, *f));
            v.push(Op::new(H_MSC, ((n + 2) % 3) as u16, *f));
        }
        if !_h.iter().any(|o| (o.k == H_MSC && o.shape >= 100) || (o.k == H_SLL && sll_dims(&o.fill, o.shape).0 > 8)) {
            // structures longer than 255 bytes
            v.push(Op::new(H_MSC, 120, fills(level)[0]));
            v.push(Op::new(H_SLL, sll_shape(9, 10, 1), fills(level)[0]));
        }
        if !_h.iter().any(|o| o.k == H_MPD_DEFAULT) {
            v.push(Op::new(H_MPD_DEFAULT, 0, 0));
        }
        v
    }
    fn unwalkable(&self, ops: &[Op]) -> bool {
        ops.iter().any(|o| o.k == H_MPD_DEFAULT)
    }
    fn run(&self, c: &Ctor, ops: &[Op], obs: &mut dyn FnMut(usize, &dyn Aml, &[u32])) {
        let mut t = hmat::HMAT::new(c.oem_id(), c.oem_table_id(), c.oem_rev());
        obs(0, &t, &[]);
        for (i, op) in ops.iter().enumerate() {
            match op.k {
                H_MPD => t.add_memory_proximity(hmat::MemoryProximityDomain::new(op.fill.u32(0), op.fill.u32(1))),
                H_MPD_DEFAULT => t.add_memory_proximity(hmat::MemoryProximityDomain::default()),
                H_SLL => t.add_system_locality(real_sll(&op.fill, op.shape)),
                _ => t.add_memory_side_cache(real_msc(&op.fill, op.shape)),
            }
            obs(i + 1, &t, &[]);
        }
    }
    fn reference(&self, c: &Ctor, ops: &[Op]) -> RefOut {
        let mut w = W::new();
        ref_header(&mut w, b"HMAT", 1, c);
        w.u32(0);
        let mut ents = vec![];
        for op in ops {
            let o = w.len();
            hmat_ref_entry(&mut w, op);
            ents.push(Ent { off: o, ty: if op.k == H_MPD_DEFAULT { 0 } else { op.k as u32 }, len: w.len() - o });
        }
        ref_finish(&mut w);
        RefOut { image: w.0, ents, ..Default::default() }
    }
    fn walk(&self, img: &[u8]) -> Result<Vec<Ent>, String> {
        if img.len() < 40 {
            return Err(format!("image of {} bytes shorter than the fixed part (40)", img.len()));
        }
        let mut v = vec![];
        let mut o = 40;
        while o < img.len() {
            if o + 8 > img.len() {
                return Err(format!("structure header at {} overruns the image end {}", o, img.len()));
            }
            let ty = rd16(img, o) as u32;
            let len = rd32(img, o + 4) as usize;
            if len < 8 || o + len > img.len() {
                return Err(format!("structure at {} (type {}) declares length {} but {} bytes remain", o, ty, len, img.len() - o));
            }
            match ty {
                0 if len != 40 => return Err(format!("memory proximity structure at {} has length {} (spec: 40)", o, len)),
                1 => {
                    if len < 32 {
                        return Err(format!("locality structure at {} shorter than its fixed part", o));
                    }
                    let (ni, nt) = (rd32(img, o + 12) as usize, rd32(img, o + 16) as usize);
                    if len != 32 + 4 * ni + 4 * nt + 2 * ni * nt {
                        return Err(format!("locality structure at {}: {} initiators x {} targets need {} bytes, length says {}", o, ni, nt, 32 + 4 * ni + 4 * nt + 2 * ni * nt, len));
                    }
                }
                2 => {
                    if len < 32 {
                        return Err(format!("side-cache structure at {} shorter than its fixed part", o));
                    }
                    let n = rd16(img, o + 30) as usize;
                    if len != 32 + 2 * n {
                        return Err(format!("side-cache structure at {}: {} SMBIOS handles need {} bytes, length says {}", o, n, 32 + 2 * n, len));
                    }
                }
                _ => {}
            }
            v.push(Ent { off: o, ty, len });
            o += len;
        }
        Ok(v)
    }
    fn sweeps(&self, level: u8) -> Vec<(String, Vec<Op>)> {
        use crate::fill::{SX, SZ};
        let mut v = vec![];
        let mpd = Op::new(H_MPD, 0, 2);
        // every SMBIOS handle count 0..=140 (structure sizes 32..312, 256 exactly at 112)
        for n in 0..=140u64 {
            let m = Op { k: H_MSC, shape: 0, fill: Fill::b(if n % 2 == 0 { 2 } else { 1 }).with(SZ, n) };
            v.push((format!("msc[{}]", n), vec![mpd, m, mpd]));
        }
        // every matrix shape of a grid: structure sizes and cell counts across 256, 512, 1024
        let g: usize = if level <= 1 { 34 } else { 48 };
        for i in 0..=g {
            for t in 0..=g {
                if level <= 1 && i > 6 && t > 6 && (i * t) % 3 != 2 && i * t != 256 && !(250..=290).contains(&(i * t)) && !(500..=530).contains(&(i * t)) && !(1010..=1040).contains(&(i * t)) {
                    continue;
                }
                let sl = Op { k: H_SLL, shape: sll_shape(0, 0, ((i + t) % 4) as u16), fill: Fill::b(2).with(SZ, i as u64).with(SX, t as u64) };
                v.push((format!("sll[{}x{}]", i, t), vec![mpd, sl, Op::new(H_MSC, 1, 2)]));
            }
        }
        // single structures larger than 64 KiB (a structure's own length is 32 bits wide; a helper that narrows it on the way
        // to the header Length is met only here): side caches with 32 750..32 770 and 70 000 handles, localities of 128x256,
        // 181x181, 255x255 and 300x300, each between two ordinary structures
        for n in [32_750u64, 32_751, 32_752, 32_753, 32_760, 32_768, 32_770, 70_000] {
            let m = Op { k: H_MSC, shape: 0, fill: Fill::b(2).with(SZ, n) };
            v.push((format!("msc[{} handles, {} bytes]", n, 32 + 2 * n), vec![mpd, m, mpd, Op::new(H_MSC, 1, 2)]));
        }
        for (i, t) in [(128u64, 256u64), (181, 181), (255, 255), (256, 128), (300, 300), (1, 32_760), (32_760, 1)] {
            let sl = Op { k: H_SLL, shape: sll_shape(0, 0, 1), fill: Fill::b(2).with(SZ, i).with(SX, t) };
            v.push((format!("sll[{}x{}, beyond 64 KiB]", i, t), vec![mpd, sl, mpd, Op::new(H_MSC, 1, 2)]));
        }
        v
    }
    fn summary(&self, img: &[u8], ents: &[Ent]) -> Vec<u64> {
        let mut v = vec![];
        for e in ents {
            match e.ty {
                1 => {
                    v.push(rd32(img, e.off + 12) as u64); // number of initiator proximity domains
                    v.push(rd32(img, e.off + 16) as u64); // number of target proximity domains
                }
                2 => v.push(rd16(img, e.off + 30) as u64), // number of SMBIOS handles
                _ => {}
            }
        }
        v
    }
    fn fields(&self, k: u8, s: u16) -> Vec<FT> {
        use FT::*;
        match k {
            H_MPD => vec![U(32), U(32)],
            H_MPD_DEFAULT => vec![],
            H_SLL => vec![E(4), E(6), E(12), U(64), U(16), U(32), U(32)],
            _ => {
                let mut v = vec![U(32), U(64), E(4), E(4), E(3), E(3), U(16)];
                for _ in 0..s.min(8) {
                    v.push(U(16));
                }
                v
            }
        }
    }
    fn shapes(&self, k: u8) -> Vec<u16> {
        match k {
            H_SLL => {
                let mut v = vec![];
                for i in 1..=3 {
                    for t in 1..=3 {
                        v.push(sll_shape(i, t, ((i + t) % 4) as u16));
                    }
                }
                v.push(sll_shape(9, 10, 3));
                v
            }
            H_MSC => vec![0, 1, 2, 3, 120],
            H_MPD_DEFAULT => vec![0],
            _ => vec![0],
        }
    }
}
