//! RQSC (RISC-V QoS controller table). Field order is pinned to the crate's documented layout
//! (DESIGN.md 9.1); framing (Length, per-structure lengths, counts) is asserted.
use super::simple::fills;
use super::*;
use crate::fill::{Ctor, Fill, Op};
use crate::util::{rd16, rd32, W};
use acpi_tables::rqsc;

pub struct Rqsc;
/// shape: bits 0-1 number of resources, bits 2-4 kind of the first resource (kinds rotate), bit 5: twelve resources
/// (a controller structure longer than 255 bytes)
pub fn nres_of(op: &Op) -> u16 {
    op.fill.size().map(|n| n as u16).unwrap_or(nres(op.shape))
}
pub fn nres(shape: u16) -> u16 {
    if shape & 32 != 0 {
        12
    } else {
        shape & 3
    }
}
pub fn ctl_shape(n: u16, first_kind: u16) -> u16 {
    n | (first_kind << 2)
}
const VENDOR_LENS: [usize; 3] = [12, 13, 17];
/// length of a vendor-specific identifier blob: the shape's, or the explicit one of a sweep program (override SX). A blob
/// shorter than 12 bytes (Resource ID 1 + 2) gives a resource shorter than the 20-byte fixed part: the crate emits it as
/// given, Length and checksum are judged, the body walk (C03) is not (`unwalkable`)
fn vendor_len(f: &Fill, kind: u16) -> usize {
    f.size2().unwrap_or(VENDOR_LENS[(kind - 4) as usize])
}
fn res_kind(shape: u16, r: u16) -> u16 {
    (((shape >> 2) & 7) + r) % 7
}
fn real_res(f: &Fill, b: u8, kind: u16) -> rqsc::ResourceStructure {
    use rqsc::{ResourceID as I, ResourceType as T};
    let rt = [T::Cache, T::Memory][f.e(b, 2)];
    let id = match kind {
        0 => I::Cache(rqsc::CacheResource::new(f.u32(b + 2))),
        1 => I::MemoryAffinityStructure(rqsc::MemoryAffinityStructureResource::new(f.u32(b + 2), f.u64(b + 3))),
        2 => I::ACPIDevice(rqsc::ACPIDeviceResource::new(f.u64(b + 3), f.u32(b + 2))),
        3 => I::PCIDevice(rqsc::PCIDeviceResource::new(f.u32(b + 2))),
        // the type byte is whatever the caller passes (0..=3 coincide with the typed resource kinds' codes: a look-alike)
        k => I::VendorSpecific(f.u8(b + 4), crate::util::spare(vendor_bytes(f, b, vendor_len(f, k)))),
    };
    rqsc::ResourceStructure::new(rt, f.u16(b + 1), id)
}
fn vendor_bytes(f: &Fill, b: u8, n: usize) -> Vec<u8> {
    let a = f.arr::<8>(b + 3);
    (0..n).map(|i| a[i % 8].wrapping_add((i / 8) as u8)).collect()
}
fn ref_res(w: &mut W, f: &Fill, b: u8, kind: u16) {
    // resource type(1), reserved(1), length(2), flags(2), reserved(1), resource id type(1), id1(8), id2(4), specific data
    let body: Vec<u8> = {
        let mut x = W::new();
        match kind {
            0 | 3 => {
                x.u32(f.u32(b + 2)).u32(0).u32(0);
            }
            1 => {
                x.u32(f.u32(b + 2)).u32(0).u32(0).u64(f.u64(b + 3));
            }
            2 => {
                x.u64(f.u64(b + 3)).u32(f.u32(b + 2));
            }
            k => {
                x.b(&vendor_bytes(f, b, vendor_len(f, k)));
            }
        }
        x.0
    };
    let idty = match kind {
        0..=3 => kind as u8,
        _ => f.u8(b + 4),
    };
    w.u8(f.e(b, 2) as u8).u8(0).u16((8 + body.len()) as u16).u16(f.u16(b + 1)).u8(0).u8(idty).b(&body);
}
impl Table for Rqsc {
    fn name(&self) -> &'static str {
        "rqsc"
    }
    fn kinds(&self) -> &'static [&'static str] {
        &["add_controller", "add_controller(QoSController::default())"]
    }
    fn alphabet(&self, _c: &Ctor, _h: &[Op], level: u8) -> Vec<Op> {
        if level == 0 {
            return vec![Op::new(0, ctl_shape(2, 0), 2)];
        }
        let fl = fills(level);
        let mut v = vec![];
        let shapes: Vec<u16> = if level == 1 {
            vec![ctl_shape(0, 0), ctl_shape(1, 1), ctl_shape(2, 2), ctl_shape(3, 4), ctl_shape(3, 0)]
        } else {
            let mut s = vec![ctl_shape(0, 0)];
            for k in 0..7 {
                s.push(ctl_shape(1 + k % 3, k));
            }
            s
        };
        for (n, s) in shapes.iter().enumerate() {
            v.push(Op::new(0, *s, fl[n % fl.len()]));
        }
        if !_h.iter().any(|o| o.shape & 32 != 0) {
            v.push(Op::new(0, ctl_shape(0, 1) | 32, fl[0]));
        }
        // a controller obtained through the derived Default (no resources): 28 bytes like any other empty controller
        if _h.iter().filter(|o| o.k == 1).count() < 2 {
            v.push(Op::new(1, 0, 0));
        }
        v
    }
    fn run(&self, c: &Ctor, ops: &[Op], obs: &mut dyn FnMut(usize, &dyn Aml, &[u32])) {
        let mut t = rqsc::RQSC::new(c.oem_id(), c.oem_table_id(), c.oem_rev());
        obs(0, &t, &[]);
        for (i, op) in ops.iter().enumerate() {
            let f = &op.fill;
            if op.k == 1 {
                t.add_controller(rqsc::QoSController::default());
                obs(i + 1, &t, &[]);
                continue;
            }
            let ct = if f.e(0, 2) == 0 { rqsc::ControllerType::Capacity } else { rqsc::ControllerType::Bandwidth };
            let mut q = rqsc::QoSController::new(ct, real_gas(f, 1), f.u32(6), f.u32(7), f.u16(8));
            for r in 0..nres_of(op) {
                q.add_resource(real_res(f, 9 + 5 * (r % 3) as u8, res_kind(op.shape, r)));
            }
            t.add_controller(q);
            obs(i + 1, &t, &[]);
        }
    }
    /// every resource count 0..=40 for every first resource kind (controller sizes across 256), between other controllers
    fn unwalkable(&self, ops: &[Op]) -> bool {
        ops.iter().any(|o| o.k == 0 && o.fill.size2().map(|n| n < 12).unwrap_or(false))
    }
    fn sweeps(&self, _level: u8) -> Vec<(String, Vec<Op>)> {
        let mut v = vec![];
        // every length 0..=40 of a vendor-specific identifier blob (below 12 the resource is shorter than its fixed part),
        // as the only, the first and the last resource of a controller between two other controllers
        for n in 0..=40u64 {
            for (nres, first) in [(1u64, 4u16), (2, 4), (2, 3), (3, 5)] {
                let x = Op { k: 0, shape: ctl_shape(0, first), fill: crate::fill::Fill::b(2).with(crate::fill::SZ, nres).with(crate::fill::SX, n) };
                v.push((format!("vendor blob of {} bytes [{} resources from kind {}]", n, nres, first), vec![Op::new(0, ctl_shape(1, 1), 1), x, Op::new(0, ctl_shape(2, 3), 2)]));
            }
        }
        for n in 0..=40u64 {
            for k in 0..7u16 {
                if n > 6 && (n + k as u64) % 3 != 0 {
                    continue;
                }
                let x = Op { k: 0, shape: ctl_shape(0, k), fill: crate::fill::Fill::b(2).with(crate::fill::SZ, n) };
                v.push((format!("controller[{} resources from kind {}]", n, k), vec![Op::new(0, ctl_shape(1, 1), 1), x, Op::new(0, ctl_shape(2, 3), 2)]));
            }
        }
        v
    }
    fn reference(&self, c: &Ctor, ops: &[Op]) -> RefOut {
        // header, number of QoS controllers(4), controller structures
        let mut w = W::new();
        ref_header(&mut w, b"RQSC", 1, c);
        w.u32(ops.len() as u32);
        let mut ents = vec![];
        for op in ops {
            let f = &op.fill;
            let o = w.len();
            if op.k == 1 {
                // Default: type 0 (capacity), length 28, zero register / counts / flags, no resources
                w.u8(0).u8(0).u16(28).z(12).u32(0).u32(0).u16(0).u16(0);
                ents.push(Ent { off: o, ty: 0, len: 28 });
                continue;
            }
            let mut rs = W::new();
            for r in 0..nres_of(op) {
                ref_res(&mut rs, f, 9 + 5 * (r % 3) as u8, res_kind(op.shape, r));
            }
            // controller type(1), reserved(1), length(2), register GAS(12), RCID count(4), MCID count(4), flags(2), n resources(2), resources
            w.u8(f.e(0, 2) as u8).u8(0).u16((28 + rs.len()) as u16);
            ref_gas(&mut w, f, 1);
            w.u32(f.u32(6)).u32(f.u32(7)).u16(f.u16(8)).u16(nres_of(op)).b(&rs.0);
            ents.push(Ent { off: o, ty: f.e(0, 2) as u32, len: w.len() - o });
        }
        ref_finish(&mut w);
        RefOut { image: w.0, ents, ..Default::default() }
    }
    fn walk(&self, img: &[u8]) -> Result<Vec<Ent>, String> {
        if img.len() < 40 {
            return Err(format!("image of {} bytes shorter than the fixed part (40)", img.len()));
        }
        let v = super::topo::tl16_walk(img, 40, 0, 1, 2)?;
        for e in &v {
            if e.len < 28 {
                return Err(format!("controller at {} shorter than its fixed part", e.off));
            }
            let n = rd16(img, e.off + 26) as usize;
            let sub = super::topo::tl16_walk(&img[..e.off + e.len], e.off + 28, 0, 1, 2).map_err(|s| format!("controller at {}: resource walk: {}", e.off, s))?;
            if sub.len() != n {
                return Err(format!("controller at {}: resource count field {} but {} resource structures tile it", e.off, n, sub.len()));
            }
            for r in &sub {
                if r.len < 20 {
                    return Err(format!("resource at {} has length {} (< 20)", r.off, r.len));
                }
            }
        }
        Ok(v)
    }
    fn counts(&self, img: &[u8], ents: &[Ent]) -> Result<(), String> {
        let n = rd32(img, 36) as usize;
        if n != ents.len() {
            return Err(format!("controller count field {} but the body holds {} controllers", n, ents.len()));
        }
        Ok(())
    }
    fn summary(&self, img: &[u8], ents: &[Ent]) -> Vec<u64> {
        ents.iter().filter(|e| e.len >= 28).map(|e| rd16(img, e.off + 26) as u64).collect()
    }
    fn fields(&self, k: u8, s: u16) -> Vec<FT> {
        use FT::*;
        if k == 1 {
            return vec![];
        }
        let mut v = vec![E(2)];
        v.extend(gas_fields());
        v.extend([U(32), U(32), U(16)]);
        for _ in 0..(s & 3) {
            v.extend([E(2), U(16), U(32), U(64), U(8)]);
        }
        v
    }
    fn shapes(&self, k: u8) -> Vec<u16> {
        if k == 1 {
            return vec![0];
        }
        let mut s = vec![ctl_shape(0, 0)];
        for k in 0..7 {
            s.push(ctl_shape(1 + k % 3, k));
        }
        s.push(ctl_shape(0, 2) | 32);
        s
    }
}
