//! XSDT and MCFG.
use super::*;
use crate::fill::{Ctor, Op};
use crate::util::{rd32, W};
use acpi_tables::{mcfg::MCFG, xsdt::XSDT};

pub fn fills(level: u8) -> &'static [u8] {
    match level {
        0 => &[2],
        1 => &[2, 1],
        _ => &[2, 0, 1],
    }
}

pub struct Xsdt;
impl Table for Xsdt {
    fn name(&self) -> &'static str {
        "xsdt"
    }
    fn kinds(&self) -> &'static [&'static str] {
        &["add_entry"]
    }
    fn alphabet(&self, _c: &Ctor, _h: &[Op], level: u8) -> Vec<Op> {
        fills(level).iter().map(|f| Op::new(0, 0, *f)).collect()
    }
    fn run(&self, c: &Ctor, ops: &[Op], obs: &mut dyn FnMut(usize, &dyn Aml, &[u32])) {
        let mut t = XSDT::new(c.oem_id(), c.oem_table_id(), c.oem_rev());
        obs(0, &t, &[]);
        for (i, op) in ops.iter().enumerate() {
            t.add_entry(op.fill.u64(0));
            obs(i + 1, &t, &[]);
        }
    }
    fn reference(&self, c: &Ctor, ops: &[Op]) -> RefOut {
        // ACPI 6.5 5.2.8: header, then 64-bit physical addresses
        let mut w = W::new();
        ref_header(&mut w, b"XSDT", 1, c);
        let mut ents = vec![];
        for op in ops {
            ents.push(Ent { off: w.len(), ty: 0, len: 8 });
            w.u64(op.fill.u64(0));
        }
        ref_finish(&mut w);
        RefOut { image: w.0, ents, ..Default::default() }
    }
    fn walk(&self, img: &[u8]) -> Result<Vec<Ent>, String> {
        fixed_walk(img, 36, 8)
    }
    fn fields(&self, _k: u8, _s: u16) -> Vec<FT> {
        vec![FT::U(64)]
    }
}

pub fn fixed_walk(img: &[u8], first: usize, size: usize) -> Result<Vec<Ent>, String> {
    if img.len() < first {
        return Err(format!("image of {} bytes shorter than the fixed part ({})", img.len(), first));
    }
    let mut v = vec![];
    let mut o = first;
    while o < img.len() {
        if o + size > img.len() {
            return Err(format!("entry at {} of fixed size {} overruns the image end {}", o, size, img.len()));
        }
        v.push(Ent { off: o, ty: 0, len: size });
        o += size;
    }
    Ok(v)
}

pub struct Mcfg;
impl Table for Mcfg {
    fn name(&self) -> &'static str {
        "mcfg"
    }
    fn kinds(&self) -> &'static [&'static str] {
        &["add_ecam"]
    }
    fn alphabet(&self, _c: &Ctor, _h: &[Op], level: u8) -> Vec<Op> {
        fills(level).iter().map(|f| Op::new(0, 0, *f)).collect()
    }
    fn run(&self, c: &Ctor, ops: &[Op], obs: &mut dyn FnMut(usize, &dyn Aml, &[u32])) {
        let mut t = MCFG::new(c.oem_id(), c.oem_table_id(), c.oem_rev());
        obs(0, &t, &[]);
        for (i, op) in ops.iter().enumerate() {
            let f = &op.fill;
            t.add_ecam(f.u64(0), f.u16(1), f.u8(2), f.u8(3));
            obs(i + 1, &t, &[]);
        }
    }
    fn reference(&self, c: &Ctor, ops: &[Op]) -> RefOut {
        // PCI Firmware spec 4.1.2: header, 8 reserved, then 16-byte allocations:
        // base(8) segment(2) start bus(1) end bus(1) reserved(4)
        let mut w = W::new();
        ref_header(&mut w, b"MCFG", 1, c);
        w.z(8);
        let mut ents = vec![];
        for op in ops {
            let f = &op.fill;
            ents.push(Ent { off: w.len(), ty: 0, len: 16 });
            w.u64(f.u64(0)).u16(f.u16(1)).u8(f.u8(2)).u8(f.u8(3)).z(4);
        }
        ref_finish(&mut w);
        RefOut { image: w.0, ents, ..Default::default() }
    }
    fn walk(&self, img: &[u8]) -> Result<Vec<Ent>, String> {
        fixed_walk(img, 44, 16)
    }
    /// chains whose arguments are related to the previous operation's: a window that continues the previous one
    /// (next bus, base advanced by the bus count << 20), the same window again, an overlapping one, another segment
    fn sweeps(&self, _level: u8) -> Vec<(String, Vec<Op>)> {
        let e = |base: u64, _seg: u64, sb: u64, eb: u64| Op { k: 0, shape: 0, fill: crate::fill::Fill::b(0).with(0, base).with(2, sb).with(3, eb) };
        let mut v = vec![];
        for (b0, s0, e0) in [(0xc000_0000u64, 0u64, 0x1fu64), (0x30_0000_0000, 0, 0x7f), (0xe000_0000, 0x10, 0x10), (0, 0, 0)] {
            let n = e0 - s0 + 1;
            let next = (b0 + (n << 20), e0 + 1, (e0 + n).min(255));
            let n2 = next.2 - next.1 + 1;
            let third = (next.0 + (n2 << 20), next.2 + 1, 255u64);
            let first = e(b0, 0, s0, e0);
            v.push((format!("contiguous[{:#x}]", b0), vec![first, e(next.0, 0, next.1, next.2), e(third.0, 0, third.1.min(255), third.2), e(b0, 0, s0, e0)]));
            v.push((format!("same-window-twice[{:#x}]", b0), vec![first, first, first]));
            v.push((format!("overlap[{:#x}]", b0), vec![first, e(b0, 0, s0, (e0 + 1).min(255)), e(b0 + (1 << 20), 0, s0 + 1, e0)]));
            v.push((format!("descending[{:#x}]", b0), vec![e(next.0, 0, next.1, next.2), first]));
            v.push((format!("interleaved[{:#x}]", b0), vec![first, e(0x8000_0000, 0, 0, 0xff), e(next.0, 0, next.1, next.2)]));
        }
        v.push(("descending-bus-range".into(), vec![e(0xc000_0000, 0, 0x40, 0x3f), e(0xd000_0000, 0, 0xff, 0), e(0xe000_0000, 0, 7, 7)]));
        // the 4-override limit: segment travels in the base pattern; other-segment continuation uses base fill 1 (segment 0xffff)
        let f1 = |base: u64, sb: u64, eb: u64| Op { k: 0, shape: 0, fill: crate::fill::Fill::b(1).with(0, base).with(2, sb).with(3, eb) };
        v.push(("contiguous-other-segment".into(), vec![f1(0xc000_0000, 0, 0x1f), f1(0xc200_0000, 0x20, 0x3f), e(0xc400_0000, 0, 0x40, 0x5f)]));
        v
    }
    fn fields(&self, _k: u8, _s: u16) -> Vec<FT> {
        vec![FT::U(64), FT::U(16), FT::U(8), FT::U(8)]
    }
}

#[allow(dead_code)]
pub fn declared_len(img: &[u8]) -> u32 {
    rd32(img, 4)
}
