//! Small shared helpers: panic capture, sinks, byte readers/writers.
use acpi_tables::{Aml, AmlSink};
use std::panic::{catch_unwind, AssertUnwindSafe};

/// Run `f` and turn a panic into Err(message). The global panic hook is silenced in main().
pub fn catch<T>(f: impl FnOnce() -> T) -> Result<T, String> {
    match catch_unwind(AssertUnwindSafe(f)) {
        Ok(v) => Ok(v),
        Err(e) => {
            let msg = if let Some(s) = e.downcast_ref::<&str>() {
                s.to_string()
            } else if let Some(s) = e.downcast_ref::<String>() {
                s.clone()
            } else {
                "panic".to_string()
            };
            Err(msg)
        }
    }
}

pub fn ser(a: &dyn Aml) -> Vec<u8> {
    let mut v = Vec::new();
    a.to_aml_bytes(&mut v);
    v
}

/// Sink implementing only the mandatory method.
#[derive(Default)]
pub struct ByteOnly(pub Vec<u8>);
impl AmlSink for ByteOnly {
    fn byte(&mut self, b: u8) {
        self.0.push(b);
    }
}

/// Sink overriding every method and recording the call pattern.
#[derive(Default)]
pub struct Chunky {
    pub data: Vec<u8>,
    pub calls: [u64; 5],
}
impl AmlSink for Chunky {
    fn byte(&mut self, b: u8) {
        self.calls[0] += 1;
        self.data.push(b);
    }
    fn word(&mut self, w: u16) {
        self.calls[1] += 1;
        self.data.extend_from_slice(&w.to_le_bytes());
    }
    fn dword(&mut self, d: u32) {
        self.calls[2] += 1;
        self.data.extend_from_slice(&d.to_le_bytes());
    }
    fn qword(&mut self, q: u64) {
        self.calls[3] += 1;
        self.data.extend_from_slice(&q.to_le_bytes());
    }
    fn vec(&mut self, v: &[u8]) {
        self.calls[4] += 1;
        self.data.extend_from_slice(v);
    }
}

/// Counting sink: byte sum and length only (no allocation).
pub struct SumLen {
    pub sum: u8,
    pub len: usize,
    pub head: [u8; 64],
}
impl Default for SumLen {
    fn default() -> Self {
        SumLen { sum: 0, len: 0, head: [0; 64] }
    }
}
impl AmlSink for SumLen {
    fn byte(&mut self, b: u8) {
        if self.len < 64 {
            self.head[self.len] = b;
        }
        self.sum = self.sum.wrapping_add(b);
        self.len += 1;
    }
}

pub fn sum8(b: &[u8]) -> u8 {
    b.iter().fold(0u8, |a, x| a.wrapping_add(*x))
}
pub fn rd16(b: &[u8], o: usize) -> u16 {
    u16::from_le_bytes([b[o], b[o + 1]])
}
pub fn rd32(b: &[u8], o: usize) -> u32 {
    u32::from_le_bytes([b[o], b[o + 1], b[o + 2], b[o + 3]])
}
pub fn rd64(b: &[u8], o: usize) -> u64 {
    let mut a = [0u8; 8];
    a.copy_from_slice(&b[o..o + 8]);
    u64::from_le_bytes(a)
}
pub fn try_rd16(b: &[u8], o: usize) -> Option<u16> {
    if o + 2 <= b.len() {
        Some(rd16(b, o))
    } else {
        None
    }
}
pub fn try_rd32(b: &[u8], o: usize) -> Option<u32> {
    if o + 4 <= b.len() {
        Some(rd32(b, o))
    } else {
        None
    }
}

/// Little-endian byte writer used by every reference encoder.
#[derive(Default, Clone)]
pub struct W(pub Vec<u8>);
impl W {
    pub fn new() -> Self {
        W(Vec::new())
    }
    pub fn u8(&mut self, v: u8) -> &mut Self {
        self.0.push(v);
        self
    }
    pub fn u16(&mut self, v: u16) -> &mut Self {
        self.0.extend_from_slice(&v.to_le_bytes());
        self
    }
    pub fn u32(&mut self, v: u32) -> &mut Self {
        self.0.extend_from_slice(&v.to_le_bytes());
        self
    }
    pub fn u64(&mut self, v: u64) -> &mut Self {
        self.0.extend_from_slice(&v.to_le_bytes());
        self
    }
    pub fn b(&mut self, v: &[u8]) -> &mut Self {
        self.0.extend_from_slice(v);
        self
    }
    pub fn z(&mut self, n: usize) -> &mut Self {
        self.0.resize(self.0.len() + n, 0);
        self
    }
    pub fn len(&self) -> usize {
        self.0.len()
    }
    pub fn put32(&mut self, off: usize, v: u32) {
        self.0[off..off + 4].copy_from_slice(&v.to_le_bytes());
    }
    pub fn put16(&mut self, off: usize, v: u16) {
        self.0[off..off + 2].copy_from_slice(&v.to_le_bytes());
    }
}

pub fn hex(b: &[u8]) -> String {
    let mut s = String::with_capacity(b.len() * 2);
    for (i, x) in b.iter().enumerate() {
        if i >= 512 {
            s.push_str(&format!("..(+{} bytes)", b.len() - i));
            break;
        }
        s.push_str(&format!("{:02x}", x));
    }
    s
}

pub fn splitmix(mut x: u64) -> u64 {
    x = x.wrapping_add(0x9E3779B97F4A7C15);
    let mut z = x;
    z = (z ^ (z >> 30)).wrapping_mul(0xBF58476D1CE4E5B9);
    z = (z ^ (z >> 27)).wrapping_mul(0x94D049BB133111EB);
    z ^ (z >> 31)
}

pub fn fnv(b: &[u8]) -> u64 {
    let mut h: u64 = 0xcbf29ce484222325;
    for x in b {
        h ^= *x as u64;
        h = h.wrapping_mul(0x100000001b3);
    }
    h
}

/// first index where two byte strings differ (or the shorter length)
pub fn first_diff(a: &[u8], b: &[u8]) -> Option<usize> {
    let n = a.len().min(b.len());
    for i in 0..n {
        if a[i] != b[i] {
            return Some(i);
        }
    }
    if a.len() != b.len() {
        Some(n)
    } else {
        None
    }
}

/// the same vector with spare capacity (what a caller who collected the elements with push() in a loop hands over):
/// length-based code is unaffected, capacity-based code is exposed
pub fn spare<T>(mut v: Vec<T>) -> Vec<T> {
    let extra = v.len() % 7 + 3;
    v.reserve_exact(extra);
    debug_assert!(v.capacity() >= v.len() + extra);
    v
}
/// the same string with spare capacity
pub fn spare_string(s: &str) -> String {
    let mut o = String::with_capacity(s.len() + s.len() % 5 + 4);
    o.push_str(s);
    o
}

/// Values offered for one argument of `bits` bits when the question is "does any rule key on a particular value?".
/// Whole domain up to 8 bits (thorough: up to 16); beyond that: small integers, the top of the range, the middle, every
/// power of two with its neighbours, every byte lane through a set of values (thorough: all 256) over an ordinary, a zero
/// and an all-ones background, and the ordinary value rounded down to common alignments.
pub fn value_set(bits: u32, ordinary: u64, quick: bool) -> Vec<u64> {
    let bits = bits.min(64);
    let mask = if bits >= 64 { u64::MAX } else { (1u64 << bits) - 1 };
    if bits <= 8 || (bits <= 16 && !quick) {
        return (0..=mask).collect();
    }
    let mut v: Vec<u64> = vec![];
    let small = if quick { 300 } else { 4096 };
    v.extend(0..=small.min(mask));
    let top = if quick { 4 } else { 300 };
    v.extend((0..=top).map(|d| mask - d));
    let mid = mask >> 1;
    v.extend((0..6).map(|d| mid - 2 + d));
    for k in 0..bits {
        let p = 1u64 << k;
        v.extend([p, p.wrapping_sub(1), p + 1]);
    }
    let lane_vals: Vec<u64> = if quick { vec![0, 1, 0x7f, 0x80, 0xfe, 0xff] } else { (0..256).collect() };
    for lane in 0..(bits / 8) {
        for lv in &lane_vals {
            for bg in [ordinary, 0, mask] {
                v.push((bg & !(0xffu64 << (8 * lane))) | (lv << (8 * lane)));
            }
        }
    }
    for k in [1u32, 2, 3, 4, 6, 8, 12, 16, 20, 21, 30, 32, 40, 48] {
        if k < bits {
            v.push(ordinary & !((1u64 << k) - 1));
            v.push((ordinary & !((1u64 << k) - 1)) | 1);
        }
    }
    v.extend([0x1000u64, 0x10_0000, 0xfed4_0000, 0x8000_0000, 0xffff_f000, 0x1_0000_0000, 0xfffe, 0xfffe_0000]);
    for x in v.iter_mut() {
        *x &= mask;
    }
    v.sort();
    v.dedup();
    v
}

/// every combination of values of the enumerated / boolean arguments in `dims` (index, cardinality), or — when there are
/// more than `cap` of them — each such argument through its values on its own
pub fn enum_combos(dims: &[(usize, usize)], cap: usize) -> Vec<Vec<(usize, u64)>> {
    let total: usize = dims.iter().map(|d| d.1.max(1)).product();
    if dims.is_empty() {
        return vec![vec![]];
    }
    if total <= cap {
        let mut out = vec![vec![]];
        for (i, n) in dims {
            let mut next = vec![];
            for c in &out {
                for v in 0..*n.max(&1) {
                    let mut c2: Vec<(usize, u64)> = c.clone();
                    c2.push((*i, v as u64));
                    next.push(c2);
                }
            }
            out = next;
        }
        out
    } else {
        let mut out = vec![vec![]];
        for (i, n) in dims {
            for v in 0..*n {
                out.push(vec![(*i, v as u64)]);
            }
        }
        out
    }
}

/// the most recent panics (message, location) seen by the panic hook: lets the top level tell a panic raised inside the
/// crate under test (a refusal the check did not expect: a verdict) from one raised by the harness itself (machinery)
pub static PANICS: std::sync::Mutex<std::collections::VecDeque<(String, String)>> = std::sync::Mutex::new(std::collections::VecDeque::new());
pub fn install_panic_hook(trace: bool) {
    let default = std::panic::take_hook();
    std::panic::set_hook(Box::new(move |info| {
        let msg = if let Some(s) = info.payload().downcast_ref::<&str>() {
            s.to_string()
        } else if let Some(s) = info.payload().downcast_ref::<String>() {
            s.clone()
        } else {
            "panic".to_string()
        };
        let loc = info.location().map(|l| format!("{}:{}", l.file(), l.line())).unwrap_or_default();
        if let Ok(mut q) = PANICS.lock() {
            if q.len() >= 256 {
                q.pop_front();
            }
            q.push_back((msg, loc));
        }
        if trace {
            default(info);
        }
    }));
}
/// where the most recent panic with this message was raised
pub fn panic_site(msg: &str) -> Option<String> {
    PANICS.lock().ok().and_then(|q| q.iter().rev().find(|(m, _)| m == msg).map(|(_, l)| l.clone()))
}
