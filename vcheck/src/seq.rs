//! E2: stateless exhaustive exploration of operation sequences on the real tables.
//!  * `dfs`   — every sequence over the (history-dependent) alphabet up to a depth; every prefix
//!              (= tree node) is judged exactly once; one execution of the crate per leaf.
//!  * `lanes` — deviation-bounded long horizons: a^N and (ab)^(N/2) for all a, b; prefixes judged
//!              after every operation (or at a stated subset for very long lanes).
use crate::ev::Ctx;
use crate::fill::{Ctor, Op};
use crate::tables::Table;
use crate::util::catch;
use acpi_tables::Aml;
use rayon::prelude::*;
use serde_json::{json, Value};
use std::sync::atomic::{AtomicU64, Ordering};

thread_local! {
    /// indices of operations of the current execution that the crate refused (documented refusals offered on purpose)
    pub static REFUSED: std::cell::RefCell<Vec<usize>> = std::cell::RefCell::new(Vec::new());
}
/// called by a table driver when a refusable operation panicked and was skipped
pub fn note_refused(i: usize) {
    REFUSED.with(|r| r.borrow_mut().push(i));
}
pub fn refused_now() -> Vec<usize> {
    REFUSED.with(|r| r.borrow().clone())
}
pub fn refused_reset() {
    REFUSED.with(|r| r.borrow_mut().clear());
}

pub struct Visit<'a> {
    pub table: &'a dyn Table,
    pub ctor: &'a Ctor,
    /// the history as issued
    pub all_ops: &'a [Op],
    /// the history the table accepted (refused operations removed): what the reference model is fed
    pub ops: &'a [Op],
    pub live: &'a dyn Aml,
    pub handles: &'a [u32],
    /// true on long-lane prefixes where only O(image) checks are affordable
    pub sparse: bool,
    pub lane: Option<&'a str>,
}

pub fn replay_json(t: &dyn Table, c: &Ctor, ops: &[Op]) -> Value {
    json!({"family": "table-seq", "table": t.name(), "ctor": c.json(), "ops": ops.iter().map(|o| o.json(t.kinds())).collect::<Vec<_>>()})
}

/// number of tree nodes (prefixes) up to `depth`, stopping once `cap` is exceeded
pub fn count_nodes(t: &dyn Table, c: &Ctor, level: u8, depth: usize, cap: u64) -> u64 {
    fn rec(t: &dyn Table, c: &Ctor, level: u8, h: &mut Vec<Op>, depth: usize, n: &mut u64, cap: u64) {
        *n += 1;
        if h.len() == depth || *n > cap {
            return;
        }
        for a in t.alphabet(c, h, level) {
            h.push(a);
            rec(t, c, level, h, depth, n, cap);
            h.pop();
            if *n > cap {
                return;
            }
        }
    }
    let mut n = 0;
    rec(t, c, level, &mut vec![], depth, &mut n, cap);
    n
}

/// largest depth <= max_depth whose tree has at most `budget` nodes
pub fn depth_for(t: &dyn Table, c: &Ctor, level: u8, budget: u64, max_depth: usize) -> usize {
    let mut best = 0;
    for d in 1..=max_depth {
        let n = count_nodes(t, c, level, d, budget);
        if n > budget {
            break;
        }
        best = d;
        if n == count_nodes(t, c, level, d.saturating_sub(1), budget) {
            break; // tree stopped growing (finite alphabet exhausted)
        }
    }
    best
}

fn leaves(t: &dyn Table, c: &Ctor, level: u8, depth: usize, h: &mut Vec<Op>, idx: &mut Vec<usize>, out: &mut Vec<(Vec<Op>, Vec<usize>)>) {
    if h.len() == depth {
        out.push((h.clone(), idx.clone()));
        return;
    }
    let al = t.alphabet(c, h, level);
    if al.is_empty() {
        out.push((h.clone(), idx.clone()));
        return;
    }
    for (i, a) in al.into_iter().enumerate() {
        h.push(a);
        idx.push(i);
        leaves(t, c, level, depth, h, idx, out);
        h.pop();
        idx.pop();
    }
}

fn run_leaf(ctx: &Ctx, t: &dyn Table, c: &Ctor, ops: &[Op], idx: &[usize], judge: &(dyn Fn(&Visit) + Sync), nodes: &AtomicU64) {
    let mut reached = 0usize;
    refused_reset();
    let r = catch(|| {
        t.run(c, ops, &mut |k, live, hs| {
            reached = k;
            // judge prefix k iff this leaf is the first leaf below that node
            if idx[k..].iter().all(|i| *i == 0) {
                nodes.fetch_add(1, Ordering::Relaxed);
                let rf = refused_now();
                if rf.is_empty() {
                    judge(&Visit { table: t, ctor: c, all_ops: &ops[..k], ops: &ops[..k], live, handles: hs, sparse: false, lane: None });
                } else {
                    let eff: Vec<Op> = ops[..k].iter().enumerate().filter(|(i, _)| !rf.contains(i)).map(|(_, o)| *o).collect();
                    judge(&Visit { table: t, ctor: c, all_ops: &ops[..k], ops: &eff, live, handles: hs, sparse: false, lane: None });
                }
            }
        })
    });
    ctx.tr(ops.len() as u64);
    ctx.evals(1);
    if let Err(msg) = r {
        // a panic where the property demands acceptance
        let at = reached.min(ops.len().saturating_sub(1));
        let kind = ops.get(reached).map(|o| t.kinds()[o.k as usize]).unwrap_or("new");
        let _ = at;
        ctx.violation(
            &format!("{}:panic:{}", t.name(), kind),
            || format!("{}: operation #{} ({}) panicked: {}", t.name(), reached + 1, kind, msg),
            || replay_json(t, c, &ops[..(reached + 1).min(ops.len())]),
        );
    }
}

/// Exhaustive depth-bounded exploration. Returns (nodes judged, leaves executed).
pub fn dfs(ctx: &Ctx, t: &dyn Table, c: &Ctor, level: u8, depth: usize, judge: &(dyn Fn(&Visit) + Sync)) -> (u64, u64) {
    // split at depth 2 for parallelism
    let split = depth.min(2);
    let mut tasks = vec![];
    leaves(t, c, level, split, &mut vec![], &mut vec![], &mut tasks);
    let nodes = AtomicU64::new(0);
    let nleaves = AtomicU64::new(0);
    tasks.par_iter().for_each(|(h0, i0)| {
        let mut sub = vec![];
        let (mut h, mut i) = (h0.clone(), i0.clone());
        if h.len() < split {
            sub.push((h, i)); // short branch: alphabet ran out
        } else {
            leaves(t, c, level, depth, &mut h, &mut i, &mut sub);
        }
        for (ops, idx) in &sub {
            run_leaf(ctx, t, c, ops, idx, judge, &nodes);
            nleaves.fetch_add(1, Ordering::Relaxed);
            ctx.sample(|| replay_json(t, c, ops));
        }
    });
    let n = nodes.load(Ordering::Relaxed);
    ctx.st(n);
    (n, nleaves.load(Ordering::Relaxed))
}

pub struct Lane {
    pub name: String,
    pub ops: Vec<Op>,
}

/// the op of kind `k` offered after `hist` at level 0 (lanes re-resolve every step so that
/// "latest handle" style selectors follow the growing history)
fn pick(t: &dyn Table, c: &Ctor, hist: &[Op], k: u8) -> Option<Op> {
    let h = &hist[..hist.len().min(24)];
    t.alphabet(c, h, 0).into_iter().find(|o| o.k == k)
}

/// all lanes with 0 deviations (a^N) and 1 periodic deviation ((ab)^(N/2)), from the empty table
/// and from the shortest prefix that enables every kind
pub fn lane_set(t: &dyn Table, c: &Ctor, n: usize, pairs: bool) -> Vec<Lane> {
    let mut out = vec![];
    let kinds = t.kinds();
    let mut build = |name: String, prefix: &[Op], cyc: &[u8]| {
        let mut ops = prefix.to_vec();
        for s in 0..n {
            match pick(t, c, &ops, cyc[s % cyc.len()]) {
                Some(o) => ops.push(o),
                None => break,
            }
        }
        if ops.len() > prefix.len() {
            out.push(Lane { name, ops });
        }
    };
    let a0: Vec<u8> = t.alphabet(c, &[], 0).iter().map(|o| o.k).collect();
    for k in &a0 {
        build(format!("{}^{}", kinds[*k as usize], n), &[], &[*k]);
    }
    let p = t.enable_all();
    let ap: Vec<u8> = {
        let mut v: Vec<u8> = t.alphabet(c, &p, 0).iter().map(|o| o.k).collect();
        v.dedup();
        v
    };
    if !p.is_empty() {
        for k in &ap {
            build(format!("P.{}^{}", kinds[*k as usize], n), &p, &[*k]);
        }
    }
    if pairs {
        for a in &ap {
            for b in &ap {
                if a != b {
                    build(format!("P.({}.{})^{}", kinds[*a as usize], kinds[*b as usize], n / 2), &p, &[*a, *b]);
                }
            }
        }
    }
    out
}

/// Execute one lane; `want(k)` selects the prefixes to judge (k = number of ops applied).
pub fn run_lane(ctx: &Ctx, t: &dyn Table, c: &Ctor, lane: &Lane, want: &(dyn Fn(usize) -> (bool, bool) + Sync), judge: &(dyn Fn(&Visit) + Sync)) -> u64 {
    let mut judged = 0u64;
    let mut reached = 0usize;
    let ops = &lane.ops;
    refused_reset();
    let r = catch(|| {
        t.run(c, ops, &mut |k, live, hs| {
            reached = k;
            let (go, sparse) = want(k);
            if go {
                judged += 1;
                let rf = refused_now();
                if rf.is_empty() {
                    judge(&Visit { table: t, ctor: c, all_ops: &ops[..k], ops: &ops[..k], live, handles: hs, sparse, lane: Some(&lane.name) });
                } else {
                    let eff: Vec<Op> = ops[..k].iter().enumerate().filter(|(i, _)| !rf.contains(i)).map(|(_, o)| *o).collect();
                    judge(&Visit { table: t, ctor: c, all_ops: &ops[..k], ops: &eff, live, handles: hs, sparse, lane: Some(&lane.name) });
                }
            }
        })
    });
    ctx.tr(ops.len() as u64);
    ctx.evals(1);
    ctx.st(judged);
    if let Err(msg) = r {
        let kind = ops.get(reached).map(|o| t.kinds()[o.k as usize]).unwrap_or("new");
        ctx.violation(
            &format!("{}:panic:{}", t.name(), kind),
            || format!("{}: lane {} operation #{} ({}) panicked: {}", t.name(), lane.name, reached + 1, kind, msg),
            || json!({"family": "table-lane", "table": t.name(), "ctor": c.json(), "lane": lane.name, "prefix_len": reached + 1,
                       "ops_head": ops.iter().take(6).map(|o| o.json(t.kinds())).collect::<Vec<_>>()}),
        );
    }
    judged
}

/// replay descriptor for a lane prefix (lanes are regenerated deterministically from their name)
pub fn lane_replay(t: &dyn Table, c: &Ctor, lane: &str, ops: &[Op]) -> Value {
    if ops.len() <= 12 {
        return replay_json(t, c, ops);
    }
    // compress: run-length encode
    let mut rle: Vec<Value> = vec![];
    let mut i = 0;
    while i < ops.len() {
        let mut j = i;
        while j < ops.len() && ops[j] == ops[i] {
            j += 1;
        }
        rle.push(json!({"op": ops[i].json(t.kinds()), "times": j - i}));
        i = j;
        if rle.len() > 64 {
            break;
        }
    }
    if rle.len() <= 64 {
        json!({"family": "table-seq-rle", "table": t.name(), "ctor": c.json(), "lane": lane, "rle": rle})
    } else {
        json!({"family": "table-lane", "table": t.name(), "ctor": c.json(), "lane": lane, "prefix_len": ops.len()})
    }
}
