//! Builders for each of the crate's length-prefixed AML object kinds with a body padded to a chosen size.
use acpi_tables::aml::*;
use acpi_tables::Aml;

pub const SIZED_KINDS: [&str; 15] = [
    "Package",
    "PackageBuilder",
    "VarPackageTerm",
    "ResourceTemplate",
    "Device",
    "Scope",
    "Scope::raw",
    "Method",
    "Field",
    "If",
    "Else",
    "While",
    "BufferTerm",
    "BufferData",
    "PowerResource",
];

/// number of opcode bytes before the PkgLength
pub fn opcode_len(kind: usize) -> usize {
    match SIZED_KINDS[kind] {
        "Device" | "Field" | "PowerResource" => 2,
        _ => 1,
    }
}

fn ser(a: &dyn Aml) -> Vec<u8> {
    let mut v = Vec::new();
    a.to_aml_bytes(&mut v);
    v
}

/// serialise an object of `kind` whose body contains a string child of `pad` characters
/// (Field: `pad` reserved entries; BufferData: `pad` data bytes)
pub fn sized(kind: usize, pad: usize) -> Vec<u8> {
    let s: String = "A".repeat(pad);
    let c: &dyn Aml = &s;
    match SIZED_KINDS[kind] {
        "Package" => ser(&Package::new(vec![c])),
        "PackageBuilder" => {
            let mut p = PackageBuilder::new();
            p.add_element(c);
            ser(&p)
        }
        "VarPackageTerm" => ser(&VarPackageTerm::new(c)),
        "ResourceTemplate" => ser(&ResourceTemplate::new(vec![c])),
        "Device" => ser(&Device::new("DEV0".into(), vec![c])),
        "Scope" => ser(&Scope::new("_SB_".into(), vec![c])),
        "Scope::raw" => Scope::raw("_SB_".into(), ser(c)),
        "Method" => ser(&Method::new("MTH0".into(), 0, false, vec![c])),
        "Field" => ser(&Field::new(
            "FLD0".into(),
            FieldAccessType::Any,
            FieldLockRule::NoLock,
            FieldUpdateRule::Preserve,
            (0..pad).map(|i| FieldEntry::Reserved(1 + (i % 7))).collect(),
        )),
        "If" => ser(&If::new(&ONE, vec![c])),
        "Else" => ser(&Else::new(vec![c])),
        "While" => ser(&While::new(&ONE, vec![c])),
        "BufferTerm" => ser(&BufferTerm::new(c)),
        "BufferData" => ser(&BufferData::new(vec![0x5a; pad])),
        "PowerResource" => ser(&PowerResource::new("PWR0".into(), 1, 2, vec![c])),
        _ => unreachable!(),
    }
}
