//! Builders for each of the crate's length-prefixed AML object kinds with a body padded to a chosen size.
use acpi_tables::aml::*;
use acpi_tables::Aml;

pub const SIZED_KINDS: [&str; 15] = [
    "Package",
    "PackageBuilder",
    "VarPackageTerm",
    "ResourceTemplate",
    "Device",
    "Scope",
    "Scope::raw",
    "Method",
    "Field",
    "If",
    "Else",
    "While",
    "BufferTerm",
    "BufferData",
    "PowerResource",
];

/// number of opcode bytes before the PkgLength
pub fn opcode_len(kind: usize) -> usize {
    match SIZED_KINDS[kind] {
        "Device" | "Field" | "PowerResource" => 2,
        _ => 1,
    }
}

fn ser(a: &dyn Aml) -> Vec<u8> {
    let mut v = Vec::new();
    a.to_aml_bytes(&mut v);
    v
}

/// serialise an object of `kind` whose body contains a string child of `pad` characters
/// (Field: `pad` reserved entries; BufferData: `pad` data bytes)
pub fn sized(kind: usize, pad: usize) -> Vec<u8> {
    sized_v(kind, pad, 0, false)
}

/// names for the named kinds: 1, 2, 3 and 10 segments, relative and rooted
pub const NAME_VARIANTS: [&str; 8] = ["", "\\", "_SB_.", "\\_SB_.", "_SB_.PCI0.", "\\_SB_.PCI0.", "_SB_.PCI0.S001.S002.S003.S004.S005.S006.S007.", "\\_SB_.PCI0.S001.S002.S003.S004.S005.S006.S007."];
pub fn is_named(kind: usize) -> bool {
    matches!(SIZED_KINDS[kind], "Device" | "Scope" | "Scope::raw" | "Method" | "Field" | "PowerResource")
}
/// like `sized`, with the object's name drawn from NAME_VARIANTS and, when `direct` is set, a second child that
/// hands a 64-bit constant to the sink in one call (instead of a buffered byte string)
pub fn sized_v(kind: usize, pad: usize, name: usize, direct: bool) -> Vec<u8> {
    let s: String = "A".repeat(pad);
    let c: &dyn Aml = &s;
    let q: u64 = 0x0001_0000_0000_0001;
    let kids: Vec<&dyn Aml> = if direct { vec![c, &q] } else { vec![c] };
    let nm = |leaf: &str| -> Path { Path::new(&format!("{}{}", NAME_VARIANTS[name % 8], leaf)) };
    if name != 0 || direct {
        match SIZED_KINDS[kind] {
            "Package" => return ser(&Package::new(kids)),
            "PackageBuilder" => {
                let mut p = PackageBuilder::new();
                for k in &kids {
                    p.add_element(*k);
                }
                return ser(&p);
            }
            "ResourceTemplate" => return ser(&ResourceTemplate::new(kids)),
            "Device" => return ser(&Device::new(nm("DEV0"), kids)),
            "Scope" => return ser(&Scope::new(nm("SCP0"), kids)),
            "Scope::raw" => {
                let mut body = ser(c);
                if direct {
                    body.extend(ser(&q));
                }
                return Scope::raw(nm("SCP0"), body);
            }
            "Method" => return ser(&Method::new(nm("MTH0"), 0, false, kids)),
            "Field" => {
                return ser(&Field::new(nm("FLD0"), FieldAccessType::Any, FieldLockRule::NoLock, FieldUpdateRule::Preserve, (0..pad).map(|i| FieldEntry::Reserved(1 + (i % 7))).collect()))
            }
            "If" => return ser(&If::new(&q, kids)),
            "Else" => return ser(&Else::new(kids)),
            "While" => return ser(&While::new(&q, kids)),
            "PowerResource" => return ser(&PowerResource::new(nm("PWR0"), 1, 2, kids)),
            _ => {}
        }
    }
    match SIZED_KINDS[kind] {
        "Package" => ser(&Package::new(vec![c])),
        "PackageBuilder" => {
            let mut p = PackageBuilder::new();
            p.add_element(c);
            ser(&p)
        }
        "VarPackageTerm" => ser(&VarPackageTerm::new(c)),
        "ResourceTemplate" => ser(&ResourceTemplate::new(vec![c])),
        "Device" => ser(&Device::new("DEV0".into(), vec![c])),
        "Scope" => ser(&Scope::new("_SB_".into(), vec![c])),
        "Scope::raw" => Scope::raw("_SB_".into(), ser(c)),
        "Method" => ser(&Method::new("MTH0".into(), 0, false, vec![c])),
        "Field" => ser(&Field::new(
            "FLD0".into(),
            FieldAccessType::Any,
            FieldLockRule::NoLock,
            FieldUpdateRule::Preserve,
            (0..pad).map(|i| FieldEntry::Reserved(1 + (i % 7))).collect(),
        )),
        "If" => ser(&If::new(&ONE, vec![c])),
        "Else" => ser(&Else::new(vec![c])),
        "While" => ser(&While::new(&ONE, vec![c])),
        "BufferTerm" => ser(&BufferTerm::new(c)),
        "BufferData" => ser(&BufferData::new(vec![0x5a; pad])),
        "PowerResource" => ser(&PowerResource::new("PWR0".into(), 1, 2, vec![c])),
        _ => unreachable!(),
    }
}

/// kinds whose body is a list of children handed over as `Vec<&dyn Aml>` (or one at a time)
pub fn takes_children(kind: usize) -> bool {
    matches!(SIZED_KINDS[kind], "Package" | "PackageBuilder" | "ResourceTemplate" | "Device" | "Scope" | "Method" | "If" | "Else" | "While" | "PowerResource")
}
/// an object of `kind` with `n` children of `width` encoded bytes each (1: One, 2: byte constant, 9: qword constant)
pub fn sized_many(kind: usize, n: usize, width: usize) -> Vec<u8> {
    let b: u8 = 0x55;
    let q: u64 = 0x0102_0304_0506_0708;
    let c: &dyn Aml = match width {
        1 => &ONE,
        2 => &b,
        _ => &q,
    };
    let kids: Vec<&dyn Aml> = vec![c; n];
    with_children(kind, kids)
}
/// a child that hands fixed bytes to the sink in one slice
pub struct Bytes(pub Vec<u8>);
impl Aml for Bytes {
    fn to_aml_bytes(&self, sink: &mut dyn acpi_tables::AmlSink) {
        sink.vec(&self.0);
    }
}
/// an object of `kind` with exactly these children
pub fn with_children(kind: usize, kids: Vec<&dyn Aml>) -> Vec<u8> {
    match SIZED_KINDS[kind] {
        "Package" => ser(&Package::new(kids)),
        "PackageBuilder" => {
            let mut p = PackageBuilder::new();
            for k in &kids {
                p.add_element(*k);
            }
            ser(&p)
        }
        "ResourceTemplate" => ser(&ResourceTemplate::new(kids)),
        "Device" => ser(&Device::new("DEV0".into(), kids)),
        "Scope" => ser(&Scope::new("_SB_".into(), kids)),
        "Method" => ser(&Method::new("MTH0".into(), 0, false, kids)),
        "If" => ser(&If::new(&ONE, kids)),
        "Else" => ser(&Else::new(kids)),
        "While" => ser(&While::new(&ONE, kids)),
        "PowerResource" => ser(&PowerResource::new("PWR0".into(), 1, 2, kids)),
        _ => unreachable!(),
    }
}
