//! `./check replay <file>`: re-execute a recorded violation on the real code, twice, without any explorer.
use crate::fill::{Ctor, Op};
use crate::tables;
use crate::util::{catch, first_diff, hex, rd32, ser, sum8};
use serde_json::Value;

fn ops_of(r: &Value) -> Option<Vec<Op>> {
    if let Some(a) = r.get("ops").and_then(|x| x.as_array()) {
        return a.iter().map(Op::from_json).collect();
    }
    if let Some(a) = r.get("rle").and_then(|x| x.as_array()) {
        let mut v = vec![];
        for e in a {
            let op = Op::from_json(&e["op"])?;
            for _ in 0..e["times"].as_u64()? {
                v.push(op);
            }
        }
        return Some(v);
    }
    None
}

pub fn run(path: &str) -> i32 {
    let s = match std::fs::read_to_string(path) {
        Ok(s) => s,
        Err(e) => {
            eprintln!("cannot read {}: {}", path, e);
            return 2;
        }
    };
    let v: Value = match serde_json::from_str(&s) {
        Ok(v) => v,
        Err(e) => {
            eprintln!("cannot parse {}: {}", path, e);
            return 2;
        }
    };
    println!("property: {}\nkey: {}\nrecorded: {}", v["property"], v["key"], v["what"]);
    let r = &v["replay"];
    let fam = r["family"].as_str().unwrap_or("");
    match fam {
        "table-seq" | "table-seq-rle" | "table-lane" => replay_table(r),
        _ => {
            // other families carry a self-contained description; props modules expose their own replayers
            crate::props::replay_other(&v)
        }
    }
}

fn replay_table(r: &Value) -> i32 {
    let t = match tables::by_name(r["table"].as_str().unwrap_or("")) {
        Some(t) => t,
        None => {
            eprintln!("unknown table");
            return 2;
        }
    };
    let c = match Ctor::from_json(&r["ctor"]) {
        Some(c) => c,
        None => return 2,
    };
    let ops: Vec<Op> = if r["family"] == "table-lane" {
        let name = r["lane"].as_str().unwrap_or("");
        let n = r["prefix_len"].as_u64().unwrap_or(0) as usize;
        // lanes are regenerated deterministically
        let mut found = None;
        for pairs in [false, true] {
            for len in [300usize, 600, 66_000] {
                for l in crate::seq::lane_set(t.as_ref(), &c, len, pairs) {
                    if l.name == name {
                        found = Some(l.ops[..n.min(l.ops.len())].to_vec());
                    }
                }
                if found.is_some() {
                    break;
                }
            }
        }
        match found {
            Some(o) => o,
            None => {
                eprintln!("lane {} not found", name);
                return 2;
            }
        }
    } else {
        match ops_of(r) {
            Some(o) => o,
            None => return 2,
        }
    };
    println!("table {} ctor {} ops {}", t.name(), c.json(), ops.len());
    for o in ops.iter().take(12) {
        println!("  {}", o.json(t.kinds()));
    }
    let mut images: Vec<Result<Vec<u8>, String>> = vec![];
    for _ in 0..2 {
        let mut last = vec![];
        let r = catch(|| t.run(&c, &ops, &mut |_k, live, _h| last = ser(live)));
        images.push(r.map(|_| last));
    }
    if images[0] != images[1] {
        println!("MACHINERY: two replays of the same history disagree");
        return 2;
    }
    match &images[0] {
        Err(m) => {
            println!("real crate panicked: {}", m);
        }
        Ok(img) => {
            let want = t.reference(&c, &ops);
            println!("emitted {} bytes, sum mod 256 = {}, Length field = {}", img.len(), sum8(img), if img.len() >= t.length_at() + 4 { rd32(img, t.length_at()) as i64 } else { -1 });
            println!("image : {}", hex(img));
            println!("refer : {}", hex(&want.image));
            match first_diff(img, &want.image) {
                None => println!("image equals the reference encoding"),
                Some(d) => println!("first difference from the reference encoding at offset {}", d),
            }
            if t.variable_body() {
                match t.walk(img) {
                    Ok(e) => {
                        println!("body walk: {} entries, ends exactly at the image end", e.len());
                        if let Err(w) = t.counts(img, &e) {
                            println!("count fields: {}", w);
                        }
                    }
                    Err(w) => println!("body walk fails: {}", w),
                }
            }
        }
    }
    0
}
