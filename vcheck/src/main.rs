//! vcheck — model-checking harness for rust-vmm/acpi_tables (see /verif/DESIGN.md).
mod aml;
mod amlobj;
mod codecs;
mod ev;
mod fill;
mod props;
mod replay;
mod seq;
mod sr;
mod tables;
mod util;

use ev::{Ctx, Tier};

fn usage() -> ! {
    eprintln!("usage: vcheck <C01..C18> <quick|thorough> | vcheck replay <file>");
    std::process::exit(2)
}

/// run one property's exploration; a panic that escapes it is a verdict when it was raised inside the crate under test (the
/// check called something the property requires to work and it refused), and a machinery failure when the harness raised it
fn guarded(ctx: &'static Ctx, f: impl FnOnce()) {
    if let Err(msg) = util::catch(f) {
        let site = util::panic_site(&msg).unwrap_or_default();
        if site.starts_with("/repo/") || site.contains("/repo/src/") {
            let prop = ctx.prop.clone();
            ctx.violation(&format!("{}:unguarded-panic", prop.to_lowercase()), || format!("the crate panicked at {} ({}) inside a call this check makes on inputs the property covers; the exploration stopped there", site, msg), || serde_json::json!({"family":"unguarded-panic","site":site,"message":msg}));
        } else {
            eprintln!("machinery: the harness panicked at {}: {}", site, msg);
            std::process::exit(2);
        }
    }
}

fn main() {
    let args: Vec<String> = std::env::args().collect();
    if args.len() < 3 {
        usage();
    }
    // every call into the crate runs under catch_unwind; keep the default hook quiet
    util::install_panic_hook(std::env::var("VCHECK_PANIC_TRACE").is_ok());
    if args[1] == "C18LEG" {
        let rows = props::c18::leg(args[2] == "thorough");
        println!("{}", serde_json::to_string(&rows).unwrap());
        return;
    }
    if args[1] == "replay" {
        std::process::exit(replay::run(&args[2]));
    }
    let tier = match args[2].as_str() {
        "quick" => Tier::Quick,
        "thorough" => Tier::Thorough,
        _ => usage(),
    };
    let threads = std::env::var("VCHECK_THREADS").ok().and_then(|s| s.parse().ok()).unwrap_or(16usize);
    rayon::ThreadPoolBuilder::new().num_threads(threads).stack_size(64 << 20).build_global().ok();
    let ctx: &'static Ctx = Box::leak(Box::new(Ctx::new(&args[1], tier)));
    let code = match args[1].as_str() {
        "C06" => {
            guarded(ctx, || props::c06::run(ctx));
            ctx.finish(props::c06::RULE, props::c06::ASSUME)
        }
        "C07" => {
            guarded(ctx, || props::c07::run(ctx));
            ctx.finish(props::c07::RULE, props::c07::ASSUME)
        }
        "C08" => {
            guarded(ctx, || props::c08::run(ctx));
            ctx.finish(props::c08::RULE, props::c08::ASSUME)
        }
        "C09" => {
            guarded(ctx, || props::c09::run(ctx));
            ctx.finish(props::c09::RULE, props::c09::ASSUME)
        }
        "C10" => {
            guarded(ctx, || props::c10::run(ctx));
            ctx.finish(props::c10::RULE, props::c10::ASSUME)
        }
        "C11" => {
            guarded(ctx, || props::c11::run(ctx));
            ctx.finish(props::c11::RULE, props::c11::ASSUME)
        }
        "C12" => {
            guarded(ctx, || props::c12::run(ctx));
            ctx.finish(props::c12::RULE, props::c12::ASSUME)
        }
        "C13" => {
            guarded(ctx, || props::c13::run(ctx));
            ctx.finish(props::c13::RULE, props::c13::ASSUME)
        }
        "C14" => {
            guarded(ctx, || props::c14::run(ctx));
            ctx.finish(props::c14::RULE, props::c14::ASSUME)
        }
        "C15" => {
            guarded(ctx, || props::c15::run(ctx));
            ctx.finish(props::c15::RULE, props::c15::ASSUME)
        }
        "C16" => {
            guarded(ctx, || props::c16::run(ctx));
            ctx.finish(props::c16::RULE, props::c16::ASSUME)
        }
        "C18" => {
            guarded(ctx, || props::c18::run(ctx));
            ctx.finish(props::c18::RULE, props::c18::ASSUME)
        }
        "C17" => {
            guarded(ctx, || props::c17::run(ctx));
            ctx.finish(props::c17::RULE, props::c17::ASSUME)
        }
        "C04" => {
            guarded(ctx, || props::c04::run(ctx));
            ctx.finish(props::c04::RULE, props::c04::ASSUME)
        }
        "C01" | "C02" | "C03" | "C05" => {
            use props::tseq::P;
            let p = match args[1].as_str() { "C01" => P::C01, "C02" => P::C02, "C03" => P::C03, _ => P::C05 };
            guarded(ctx, || props::tseq::run(ctx, p));
            ctx.finish(props::tseq::rule(p), props::tseq::ASSUME)
        }
        _ => {
            eprintln!("unknown property {}", args[1]);
            2
        }
    };
    std::process::exit(code);
}
