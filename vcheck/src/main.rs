//! vcheck — model-checking harness for rust-vmm/acpi_tables (see /verif/DESIGN.md).
mod aml;
mod amlobj;
mod codecs;
mod ev;
mod fill;
mod props;
mod replay;
mod seq;
mod sr;
mod tables;
mod util;

use ev::{Ctx, Tier};

fn usage() -> ! {
    eprintln!("usage: vcheck <C01..C18> <quick|thorough> | vcheck replay <file>");
    std::process::exit(2)
}

fn main() {
    let args: Vec<String> = std::env::args().collect();
    if args.len() < 3 {
        usage();
    }
    // every call into the crate runs under catch_unwind; keep the default hook quiet
    if std::env::var("VCHECK_PANIC_TRACE").is_err() {
        std::panic::set_hook(Box::new(|_| {}));
    }
    if args[1] == "C18LEG" {
        let rows = props::c18::leg(args[2] == "thorough");
        println!("{}", serde_json::to_string(&rows).unwrap());
        return;
    }
    if args[1] == "replay" {
        std::process::exit(replay::run(&args[2]));
    }
    let tier = match args[2].as_str() {
        "quick" => Tier::Quick,
        "thorough" => Tier::Thorough,
        _ => usage(),
    };
    let threads = std::env::var("VCHECK_THREADS").ok().and_then(|s| s.parse().ok()).unwrap_or(16usize);
    rayon::ThreadPoolBuilder::new().num_threads(threads).stack_size(64 << 20).build_global().ok();
    let ctx: &'static Ctx = Box::leak(Box::new(Ctx::new(&args[1], tier)));
    let code = match args[1].as_str() {
        "C06" => {
            props::c06::run(ctx);
            ctx.finish(props::c06::RULE, props::c06::ASSUME)
        }
        "C07" => {
            props::c07::run(ctx);
            ctx.finish(props::c07::RULE, props::c07::ASSUME)
        }
        "C08" => {
            props::c08::run(ctx);
            ctx.finish(props::c08::RULE, props::c08::ASSUME)
        }
        "C09" => {
            props::c09::run(ctx);
            ctx.finish(props::c09::RULE, props::c09::ASSUME)
        }
        "C10" => {
            props::c10::run(ctx);
            ctx.finish(props::c10::RULE, props::c10::ASSUME)
        }
        "C11" => {
            props::c11::run(ctx);
            ctx.finish(props::c11::RULE, props::c11::ASSUME)
        }
        "C12" => {
            props::c12::run(ctx);
            ctx.finish(props::c12::RULE, props::c12::ASSUME)
        }
        "C13" => {
            props::c13::run(ctx);
            ctx.finish(props::c13::RULE, props::c13::ASSUME)
        }
        "C14" => {
            props::c14::run(ctx);
            ctx.finish(props::c14::RULE, props::c14::ASSUME)
        }
        "C15" => {
            props::c15::run(ctx);
            ctx.finish(props::c15::RULE, props::c15::ASSUME)
        }
        "C16" => {
            props::c16::run(ctx);
            ctx.finish(props::c16::RULE, props::c16::ASSUME)
        }
        "C18" => {
            props::c18::run(ctx);
            ctx.finish(props::c18::RULE, props::c18::ASSUME)
        }
        "C17" => {
            props::c17::run(ctx);
            ctx.finish(props::c17::RULE, props::c17::ASSUME)
        }
        "C04" => {
            props::c04::run(ctx);
            ctx.finish(props::c04::RULE, props::c04::ASSUME)
        }
        "C01" | "C02" | "C03" | "C05" => {
            use props::tseq::P;
            let p = match args[1].as_str() { "C01" => P::C01, "C02" => P::C02, "C03" => P::C03, _ => P::C05 };
            props::tseq::run(ctx, p);
            ctx.finish(props::tseq::rule(p), props::tseq::ASSUME)
        }
        _ => {
            eprintln!("unknown property {}", args[1]);
            2
        }
    };
    std::process::exit(code);
}
